"""TC (traversal completeness), RP (rebuild preserves), and helpers on `match`es over the tree
enums (parse::Expr, regex::RegexNode).  Engine S only."""
import re

from . import ast as A

CHILD_TYPES = {
    "Expr": {"ExprId", "Vec<ExprId>"},
    "RegexNode": {"RegexNodeId", "Vec<RegexNodeId>"},
}
OK_ADAPTORS = {"iter", "into_iter", "enumerate", "map", "collect", "iter_mut", "for_each", "try_for_each", "copied", "cloned", "by_ref"}  # for_each visits every element; try_for_each stops only at the first error it propagates


def enum_variants(repo, enum):
    e = repo.enum(enum)
    if e is None:
        return None
    return [v["name"] for v in e["variants"]]


def child_fields(repo, enum, variant):
    fs = repo.variant_fields(enum, variant) or []
    return [n for n, t in fs if t in CHILD_TYPES[enum]]


def is_enum_path(path, enum, fn):
    segs = path.split("::")
    if len(segs) < 2:
        return False
    if segs[-2] == enum:
        return True
    if segs[-2] == "Self" and fn.self_ty and fn.self_ty.split("<")[0] == enum:
        return True
    return False


def find_enum_matches(repo, fn, enum, min_variants=3):
    """All `match` expressions in fn whose arms name variants of `enum`."""
    out = []
    for n in A.walk(fn.body):
        if n["k"] != "Match":
            continue
        names = set()
        for arm in n["arms"]:
            for path, _ in A.pat_variants(arm["pat"]):
                if is_enum_path(path, enum, fn):
                    names.add(path.split("::")[-1])
        if len(names) >= min_variants:
            out.append(n)
    return out


def field_binding(pat, field):
    """How a variant pattern treats `field`: ('bound', [names]) | ('wild',) | ('rest',) | ('nested', pat)"""
    k = pat["k"]
    if k == "PPath":
        return ("rest",)
    if k == "PStruct":
        for f in pat["fields"]:
            if f["name"] == field:
                names = [n for n, _ in A.pat_bindings(f["pat"])]
                if f["pat"]["k"] == "PWild":
                    return ("wild",)
                return ("bound", names)
        return ("rest",)
    if k == "PTupleStruct":
        idx = int(field)
        if idx < len(pat["elems"]):
            p = pat["elems"][idx]
            if p["k"] == "PWild":
                return ("wild",)
            if p["k"] == "PRest":
                return ("rest",)
            return ("bound", [n for n, _ in A.pat_bindings(p)])
        return ("rest",)
    return ("rest",)


def has_root(p, variant, field):
    for r in A.roots(p):
        if r[0] == "bind" and r[1].split("::")[-1] == variant and r[2] == field:
            return True
    return False


def adaptors_between(p, variant, field, out=None):
    """Method names applied on the way from the bound child field to the element that is passed
    to the recursive call (used to reject take/skip/filter/first/last/...)."""
    if out is None:
        out = []
    if not isinstance(p, tuple):
        return out
    if p[0] == "mcall":
        if has_root(p[2], variant, field):
            out.append(p[1])
            adaptors_between(p[2], variant, field, out)
    elif p[0] == "elem":
        via = p[2]
        if isinstance(via, tuple) and via[0] != "for":
            out.append(via[0])
        adaptors_between(p[1], variant, field, out)
    elif p[0] == "index":
        if has_root(p[1], variant, field) and not has_root(p[2], variant, field):
            out.append("[index]")
        adaptors_between(p[1], variant, field, out)
        adaptors_between(p[2], variant, field, out)
    elif p[0] == "bind":
        pass
    else:
        for x in A.subterms(p):
            adaptors_between(x, variant, field, out)
    return out


def callee_name(n):
    if n["k"] == "Call" and n["func"]["k"] == "Path":
        return n["func"]["path"].split("::")[-1]
    if n["k"] == "MethodCall":
        return n["method"]
    return None


def calls_with_child(fn, envs, body_nodes, accepted, variant, field):
    """Calls to an accepted traversal inside `body_nodes` that receive the child bound from
    (variant, field).  Returns list of (call node, adaptors)."""
    hits = []
    for root in body_nodes:
        if root is None:
            continue
        for n in A.walk(root):
            cn = callee_name(n)
            # a worklist traversal hands a child on by pushing it onto the pending list it was given (`&mut Vec<..Id>` parameter)
            if n["k"] == "MethodCall" and cn in ("push", "extend") and _is_worklist(fn, envs, n["recv"]):
                for a in n["args"]:
                    p = A.resolve(a, envs.get(id(n)))
                    if has_root(p, variant, field):
                        hits.append((n, [x for x in adaptors_between(p, variant, field) if x != "rev"], p))
                        break
                continue
            if cn is None or cn not in accepted:
                continue
            env = envs.get(id(n))
            if env is None:
                continue
            args = list(n["args"])
            if n["k"] == "MethodCall":
                args = [n["recv"]] + args
            for a in args:
                if a["k"] == "Closure":
                    continue
                p = A.resolve(a, env)
                if has_root(p, variant, field):
                    hits.append((n, adaptors_between(p, variant, field), p))
                    break
    if not hits:
        # iterative descent: the arm only NAMES the child (`=> Some(*root_id)`), and the `while let Some(c) = <this match> { node = c }`
        # around it moves on to it -- the recursion of a tail-recursive walk written as a loop
        for w in A.walk(fn.body):
            if w["k"] != "While" or w["cond"].get("k") != "Let":
                continue
            inside = {id(y) for y in A.walk(w["cond"]["expr"])}
            if not any(r is not None and id(r) in inside for r in body_nodes):
                continue
            for n in A.walk(w["body"]):
                if n["k"] == "Assign":
                    lhs = A.resolve(n["left"], envs.get(id(n)) or A.fn_env(fn))
                    if lhs[0] == "param":
                        p = A.resolve(n["right"], envs.get(id(n)) or A.fn_env(fn))
                        if has_root(p, variant, field):
                            hits.append((n, adaptors_between(p, variant, field), p))
                            break
    return hits


def _is_worklist(fn, envs, recv):
    p = A.resolve(recv, envs.get(id(recv)) or A.fn_env(fn))
    while p[0] in ("ref", "deref"):
        p = p[1]
    if p[0] != "param" or not isinstance(p[1], int) or p[1] >= len(fn.params):
        return False
    ty = "".join((fn.params[p[1]].get("ty") or "").split())
    return "mut" in ty and re.search(r"Vec<\w*Id>", ty) is not None


def is_unreachable_body(body):
    b = body
    while b["k"] == "Block" and len(b["stmts"]) == 1 and b["stmts"][0]["k"] == "ExprStmt":
        b = b["stmts"][0]["expr"]
    return b["k"] == "Macro" and b["name"].split("::")[-1] in ("unreachable", "unimplemented", "todo", "panic")


def helper_closure(repo, fn, accepted):
    """A helper extracted from a traversal still traverses: any function of the same module that hands one of its own parameters
    (or an element of it: loop variable / closure parameter over it) to an accepted traversal is accepted too (fixpoint)."""
    accepted = set(accepted)
    mods = [f for f in repo.fns_in(fn.module)]
    changed = True
    while changed:
        changed = False
        for h in mods:
            if h.name in accepted:
                continue
            henvs = None
            for n in A.walk(h.body):
                cn = callee_name(n)
                if cn is None or cn not in accepted:
                    continue
                henvs = henvs or A.collect_envs(h)
                env = henvs.get(id(n))
                if env is None:
                    continue
                args = list(n["args"])
                if n["k"] == "MethodCall":
                    args = [n["recv"]] + args
                for a in args:
                    if a["k"] == "Closure":
                        continue
                    p = A.resolve(a, env)
                    if any(r[0] == "param" for r in A.roots(p)):
                        accepted.add(h.name)
                        changed = True
                        break
                if h.name in accepted:
                    break
    return accepted


def tc_check(repo, res, fn_q, enum, accepted, allow, extra_ok_adaptors=(), rule="TC"):
    """Traversal completeness of one function.  `allow` maps (variant, field) -> reason."""
    fn = repo.fn(fn_q)
    if fn is None:
        res.undecided(rule, f"{rule}:{fn_q}", f"function {fn_q} not found")
        return 0
    matches = find_enum_matches(repo, fn, enum)
    if not matches:
        # the tabled function may have become a thin wrapper: the traversal (with this row's allowances) is then its delegate's
        d = A.delegate(repo, fn)
        if d is not None and find_enum_matches(repo, d[0], enum):
            done = res.__dict__.setdefault("_tc_delegates", {})
            prev = done.get((rule, d[0].qname))
            if prev is not None:
                if prev != dict(allow):
                    # two wrappers of one traversal with different allowances: re-check under the second set as well
                    pass
                else:
                    return 0
            done[(rule, d[0].qname)] = dict(allow)
            res.ok(rule, f"{rule}:{fn_q}:delegates", f"{fn_q} is a wrapper of {d[0].qname}" + (f" with {d[1]}" if d[1] else "") + ": the traversal is checked there under this row's allowances", fn.loc())
            return tc_check(repo, res, d[0].qname, enum, set(accepted) | {fn.name}, allow, extra_ok_adaptors, rule)
        res.undecided(rule, f"{rule}:{fn_q}", f"no match over {enum} found in {fn_q}", fn.loc())
        return 0
    envs = A.collect_envs(fn)
    accepted = helper_closure(repo, fn, set(accepted) | {fn.name})
    variants = enum_variants(repo, enum)
    # a match that only LOOKS at the node (reads a field, computes a flag) beside the match that does the visiting is not a traversal:
    # when some match of the function contains traversal calls, only such matches are held to the rule
    def _visits(m):
        for n in A.walk(m):
            if callee_name(n) in accepted:
                return True
        return False

    visiting = [m for m in matches if _visits(m)]
    if visiting and len(visiting) < len(matches):
        matches = visiting
    # a pass visits the node it is given: nothing leaves the function before the dispatch on the node (a "nothing to do" fast path
    # in front of the match skips, with the rewriting, every side effect the arms have -- bookkeeping, error detection -- for the whole sub-tree)
    first = min(matches, key=A.pos)
    early = [r for r in A.walk(fn.body) if r["k"] == "Return" and A.before(r, first)]
    # an early return decided by looking AT THE NODE is an arm written in front of the match (judged by the rules for that variant);
    # one decided by anything else skips the node whatever it is
    pm_ = A.parent_map(fn.body)

    def _reads_node(ret):
        node_params = {prm["name"] for prm in fn.params if prm.get("name") and re.search(r"\b(ExprId|RegexNodeId|RegexNode|Expr)\b", prm.get("ty") or "")} | ({"self"} if fn.params and fn.params[0].get("name") == "self" else set())
        for g, role in A.guards_of(ret, pm_):
            if g["k"] != "If":
                continue
            work, seen = [(g["cond"], envs.get(id(g["cond"])) or envs.get(id(g)))], set()
            while work:
                x, en = work.pop()
                if x is None or id(x) in seen:
                    continue
                seen.add(id(x))
                for n in A.walk(x):
                    if n["k"] == "Path" and "::" not in n["path"]:
                        if n["path"] in node_params:
                            return True
                        df = en.get(n["path"]) if en else None
                        if df is not None and df.init is not None:
                            work.append((df.init, df.env))
        return False

    early = [r for r in early if not _reads_node(r)]
    if early:
        res.bad(rule, f"{rule}:{fn_q}:no-exit-before-dispatch", f"`return` at line {early[0]['l']} stands before the match over {enum}: the sub-tree is not visited on that path", f"{fn.file}:{early[0]['l']}")
    else:
        res.ok(rule, f"{rule}:{fn_q}:no-exit-before-dispatch", f"no exit before the match over {enum}", fn.loc())
    n_inst = 0
    okad = OK_ADAPTORS | set(extra_ok_adaptors)
    for m in matches:
        covered = set()
        for arm in m["arms"]:
            pv = [(p, pn) for p, pn in A.pat_variants(arm["pat"]) if is_enum_path(p, enum, fn)]
            if not pv:
                # wildcard / binding arm: every variant not covered so far is swallowed
                if arm["pat"]["k"] in ("PWild", "PIdent"):
                    for v in variants:
                        if v in covered:
                            continue
                        for f in child_fields(repo, enum, v):
                            key = f"{rule}:{fn_q}:{v}.{f}"
                            n_inst += 1
                            if (v, f) in allow:
                                res.ok(rule, key, "allowed drop (wildcard arm): " + allow[(v, f)], f"{fn.file}:{arm['l']}")
                            else:
                                res.bad(rule, key, f"variant {v} falls into a wildcard arm; child `{f}` is not traversed", f"{fn.file}:{arm['l']}")
                        covered.add(v)
                continue
            for path, pn in pv:
                v = path.split("::")[-1]
                if arm["guard"] is None:
                    covered.add(v)
                for f in child_fields(repo, enum, v):
                    key = f"{rule}:{fn_q}:{v}.{f}"
                    loc = f"{fn.file}:{arm['l']}"
                    n_inst += 1
                    fb = field_binding(pn, f)
                    if is_unreachable_body(arm["body"]):
                        if (v, f) in allow:
                            res.ok(rule, key, "phase-eliminated arm (unreachable!): " + allow[(v, f)], loc)
                        else:
                            res.bad(rule, key, f"arm for {v} is unreachable!() but no phase discharge is tabled", loc)
                        continue
                    if fb[0] != "bound":
                        if (v, f) in allow:
                            res.ok(rule, key, "allowed drop: " + allow[(v, f)], loc)
                        else:
                            res.bad(rule, key, f"child field `{f}` of {v} is not bound ({fb[0]}): dropped subtree", loc)
                        continue
                    hits = calls_with_child(fn, envs, [arm["body"], arm["guard"]], accepted, v, f)
                    if not hits:
                        if (v, f) in allow:
                            res.ok(rule, key, "allowed drop: " + allow[(v, f)], loc)
                        else:
                            res.bad(rule, key, f"child `{f}` of {v} is bound but never passed to a traversal ({', '.join(sorted(accepted))})", loc)
                        continue
                    # every hit must reach all children (no take/skip/first/...)
                    good = [h for h in hits if all(a in okad for a in h[1])]
                    if good:
                        h = good[0]
                        res.ok(rule, key, f"{callee_name(h[0])}({A.show(h[2])}) via [{','.join(h[1])}]", loc)
                    elif (v, f) in allow:
                        res.ok(rule, key, "allowed partial traversal: " + allow[(v, f)], loc)
                    else:
                        h = hits[0]
                        res.bad(rule, key, f"child `{f}` of {v} reaches {callee_name(h[0])} only through [{','.join(h[1])}] (partial traversal)", loc)
        missing = [v for v in variants if v not in covered]
        # rustc guarantees exhaustiveness; an uncovered variant here means only guarded arms exist
        for v in missing:
            for f in child_fields(repo, enum, v):
                res.bad(rule, f"{rule}:{fn_q}:{v}.{f}", f"variant {v} only matched under guards", fn.loc())
    return n_inst


def rp_check(repo, res, fn_q, enum, accepted, flows, rule="RP"):
    """In an arm matching variant V, every `E::V { .. }` constructed keeps every field: the value comes
    from the same-named binding (non-child fields) or from a traversal of it (child fields), unless
    `flows[(V, field)]` names the intended source (a predicate over the provenance term)."""
    fn = repo.fn(fn_q)
    if fn is None:
        res.undecided(rule, f"{rule}:{fn_q}", f"function {fn_q} not found")
        return 0
    if not find_enum_matches(repo, fn, enum):
        d = A.delegate(repo, fn)
        if d is not None and find_enum_matches(repo, d[0], enum):
            return rp_check(repo, res, d[0].qname, enum, set(accepted) | {fn.name}, flows, rule)
    envs = A.collect_envs(fn)
    accepted = set(accepted) | {fn.name}
    n = 0
    for m in find_enum_matches(repo, fn, enum):
        for arm in m["arms"]:
            pv = [(p, pn) for p, pn in A.pat_variants(arm["pat"]) if is_enum_path(p, enum, fn)]
            vs = {p.split("::")[-1] for p, _ in pv}
            for node in A.walk(arm["body"]):
                if node["k"] != "Struct" or not is_enum_path(node["path"], enum, fn):
                    continue
                v = node["path"].split("::")[-1]
                if v not in vs:
                    # constructing a different variant is FF's business -- except when the new node is given the matched node's own
                    # children: then the pass has changed the operator above them (`a || b` rebuilt as `a | b`), and every later pass
                    # treats the sub-trees by the wrong rule.  KIND: a rebuilding arm keeps the variant of the node it rebuilds.
                    envk = envs.get(id(node))
                    for fi in node["fields"]:
                        if fi["name"] not in set(child_fields(repo, enum, v)):
                            continue
                        pk = A.resolve(fi["expr"], envk)
                        for mv in sorted(vs):
                            mcf = set(child_fields(repo, enum, mv))
                            if mcf and any(has_root(pk, mv, o) for o in mcf):
                                n += 1
                                res.bad(rule, f"{rule}:{fn_q}:{mv}:KIND", f"the arm for {enum}::{mv} builds an {enum}::{v} over the matched node's children ({A.show(pk)[:120]}): the operator changes while its operands stay", f"{fn.file}:{node['l']}")
                    continue
                env = envs.get(id(node))
                cf = set(child_fields(repo, enum, v))
                for fi in node["fields"]:
                    fname = fi["name"]
                    key = f"{rule}:{fn_q}:{v}.{fname}"
                    loc = f"{fn.file}:{fi['l']}"
                    p = A.resolve(fi["expr"], env)
                    n += 1
                    if (v, fname) in flows:
                        want, pred = flows[(v, fname)]
                        res.check(pred(p), rule, key, f"tabled flow `{want}`; found {A.show(p)}", loc)
                        # FILL: a pass that puts a value of its own into an Option field fills an empty slot; it must not replace what
                        # the node already says.  The arm is therefore restricted to nodes whose field is None (pattern or guard).
                        fty = next((str(f.get("ty", "")) for vv in (repo.enum(enum) or {}).get("variants", []) if vv["name"] == v for f in vv.get("fields", []) if str(f.get("name")) == fname), "")
                        if re.match(r"^\s*Option\s*<", fty):
                            none_pat = False
                            for y in A.walk(arm["pat"]):
                                if y.get("k") == "PStruct" and str(y.get("path", "")).split("::")[-1] == v:
                                    for pf in y["fields"]:
                                        if str(pf["name"]) == fname and pf["pat"].get("k") in ("PPath", "PIdent", "Path") and str(pf["pat"].get("path", pf["pat"].get("name", ""))).split("::")[-1] == "None":
                                            none_pat = True
                            g = arm.get("guard")
                            gtxt = "".join(repo.text(fn.file, g).split()) if g is not None else ""
                            fbinds = [nm for y in A.walk(arm["pat"]) if y.get("k") == "PStruct" and str(y.get("path", "")).split("::")[-1] == v for pf in y["fields"] if str(pf["name"]) == fname for nm, _ in A.pat_bindings(pf["pat"])]
                            none_guard = any(re.search(rf"\b{re.escape(nm)}\.is_none\(\)|\b{re.escape(nm)}==None", gtxt) for nm in fbinds)
                            res.check(none_pat or none_guard, rule, key + ":FILL", f"{enum}::{v}.{fname}: {fty} is filled from `{want}`" + (" only where the matched node has none" if (none_pat or none_guard) else ": the arm also matches nodes that already have a value there, which the pass then replaces (the node's own value is lost, and the value the pass carries is spent on it)"), loc)
                        continue
                    if fname in cf:
                        ok = has_root(p, v, fname) and not any(has_root(p, v, o) for o in cf if o != fname)
                        stale = ok and p[0] == "bind"  # the matched node's own child put back unchanged into a NEW node
                        res.check(ok and not stale, rule, key, f"child field rebuilt from {A.show(p)}" + (": the rebuilt node keeps the matched node's untraversed child -- whatever the pass computed for it is discarded" if stale else ""), loc)
                    else:
                        ok = p[0] == "bind" and p[1].split("::")[-1] == v and p[2] == fname
                        res.check(ok, rule, key, f"field kept from {A.show(p)}" if ok else f"field `{fname}` of rebuilt {v} comes from {A.show(p)}, expected the matched node's own `{fname}`", loc)
                if node.get("rest"):
                    res.bad(rule, f"{rule}:{fn_q}:{v}:rest", "struct update syntax hides field flow", f"{fn.file}:{node['l']}")
    return n
