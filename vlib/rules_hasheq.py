"""HASHEQ (engine S): hand-written Hash / PartialEq impls agree.

Interning (IndexSet::insert_full, HashMap::entry) finds an equal value only among the candidates its hash selects.  If `==` is
coarser than `hash` -- two values equal but hashed differently -- they are merged only when their hashes happen to collide, which
with a per-process seeded hasher (indexmap's and std's default RandomState) differs from run to run: the output is no longer a
function of the input, and when the merge does happen one item silently replaces the other.  For every local type with a manual
`impl Hash` or manual `impl PartialEq`:
  A  every field that is hashed is also compared (otherwise equal values could hash differently is fine, but the converse -- a
     field compared and not hashed -- is legal; a field hashed and not compared breaks `a == b => hash(a) == hash(b)`);
  B  a field of an order-forgetting container type (IndexSet / IndexMap / HashSet / HashMap, whose own `==` ignores order) that the
     Hash impl feeds in iteration order must be compared order-sensitively (`.iter().eq(..)`, `.iter().zip(..).all(..)`), directly or
     inside the local newtype that wraps it."""
import re

from . import ast as A

UNORDERED_EQ = re.compile(r"^(indexmap::)?(IndexSet|IndexMap)<|^(hashbrown::|std::collections::)?(HashSet|HashMap)<|^Ustr(Set|Map)<")


def _impls(repo, ty, trait):
    return [i for i in repo.impls if i[1].split("<")[0] == ty and i[2] and re.sub(r"<.*", "", i[2]).split("::")[-1] == trait]


def _derives(struct_node, name):
    for a in struct_node.get("attrs") or []:
        if "derive" in a and re.search(rf"\b{name}\b", a):
            return True
    return name in (struct_node.get("derives") or [])


def field_types(repo, ty):
    st = repo.struct(ty)
    if not st:
        return None
    return {str(f["name"]): A.norm_ty(f["ty"]) for f in st["fields"]}


def eq_profile(repo, ty):
    """-> {field: 'ordered' | 'plain'} of fields compared by T's PartialEq, or None if it has none; 'derived' marker in key '*'"""
    st = repo.struct(ty)
    fts = field_types(repo, ty) or {}
    man = _impls(repo, ty, "PartialEq")
    if not man:
        if st is not None and _derives(st, "PartialEq"):
            return {f: "plain" for f in fts} | {"*": "derived"}
        return None
    fn = None
    for q, f in repo.fns.items():
        if f.name == "eq" and f.self_ty and f.self_ty.split("<")[0] == ty:
            fn = f
    if fn is None:
        return None
    # bindings of the destructurings `let Self { field: name, .. } = self / other`
    bind = {}
    for n in A.walk(fn.body):
        if n["k"] == "Local" and n["pat"]["k"] == "PStruct" and n.get("init") is not None:
            side = "".join(repo.text(fn.file, n["init"]).split())
            for pf in n["pat"]["fields"]:
                for name, _ in A.pat_bindings(pf["pat"]):
                    bind[name] = (str(pf["name"]), side)
    prof = {}

    def field_of(e):
        while e["k"] in ("Ref", "Unary", "Paren"):
            e = e["expr"]
        if e["k"] == "Path" and e["path"] in bind:
            return bind[e["path"]][0]
        if e["k"] == "Field":
            b = e["base"]
            while b["k"] in ("Ref", "Unary", "Paren"):
                b = b["expr"]
            if b["k"] == "Path" and b["path"] in ("self", "other"):
                return str(e["member"])
        return None

    for n in A.walk(fn.body):
        if n["k"] == "Binary" and n["op"] in ("==", "!="):
            f = field_of(n["left"])
            if f is not None and f == field_of(n["right"]):
                prof.setdefault(f, "plain")
        if n["k"] == "MethodCall" and n["method"] in ("eq", "zip", "cmp", "ne"):
            # <field>.iter().eq(<field>.iter()) / .zip(..): ordered comparison of the field's elements
            r = n["recv"]
            while r["k"] == "MethodCall" and r["method"] in ("iter", "into_iter", "values", "keys", "as_slice", "len"):
                r = r["recv"]
            f = field_of(r)
            if f is not None and n["args"]:
                a = n["args"][0]
                while a["k"] == "MethodCall" and a["method"] in ("iter", "into_iter", "values", "keys", "as_slice", "len"):
                    a = a["recv"]
                if field_of(a) == f:
                    prof[f] = "ordered"
    prof["*"] = "manual"
    return prof


def hash_profile(repo, ty):
    """-> {field: 'ordered'} of fields fed to the hasher by a manual Hash impl; None if Hash is derived / absent"""
    if not _impls(repo, ty, "Hash"):
        return None
    fn = None
    for q, f in repo.fns.items():
        if f.name == "hash" and f.self_ty and f.self_ty.split("<")[0] == ty:
            fn = f
    if fn is None:
        return None
    prof = {}
    for n in A.walk(fn.body):
        if n["k"] == "Field":
            b = n["base"]
            while b["k"] in ("Ref", "Unary", "Paren"):
                b = b["expr"]
            if b["k"] == "Path" and b["path"] == "self":
                prof[str(n["member"])] = "ordered"
    return prof


def order_forgetting(repo, t, depth=0):
    """does `==` on type t ignore the order of something its (manual) Hash would walk in order?"""
    t = A.norm_ty(t) or ""
    t = re.sub(r"^&\s*(mut\s+)?", "", t)
    if UNORDERED_EQ.search(t):
        return True
    head = t.split("<")[0].split("::")[-1]
    if depth < 3 and repo.struct(head):
        ep = eq_profile(repo, head)
        fts = field_types(repo, head) or {}
        if ep is None:
            return False
        for f, how in ep.items():
            if f == "*":
                continue
            if how == "plain" and f in fts and order_forgetting(repo, fts[f], depth + 1):
                return True
    return False


def hasheq_rule(repo, res, rule="HASHEQ"):
    n = 0
    types = set()
    for mod, sty, tr, node, rel in repo.impls:
        if tr and re.sub(r"<.*", "", tr).split("::")[-1] in ("Hash", "PartialEq"):
            types.add(sty.split("<")[0])
    for ty in sorted(types):
        hp = hash_profile(repo, ty)
        ep = eq_profile(repo, ty)
        fts = field_types(repo, ty) or {}
        if hp is None or ep is None:
            continue
        n += 1
        only_hashed = sorted(f for f in hp if f not in ep)
        res.check(not only_hashed, rule, f"{rule}:{ty}:hashed-fields-are-compared", f"hashed {sorted(hp)}; compared {sorted(f for f in ep if f != '*')} ({ep.get('*')} PartialEq)" + ("" if not only_hashed else f": {only_hashed} hashed but not compared"), "")
        for f in sorted(hp):
            if f in fts and f in ep and order_forgetting(repo, fts[f]) and ep[f] != "ordered":
                res.bad(rule, f"{rule}:{ty}.{f}:order", f"`{f}: {fts[f]}` is hashed in iteration order but compared with an `==` that ignores order: values that differ only in order are equal with different hashes, so whether interning merges them depends on the (per-process seeded) hash -- and when it does, one silently replaces the other", "")
            elif f in fts and f in ep:
                res.ok(rule, f"{rule}:{ty}.{f}:order", f"`{f}: {fts[f]}` hashed in order, compared {'order-sensitively' if ep[f] == 'ordered' else 'by a type whose == is order-sensitive'}", "")
    # C  enums: a derived Hash feeds every field of every variant; a hand-written `eq` on such an enum must look at every field of
    #    every variant it takes apart (a field left to `..` / `_` is hashed and not compared)
    for mod, sty, tr, node, rel in repo.impls:
        ty = sty.split("<")[0]
        en = repo.enum(ty)
        if en is None or not tr or re.sub(r"<.*", "", tr).split("::")[-1] != "PartialEq":
            continue
        if "Hash" not in (en.get("derives") or []) and not _impls(repo, ty, "Hash"):
            continue
        if _impls(repo, ty, "Hash"):
            res.undecided(rule, f"{rule}:{ty}:enum-manual-both", "hand-written Hash and PartialEq on an enum: agreement not decided")
            continue
        fn = next((f for f in repo.fns.values() if f.name == "eq" and f.self_ty and f.self_ty.split("<")[0] == ty), None)
        if fn is None:
            res.undecided(rule, f"{rule}:{ty}:enum-eq", "hand-written PartialEq without an `eq` body")
            continue
        n += 1
        seen = {}
        for x in A.walk(fn.body):
            for pat in ([x["pat"]] if isinstance(x.get("pat"), dict) else []):
                for y in A.walk(pat):
                    if y.get("k") in ("PStruct", "PTupleStruct") and str(y.get("path", "")).split("::")[0] in (ty, "Self") and "::" in str(y.get("path", "")):
                        v = y["path"].split("::")[-1]
                        if y["k"] == "PStruct":
                            bound = {str(pf["name"]) for pf in y["fields"] if A.pat_bindings(pf["pat"])}
                        else:
                            bound = {str(i) for i, e in enumerate(y.get("elems", [])) if A.pat_bindings(e)}
                        seen.setdefault(v, set()).update(bound)
        for v in en.get("variants", []):
            fields = [str(f.get("name") if f.get("name") is not None else i) for i, f in enumerate(v.get("fields", []))]
            if not fields:
                continue
            if v["name"] not in seen:
                res.undecided(rule, f"{rule}:{ty}::{v['name']}:compared", f"`eq` does not take {ty}::{v['name']} apart by a pattern: which of its fields {fields} it compares is not decided (Hash is derived and feeds all of them)", fn.loc())
                continue
            missing = [f for f in fields if f not in seen[v["name"]]]
            res.check(not missing, rule, f"{rule}:{ty}::{v['name']}:hashed-fields-are-compared", f"derived Hash feeds {fields}; the hand-written eq binds {sorted(seen[v['name']])}" + ("" if not missing else f": {missing} hashed and not compared -- two values that differ only there are equal with different hashes, so an interning set merges them only when their hashes collide (per-process hasher keys: differs from run to run)"), fn.loc())
    res.floor(rule, n, 3)
    return n
