"""SKIPS -- exemptions inside validators are enumerated (engine S).

A validator is a non-test function that constructs a semantic `Error::*` value (or is one of the recursive helpers of such a
function, listed by the caller).  Inside a validator, every construct that lets an element escape the check is an *exemption*:
`continue`, `break`, an early `return Ok(..)`, a `let .. else { continue / return Ok }`, and iterator adaptors that drop elements
(`filter`, `take_while`, `skip_while`, `skip`, `take`, `step_by`, and `filter_map`/`find` closures).  Each exemption is keyed by the
validator and a *structural* rendering of its condition (locals replaced by what they were computed from, parameters by position),
so renaming does not change the key while weakening, widening or adding a condition does.  tables/skips.toml lists the exemptions
confirmed by reading, one reason each; an exemption that is not listed is reported."""
import re

from . import ast as A
from . import prov as P

EXTRA_VALIDATORS = ["check::get_not_depended_on_nonterminals", "check::get_nonterminals_resolution_order", "check::check_subword_spaces", "regex::Regex::check_subwords",
                    "regex::Regex::check_ambiguities", "dfa::DFA::check_ambiguity_best_effort", "check::get_nonterm_refs", "regex::Regex::check_ambiguous_inputs_tail_only_subword"]
DROPPERS = {"filter", "take_while", "skip_while", "skip", "take", "step_by", "retain", "dedup_by_key", "dedup"}


def norm(p_text):
    t = re.sub(r"param#(\d+)\(\w+\)", r"param#\1", p_text)
    t = re.sub(r"@L\d+", "", t)
    return t


def cond_key(repo, fn, envs, cond):
    """structural text of a condition expression"""
    if cond is None:
        return "always"
    if cond["k"] == "Let":
        pat = "".join(repo.text(fn.file, cond["pat"]).split())
        return f"let {pat} = " + norm(A.show(A.resolve(cond["expr"], envs.get(id(cond)) or envs.get(id(cond["expr"])))))
    if cond["k"] == "Binary" and cond["op"] in ("&&", "||"):
        return "(" + cond_key(repo, fn, envs, cond["left"]) + f" {cond['op']} " + cond_key(repo, fn, envs, cond["right"]) + ")"
    if cond["k"] == "Unary" and cond["op"] == "!":
        return "!" + cond_key(repo, fn, envs, cond["expr"])
    if cond["k"] == "Binary":
        l = norm(A.show(A.resolve(cond["left"], envs.get(id(cond["left"])) or envs.get(id(cond)))))
        r = norm(A.show(A.resolve(cond["right"], envs.get(id(cond["right"])) or envs.get(id(cond)))))
        return f"({l} {cond['op']} {r})"
    return norm(A.show(A.resolve(cond, envs.get(id(cond)))))


def closure_key(repo, fn, envs, clo):
    body = clo["body"]
    while body["k"] == "Block" and len(body["stmts"]) == 1 and body["stmts"][0]["k"] == "ExprStmt":
        body = body["stmts"][0]["expr"]
    return cond_key(repo, fn, envs, body)


def local_tags(repo, fn):
    """mutable accumulators (`let mut visited: UstrSet = Default::default()`) stay names in provenance terms; key them by their
    declared type (or initialiser) instead, so that renaming a local does not change an exemption's key"""
    tags = {}
    for n in A.walk(fn.body):
        if n["k"] == "Local":
            pat = n["pat"]
            ty = None
            if pat["k"] == "PType":
                ty = A.norm_ty(pat["ty"])
                pat = pat["pat"]
            if pat["k"] == "PIdent":
                if ty is None and n.get("init") is not None:
                    ty = "".join(repo.text(fn.file, n["init"]).split())[:40]
                tags.setdefault(pat["name"], "<" + (ty or "?") + ">")
    return tags


def exemptions(repo, fn):
    """[(kind, key text, line)]"""
    out = []
    tags = local_tags(repo, fn)
    for kind, key, line in _exemptions(repo, fn):
        for name, tag in tags.items():
            key = re.sub(rf"(?<![\w.#<]){re.escape(name)}(?![\w(<])", tag, key)
        out.append((kind, key, line))
    return out


def _exemptions(repo, fn):
    descend_names = {q.split("::")[-1] for q in validators(repo, extra=EXTRA_VALIDATORS)} - {"from_grammar", "parse", "from_str"}
    envs = A.collect_envs(fn)
    pm = A.parent_map(fn.body)
    out = []

    def letelse_of(node):
        """the `let PAT = EXPR else { .. }` whose else-block holds this node, if any"""
        cur = node
        while id(cur) in pm:
            par, key = pm[id(cur)]
            if par["k"] == "Local" and key == "else":
                pat = "".join(repo.text(fn.file, par["pat"]).split())
                init = norm(A.show(A.resolve(par.get("init"), envs.get(id(par.get("init"))) or envs.get(id(par))))) if par.get("init") is not None else "?"
                return f"unless let {pat[:60]} = {init}"
            if par["k"] in ("ForLoop", "While", "Loop", "Closure", "Fn"):
                return None
            cur = par
        return None

    def guard_chain(node):
        gs = []
        le = letelse_of(node)
        if le:
            gs.append(le)
        for g, role in A.guards_of(node, pm):
            if g["k"] == "If":
                c = cond_key(repo, fn, envs, g["cond"])
                gs.append(c if role == "then" else f"!({c})")
            elif g["k"] == "Arm":
                gs.append("arm " + "".join(repo.text(fn.file, g["pat"]).split())[:80])
            elif g["k"] in ("ForLoop", "While", "Loop", "Closure"):
                break
        return " & ".join(gs) if gs else "always"

    for n in A.walk(fn.body):
        k = n["k"]
        if k in ("Continue", "Break"):
            # let-else / if guard
            par = pm.get(id(n))
            out.append((k.lower(), guard_chain(n), n["l"]))
        elif k == "Return":
            e = n.get("expr")
            txt = "".join(repo.text(fn.file, e).split()) if e is not None else ""
            if e is None or txt.startswith("Ok(") or txt in ("()", "true", "false", "None"):
                out.append(("return-ok", guard_chain(n) + (" => " + txt[:40] if txt else ""), n["l"]))
        elif k == "MethodCall" and n["method"] in DROPPERS:
            clo = [a for a in n["args"] if a["k"] == "Closure"]
            if clo:
                out.append((n["method"], closure_key(repo, fn, envs, clo[0]), n["l"]))
            else:
                out.append((n["method"], "(" + ", ".join(norm(A.show(A.resolve(a, envs.get(id(n))))) for a in n["args"]) + ")", n["l"]))
        elif k in ("Call", "Struct") :
            path = (n["func"].get("path", "") if k == "Call" and n["func"]["k"] == "Path" else (n.get("path", "") if k == "Struct" else ""))
            if path.startswith("Error::"):
                # the detection predicate: under which condition this mistake is reported
                out.append(("detect:" + path.split("::")[-1], guard_chain(n), n["l"]))
            elif k == "Call" and path.split("::")[-1] in descend_names and path.split("::")[-1] != "":
                out.append(("descend:" + path.split("::")[-1], guard_chain(n), n["l"]))
        elif k == "Path" and n["path"].startswith("Error::") and not (id(n) in pm and pm[id(n)][1] == "func"):
            out.append(("detect:" + n["path"].split("::")[-1], guard_chain(n), n["l"]))
        elif k == "MethodCall" and n["method"] in descend_names:
            out.append(("descend:" + n["method"], guard_chain(n), n["l"]))
    return out


_EXTRA_MOVED = ["check::get_not_depended_on_nonterminals", "check::get_nonterminals_resolution_order", "check::check_subword_spaces", "regex::Regex::check_subwords",
                    "regex::Regex::check_ambiguities", "dfa::DFA::check_ambiguity_best_effort", "check::get_nonterm_refs"]


def skips_rule(repo, res, table, only=None, rule="SKIPS"):
    """table: list of {fn, kind, key, why}.  Reports every exemption of a validator that is not listed; a listed exemption that is
    no longer found is only noted (removing an exemption makes the validator stricter, which no property here forbids)."""
    vs = validators(repo, extra=EXTRA_VALIDATORS)
    allowed = {}
    for r in table:
        allowed.setdefault((r["fn"], r["kind"], r["key"]), r)
    n = 0
    seen = set()
    for q, f in sorted(vs.items()):
        if only is not None and q not in only:
            continue
        for kind, key, line in exemptions(repo, f):
            n += 1
            k = (q, kind, key)
            seen.add(k)
            row = allowed.get(k)
            res.check(row is not None, rule, f"{rule}:{q}:{kind}:{key[:120]}", (f"listed exemption: {row['why']}" if row else f"`{kind}` under `{key[:160]}` is not among the exemptions confirmed for this validator: elements it lets through are no longer checked (a mistake there is accepted, or a guard that keeps a later pass safe is skipped)"), f"{f.file}:{line}")
    for k, r in allowed.items():
        if (only is None or k[0] in only) and k not in seen:
            res.advisory(f"SKIPS: listed exemption no longer present in {k[0]}: {k[1]} {k[2][:80]}")
    return n


def validators(repo, extra=()):
    vs = {}
    for q, f in repo.fns.items():
        if q.startswith("main::") or "Display" in q or "::fmt" in q:
            continue
        sites = [n for n in A.walk(f.body) if (n["k"] in ("Call", "Struct", "Path")) and ((n.get("func", {}) or {}).get("path", "") if n["k"] == "Call" else n.get("path", "")).startswith("Error::")]
        if sites:
            vs[q] = f
    for q in extra:
        if q in repo.fns:
            vs[q] = repo.fns[q]
    return vs
