"""SKIPS -- exemptions inside validators are enumerated (engine S).

A validator is a non-test function that constructs a semantic `Error::*` value (or is one of the recursive helpers of such a
function, listed by the caller).  Inside a validator, every construct that lets an element escape the check is an *exemption*:
`continue`, `break`, an early `return Ok(..)`, a `let .. else { continue / return Ok }`, and iterator adaptors that drop elements
(`filter`, `take_while`, `skip_while`, `skip`, `take`, `step_by`, and `filter_map`/`find` closures).  Each exemption is keyed by the
validator and a *structural* rendering of its condition (locals replaced by what they were computed from, parameters by position),
so renaming does not change the key while weakening, widening or adding a condition does.  tables/skips.toml lists the exemptions
confirmed by reading, one reason each; an exemption that is not listed is reported."""
import re

from . import ast as A
from . import prov as P

EXTRA_VALIDATORS = ["check::get_not_depended_on_nonterminals", "check::get_nonterminals_resolution_order", "check::check_subword_spaces", "regex::Regex::check_subwords",
                    "regex::Regex::check_ambiguities", "dfa::DFA::check_ambiguity_best_effort", "check::get_nonterm_refs", "regex::Regex::check_ambiguous_inputs_tail_only_subword"]
# algorithmic cores: not validators, but every element they skip changes the result (a splitter symbol not processed, a state not
# completed, a position left out of a follow set ...); their exemptions are enumerated in the same table
CORES = ["dfa::do_minimize", "dfa::find_bounds", "dfa::keep_only_states_with_input_transitions", "dfa::eliminate_nonaccepting_states_without_output_transitions",
         "dfa::renumber_states", "dfa::DFA::make_transitions_image", "dfa::hashmap_transitions_from_vec", "dfa::dfa_from_regex",
         "regex::do_firstpos", "regex::do_lastpos", "regex::do_followpos", "regex::RegexNode::nullable"]
# table printers of the four emitters: a row, a level or a declaration they skip is a table the script's reader still consults
# (in bash, through dynamic scoping, it then finds the CALLER's table of that name)
PRINTER_MODULES = ("bash", "fish", "zsh", "pwsh")
EXTRA_VALIDATORS = EXTRA_VALIDATORS + CORES
DROPPERS = {"filter", "take_while", "skip_while", "skip", "take", "step_by", "retain", "dedup_by_key", "dedup"}


def norm(p_text):
    t = re.sub(r"param#(\d+)\(\w+\)", r"param#\1", p_text)
    t = re.sub(r"@L\d+", "", t)
    return t


def _proj(proj):
    out = ""
    for st in proj:
        if st[0] == "tuple":
            out += f".{st[1]}"
        elif st[0] == "variant":
            out += f"::{st[1].split('::')[-1]}.{st[2]}"
        elif st[0] == "slice":
            out += f"[{st[1]}]"
    return out


def _head(e):
    while e is not None and e["k"] in ("Ref", "Unary", "Try", "Cast"):
        e = e["expr"]
    if e is None:
        return "?"
    if e["k"] == "Call" and e["func"]["k"] == "Path":
        return e["func"]["path"].split("::")[-1]
    if e["k"] == "MethodCall":
        return e["method"]
    if e["k"] == "Macro":
        return e["name"] + "!"
    if e["k"] == "Struct":
        return e["path"]
    if e["k"] == "Block":
        last = None
        for st in e["stmts"]:
            last = st["expr"] if st["k"] == "ExprStmt" and not st["semi"] else None
        return _head(last) if last is not None else "block"
    if e["k"] == "Path":
        return e["path"].split("::")[-1] if "::" in e["path"] else "local"
    return e["k"].lower()


_VPRED = {}
_REPO = [None]


def variant_predicates(repo):
    """methods `fn p(&self) -> bool { match self { Self::A | Self::B => true, .. => false } }` (or `matches!(self, ..)`):
    name -> `Enum::A|B`, when the name is unique in the crate.  `x.p()` then reads like the pattern test it is."""
    if id(repo) in _VPRED:
        return _VPRED[id(repo)]
    found = {}
    for q, f in repo.fns.items():
        if not f.self_ty or not f.params or f.params[0].get("name") != "self" or len(f.params) != 1:
            continue
        b = f.body
        while b["k"] == "Block" and len(b["stmts"]) == 1 and b["stmts"][0]["k"] == "ExprStmt" and not b["stmts"][0].get("semi"):
            b = b["stmts"][0]["expr"]
        yes = None
        if b["k"] == "Match" and b["scrut"]["k"] == "Path" and b["scrut"]["path"] == "self":
            yes = []
            for arm in b["arms"]:
                body = arm["body"]
                if body["k"] != "Lit" or body.get("lit") != "bool" or arm.get("guard") is not None:
                    yes = None
                    break
                if body["v"] is True:
                    vs = A.pat_variants(arm["pat"])
                    if not vs:
                        yes = None
                        break
                    yes += [v[0].split("::")[-1] for v in vs]
        if yes:
            found.setdefault(f.name, []).append(f"{f.self_ty}::{'|'.join(sorted(yes))}")
    out = {k: v[0] for k, v in found.items() if len(v) == 1}
    _VPRED[id(repo)] = out
    return out


def _match_filter(clo, fn):
    """`|x| match <scrut> { P1 => Some(..), P2 | P3 => None }` -> (scrut expr, 'Enum::V1|V2' of the arms kept), or None"""
    body = clo["body"]
    while body["k"] == "Block" and len(body["stmts"]) == 1 and body["stmts"][0]["k"] == "ExprStmt" and not body["stmts"][0].get("semi"):
        body = body["stmts"][0]["expr"]
    if body["k"] == "If" and body["cond"].get("k") == "Let" and body.get("else") is not None:
        # `if let P = scrut { Some(..) } else { None }`
        def _val(b):
            while b["k"] == "Block" and len(b["stmts"]) == 1 and b["stmts"][0]["k"] == "ExprStmt" and not b["stmts"][0].get("semi"):
                b = b["stmts"][0]["expr"]
            return b
        t, e = _val(body["then"]), _val(body["else"])
        if t["k"] == "Call" and t["func"]["k"] == "Path" and t["func"]["path"] == "Some" and e["k"] == "Path" and e["path"] == "None":
            vs = A.pat_variants(body["cond"]["pat"])
            if vs:
                segs = vs[0][0].split("::")
                en = segs[-2] if len(segs) > 1 else "?"
                if en == "Self":
                    en = fn.self_ty or "Self"
                return body["cond"]["expr"], f"{en}::{'|'.join(sorted(v[0].split('::')[-1] for v in vs))}"
        return None
    if body["k"] != "Match":
        return None
    kept, enum = [], None
    for arm in body["arms"]:
        b = arm["body"]
        while b["k"] == "Block" and len(b["stmts"]) == 1 and b["stmts"][0]["k"] == "ExprStmt" and not b["stmts"][0].get("semi"):
            b = b["stmts"][0]["expr"]
        some = b["k"] == "Call" and b["func"]["k"] == "Path" and b["func"]["path"] == "Some"
        none = b["k"] == "Path" and b["path"] == "None"
        if not (some or none) or arm.get("guard") is not None:
            return None
        if some:
            vs = A.pat_variants(arm["pat"])
            if not vs:
                return None  # a wildcard arm keeps elements: not a variant filter
            for v, _ in vs:
                segs = v.split("::")
                en = segs[-2] if len(segs) > 1 else "?"
                if en == "Self":
                    en = fn.self_ty or "Self"
                enum = enum or en
                kept.append(segs[-1])
    if not kept:
        return None
    return body["scrut"], f"{enum}::{'|'.join(sorted(kept))}"


def render(e, env, budget=3):
    """Name-free, bounded rendering of an expression: parameters by position, typed locals by their declared type, other locals
    by (a bounded rendering of) what they were computed from, loop variables / closure parameters as elem[<iterable>]."""
    if e is None:
        return "-"
    k = e["k"]
    if k == "Path":
        name = e["path"]
        if "::" in name:
            return name
        df = env.get(name) if env else None
        if df is None:
            return name
        return render_def(df, budget)
    if k in ("Ref", "Paren"):
        return render(e["expr"], env, budget)
    if k == "Block":
        # value of a block: its tail expression, in the scope of the block's own `let`s (an inlined closure call is such a block)
        benv, last = env, None
        for st in e["stmts"]:
            if st["k"] == "Local":
                benv = A.bind_pattern(benv, st["pat"], st.get("init"), benv, "let", st) if benv is not None else benv
                last = None
            elif st["k"] == "ExprStmt":
                last = st if not st.get("semi") else None
        if last is not None:
            return render(last["expr"], benv, budget)
    if k == "Unary":
        return render(e["expr"], env, budget) if e["op"] == "*" else e["op"] + render(e["expr"], env, budget)
    if k == "MethodCall":
        if e["method"] in A.TRANSPARENT_METHODS and not e["args"]:
            return render(e["recv"], env, budget)
        if e["method"] in ("filter", "skip_while", "take_while", "inspect", "peekable", "by_ref") and all(a["k"] == "Closure" for a in e["args"]):
            return render(e["recv"], env, budget)
        if e["method"] == "insert" and len(e["args"]) == 1:
            # the truth value of `set.insert(x)`: x was not in the set (see cond_key)
            return "!" + render(e["recv"], env, budget) + ".contains(" + render(e["args"][0], env, budget) + ")"
        if not e["args"] and _REPO[0] is not None and e["method"] in variant_predicates(_REPO[0]):
            return f"is<{variant_predicates(_REPO[0])[e['method']]}>({render(e['recv'], env, budget)})"
        args = ", ".join("<closure>" if a["k"] == "Closure" else render(a, env, budget) for a in e["args"])
        return f"{render(e['recv'], env, budget)}.{e['method']}({args})"
    if k == "Call":
        inl = _inline_closure(e, env)
        if inl is not None and budget > 0:
            return render(inl[0], inl[1], budget - 1)
        f = e["func"]["path"].split("::")[-1] if e["func"]["k"] == "Path" else "?"
        return f + "(" + ", ".join(render(a, env, budget) for a in e["args"]) + ")"
    if k == "Lit":
        return repr(e["v"])
    if k == "Field":
        return render(e["base"], env, budget) + "." + str(e["member"])
    if k == "Index":
        return render(e["base"], env, budget) + "[" + render(e["index"], env, budget) + "]"
    if k == "Cast":
        return render(e["expr"], env, budget)
    if k == "Binary":
        return "(" + render(e["left"], env, budget) + " " + e["op"] + " " + render(e["right"], env, budget) + ")"
    if k in ("Tuple", "Array"):
        return "(" + ", ".join(render(x, env, budget) for x in e.get("elems") or []) + ")"
    if k == "Try":
        return render(e["expr"], env, budget) + "?"
    if k == "Macro":
        return e["name"] + "!"
    if k == "Range":
        return render(e.get("start"), env, budget) + ".." + render(e.get("end"), env, budget)
    return "<" + _head(e) + ">"


def _inline_closure(call, env):
    """`let keep = |x| p(x); .. keep(y)`: the body of a locally named closure with its parameters standing for the arguments, when
    the body is a single expression (a named sub-test reads like the test written in place)"""
    if call["func"]["k"] != "Path" or "::" in call["func"]["path"] or env is None:
        return None
    df = env.get(call["func"]["path"])
    if df is None or df.kind != "let" or df.proj or df.init is None or df.init.get("k") != "Closure":
        return None
    clo = df.init
    body = clo["body"]
    while body["k"] == "Block" and len(body["stmts"]) == 1 and body["stmts"][0]["k"] == "ExprStmt" and not body["stmts"][0].get("semi"):
        body = body["stmts"][0]["expr"]
    if body["k"] == "Block" or len(clo["params"]) != len(call["args"]):
        return None
    cenv = df.env
    for p, a in zip(clo["params"], call["args"]):
        for name, proj in A.pat_bindings(p):
            cenv = cenv.bind(name, A.Def("let", name, node=None, init=a, env=env, proj=proj))
    return body, cenv


def render_def(df, budget):
    pj = _proj(df.proj)
    if df.kind == "param":
        # by declared type, not by position or name: adding, reordering or renaming parameters does not change a condition
        ty = A.norm_ty((df.node or {}).get("ty") or "") or "?"
        ty = re.sub(r"^&\s*('\w+\s+)?(mut\s+)?", "", ty)
        head = re.sub(r"<.*", "", ty).split("::")[-1] or "?"
        if (df.node or {}).get("name") == "self":
            head = "self"
        ordn = _PARAM_ORD.get(id(df.node), "")
        return f"param<{head}{ordn}>{pj}"
    node = df.node
    if df.kind in ("let", "bind"):
        pat = (node or {}).get("pat") or {}
        if df.kind == "let" and pat.get("k") == "PType":
            return "<" + re.sub(r"<.*", "", A.norm_ty(pat["ty"])).split("::")[-1] + ">" + pj
        if df.init is None:
            return "<uninit>" + pj
        if budget <= 0:
            return "<" + _head(df.init) + ">" + pj
        inner = render(df.init, df.env, budget - 1)
        if df.kind == "let" and pat.get("k") == "PIdent" and pat.get("mut"):
            return "<mut:" + inner + ">" + pj
        return inner + pj
    if df.kind == "elem":
        if budget <= 0:
            return "elem[<" + _head(df.init) + ">]" + pj
        return "elem[" + render(df.init, df.env, budget - 1) + "]" + pj
    if df.kind == "closure":
        return f"closure-param#{df.extra}{pj}"
    return "?"


PAIRS = ((".is_some()", ".is_none()"), (".is_ok()", ".is_err()"))


def neg(t):
    """negation of a rendered condition, in a normal form (so that `if c { continue }` and `.filter(|x| !c)` give one key)"""
    t = t.strip()
    if t.startswith("!"):
        inner = t[1:].strip()
        return inner
    for a, b in PAIRS:
        if t.endswith(a):
            return t[: -len(a)] + b
        if t.endswith(b):
            return t[: -len(b)] + a
    m = re.fullmatch(r"\((.*) (==|!=) (.*)\)", t)
    if m and m.group(1).count("(") == m.group(1).count(")") and m.group(3).count("(") == m.group(3).count(")"):
        return f"({m.group(1)} {'!=' if m.group(2) == '==' else '=='} {m.group(3)})"
    return "!" + t


def nnf(t):
    t = t.strip()
    while t.startswith("!!"):
        t = t[2:]
    if t.startswith("!"):
        n = neg(t[1:])
        if not n.startswith("!"):
            return n
    return t


def cond_key(repo, fn, envs, cond, env=None):
    """structural text of a condition expression"""
    if cond is None:
        return "always"
    over = env
    env = env or envs.get(id(cond))
    if cond["k"] == "Paren":
        return cond_key(repo, fn, envs, cond["expr"], over)
    if cond["k"] == "Block" and cond["stmts"] and cond["stmts"][-1]["k"] == "ExprStmt" and not cond["stmts"][-1].get("semi"):
        return cond_key(repo, fn, envs, cond["stmts"][-1]["expr"], None if over is None else over)
    if cond["k"] == "Call":
        inl = _inline_closure(cond, env)
        if inl is not None:
            return cond_key(repo, fn, envs, inl[0], inl[1])
    if cond["k"] == "Let" and cond["pat"].get("k") == "PSlice" and all(x.get("k") in ("PIdent", "PWild") and not x.get("sub") for x in cond["pat"].get("elems", [])):
        # `if let [a, b] = v.as_slice()` (or `v[..]`) tests the length and nothing else
        e = cond["expr"]
        while e["k"] in ("Ref", "Paren") or (e["k"] == "MethodCall" and e["method"] in ("as_slice", "as_ref", "deref") and not e["args"]) or (e["k"] == "Index" and e["index"].get("k") == "Range" and e["index"].get("start") is None and e["index"].get("end") is None):
            e = e.get("expr") or e.get("recv") or e.get("base")
        n = len(cond["pat"]["elems"])
        return f"({render(e, env or envs.get(id(cond['expr'])))}.len() == '{n}')"
    if cond["k"] == "Let":
        pat = re.sub(r"\b[a-z_][a-z0-9_]*\b(?!::|\{|\()", "_", "".join(repo.text(fn.file, cond["pat"]).split()))
        return f"let {pat} = " + render(cond["expr"], env or envs.get(id(cond["expr"])))
    if cond["k"] == "Binary" and cond["op"] in ("&&", "||"):
        return "(" + cond_key(repo, fn, envs, cond["left"], over) + f" {cond['op']} " + cond_key(repo, fn, envs, cond["right"], over) + ")"
    if cond["k"] == "Unary" and cond["op"] == "!":
        return "!" + cond_key(repo, fn, envs, cond["expr"], over)
    if cond["k"] == "MethodCall" and cond["method"] == "insert" and len(cond["args"]) == 1:
        # `set.insert(x)` used as a test is true iff x was NOT in the set: `if !seen.insert(x) { continue }` is the
        # `if seen.contains(x) { continue } seen.insert(x)` pair in one call
        return "!" + render(cond["recv"], env) + ".contains(" + render(cond["args"][0], env) + ")"
    return render(cond, env)


def closure_key(repo, fn, envs, clo):
    body = clo["body"]
    while body["k"] == "Block" and len(body["stmts"]) == 1 and body["stmts"][0]["k"] == "ExprStmt":
        body = body["stmts"][0]["expr"]
    return cond_key(repo, fn, envs, body)


def local_tags(repo, fn):
    """mutable accumulators (`let mut visited: UstrSet = Default::default()`) stay names in provenance terms; key them by their
    declared type (or initialiser) instead, so that renaming a local does not change an exemption's key"""
    tags = {}
    for n in A.walk(fn.body):
        if n["k"] == "Local":
            pat = n["pat"]
            ty = None
            if pat["k"] == "PType":
                ty = A.norm_ty(pat["ty"])
                pat = pat["pat"]
            if pat["k"] == "PIdent":
                if ty is None and n.get("init") is not None:
                    ty = "".join(repo.text(fn.file, n["init"]).split())[:40]
                tags.setdefault(pat["name"], "<" + (ty or "?") + ">")
    return tags


def exemptions(repo, fn):
    """[(kind, key text, line)] -- `if c { continue }` at the top level of a loop and `.filter(|x| p)` on its iterable are the same
    exemption (skip the element when c / when not p): both become kind `skip` with the skip condition in normal form"""
    out = []
    for kind, key, line in _exemptions(repo, fn):
        if kind.startswith(("detect:", "descend:")):
            continue
        if kind == "filter":
            kind, key = "skip", nnf(neg(key))
        elif kind == "continue^0" and " & " not in key and not key.startswith("unless") and not key.startswith("arm "):
            kind, key = "skip", nnf(key)
        out.append((kind, key, line))
    return out


_PARAM_ORD = {}


def _index_params(fn):
    """ordinal of each parameter among the parameters of the same type head (only shown when there are several)"""
    heads = {}
    for p in fn.params:
        ty = A.norm_ty(p.get("ty") or "") or "?"
        ty = re.sub(r"^&\s*('\w+\s+)?(mut\s+)?", "", ty)
        h = re.sub(r"<.*", "", ty).split("::")[-1]
        heads.setdefault(h, []).append(p)
    for h, ps in heads.items():
        for i, p in enumerate(ps):
            _PARAM_ORD[id(p)] = f"#{i + 1}" if len(ps) > 1 else ""


def _exemptions(repo, fn):
    _REPO[0] = repo
    _index_params(fn)
    descend_names = {q.split("::")[-1] for q in validators(repo, extra=EXTRA_VALIDATORS)} - {"from_grammar", "parse", "from_str"}
    envs = A.collect_envs(fn)
    pm = A.parent_map(fn.body)
    out = []

    def letelse_of(node):
        """the `let PAT = EXPR else { .. }` whose else-block holds this node, if any"""
        cur = node
        while id(cur) in pm:
            par, key = pm[id(cur)]
            if par["k"] == "Local" and key == "else":
                pat = re.sub(r"\b[a-z_][a-z0-9_]*\b(?!::|\{|\()", "_", "".join(repo.text(fn.file, par["pat"]).split()))
                init = render(par.get("init"), envs.get(id(par.get("init"))) or envs.get(id(par))) if par.get("init") is not None else "?"
                return f"unless let {pat[:60]} = {init}"
            if par["k"] in ("ForLoop", "While", "Loop", "Closure", "Fn"):
                return None
            cur = par
        return None

    def guard_chain(node):
        gs = []
        le = letelse_of(node)
        if le:
            gs.append(le)
        for g, role in A.guards_of(node, pm):
            if g["k"] == "If":
                c = cond_key(repo, fn, envs, g["cond"])
                gs.append(c if role == "then" else f"!({c})")
            elif g["k"] == "Arm":
                gs.append("arm " + re.sub(r"\b[a-z_][a-z0-9_]*\b(?!::|\{|\()", "_", "".join(repo.text(fn.file, g["pat"]).split()))[:80])
            elif g["k"] in ("ForLoop", "While", "Loop", "Closure"):
                break
        return " & ".join(gs) if gs else "always"

    bool_params = {p["name"] for p in fn.params if p.get("name") and "".join(str(p.get("ty", "")).split()) == "bool"}

    def mode_only_return(ret):
        """`if [!]flag { return Ok(..) }` directly in a match arm, flag a bool parameter, with every descent of that arm (recursive call
        or call of another validator) standing before it: the rest of the arm runs in one mode only -- what an arm guard `if flag`
        would say, and an arm guard is no exemption either (no element is let through: all children were already visited)."""
        gs = A.guards_of(ret, pm)
        if len(gs) < 2 or gs[0][0]["k"] != "If" or gs[1][0]["k"] != "Arm":
            return False
        c = gs[0][0]["cond"]
        while c["k"] in ("Paren",) or (c["k"] == "Unary" and c.get("op") == "!"):
            c = c["expr"]
        if not (c["k"] == "Path" and c["path"] in bool_params):
            return False
        arm = gs[1][0]
        iff = gs[0][0]
        for x in A.walk(arm["body"]):
            nm = None
            if x["k"] == "Call" and x["func"]["k"] == "Path":
                nm = x["func"]["path"].split("::")[-1]
            elif x["k"] == "MethodCall":
                nm = x["method"]
            if nm is not None and (nm == fn.name or nm in descend_names) and not A.before(x, iff):
                return False
        return True

    def search_loop_break(br):
        """`for x in xs { if p(x) { found = true; break; } }`: `any` written as a loop -- the block holds nothing but the assignment
        of a boolean literal to a local and the break (the loop computes a truth value; no element escapes a check)"""
        par = pm.get(id(br))
        st = A.stmt_of(br, pm)
        blk = pm.get(id(st))[0] if st is not None and id(st) in pm else None
        if blk is None or blk.get("k") != "Block" or len(blk["stmts"]) != 2 or blk["stmts"][1] is not st:
            return False
        first = blk["stmts"][0]
        e = first.get("expr") if first.get("k") == "ExprStmt" else None
        if e is None or e.get("k") != "Assign" or e["left"].get("k") != "Path" or e["right"].get("k") != "Lit" or e["right"].get("lit") != "bool":
            return False
        up = pm.get(id(blk))
        return up is not None and up[0]["k"] == "If" and up[1] == "then"

    def empty_iteration_return(ret):
        """`let Some(xs) = map.get(k) else { return Ok(()) }; for x in xs { .. } Ok(())`: leaving when there is nothing to iterate
        over is the empty iteration (what `.unwrap_or(&empty)` spells) -- everything after the `let` is loops over what it bound and
        the final Ok"""
        cur = ret
        loc = None
        while id(cur) in pm:
            par, key = pm[id(cur)]
            if par["k"] == "Local" and key == "else":
                loc = par
                break
            if par["k"] in ("ForLoop", "While", "Loop", "Closure", "Fn"):
                return False
            cur = par
        if loc is None or id(loc) not in pm:
            return False
        blk = pm[id(loc)][0]
        if blk.get("k") != "Block" or blk is not fn.body:
            return False
        names = [nm for nm, _ in A.pat_bindings(loc["pat"])]
        idx = next((i for i, s_ in enumerate(blk["stmts"]) if s_ is loc), None)
        rest = blk["stmts"][idx + 1:] if idx is not None else None
        if not rest or len(names) != 1:
            return False
        for s_ in rest:
            e_ = s_.get("expr") if s_["k"] == "ExprStmt" else None
            if e_ is None:
                return False
            if e_["k"] == "ForLoop":
                it = e_["iter"]
                while it["k"] in ("Ref", "Unary", "Paren") or (it["k"] == "MethodCall" and it["method"] in ("iter", "into_iter") and not it["args"]):
                    it = it["expr"] if it["k"] != "MethodCall" else it["recv"]
                if not (it["k"] == "Path" and it["path"] == names[0]):
                    return False
            elif e_["k"] == "Call" and e_["func"]["k"] == "Path" and e_["func"]["path"] == "Ok" and s_ is rest[-1]:
                pass
            else:
                return False
        return True

    consumed = set()
    ret_bool = "".join((fn.node.get("ret") or "").split()) == "bool"

    def spelled_out_quantifier(ret):
        """`for x in xs { if p(x) { return true } } false` (or the dual with false / true) in a function returning bool: `any` / `all`
        written as a loop, the function's VALUE and not an exemption (nothing is skipped: the answer is known)"""
        if not ret_bool:
            return False
        gs = A.guards_of(ret, pm)
        return len(gs) >= 2 and gs[0][0]["k"] == "If" and gs[1][0]["k"] == "ForLoop"

    for n in A.walk(fn.body):
        k = n["k"]
        if k in ("Continue", "Break"):
            # which loop it targets: ^0 = innermost enclosing loop, ^1 = the next one out, ... (labels resolved)
            loops = []
            cur = n
            while id(cur) in pm:
                cur = pm[id(cur)][0]
                if cur["k"] in ("ForLoop", "While", "Loop"):
                    loops.append(cur)
                if cur["k"] == "Closure":
                    break
            depth = 0
            if n.get("label"):
                depth = next((i for i, l in enumerate(loops) if l.get("label") == n["label"]), -1)
            if k == "Break" and depth == 0 and search_loop_break(n):
                continue
            out.append((f"{k.lower()}^{depth}", guard_chain(n), n["l"]))
        elif k == "Return":
            e = n.get("expr")
            txt = "".join(repo.text(fn.file, e).split()) if e is not None else ""
            if (e is None or txt.startswith("Ok(")) and mode_only_return(n):
                continue
            if txt in ("true", "false") and spelled_out_quantifier(n):
                continue
            if (e is None or txt.startswith("Ok(")) and empty_iteration_return(n):
                continue
            if e is None or txt.startswith("Ok(") or txt in ("()", "true", "false", "None"):
                out.append(("return-ok", guard_chain(n) + (" => " + txt[:40] if txt else ""), n["l"]))
        elif k == "MethodCall" and n["method"] == "filter_map" and n["args"] and n["args"][0]["k"] == "Closure" and _match_filter(n["args"][0], fn):
            scrut, keep = _match_filter(n["args"][0], fn)
            b_ = n["args"][0]["body"]
            while b_["k"] == "Block" and len(b_["stmts"]) == 1 and b_["stmts"][0]["k"] == "ExprStmt":
                b_ = b_["stmts"][0]["expr"]
            consumed.add(id(b_))  # the `if let` that IS this variant filter is not a second exemption
            out.append(("filter", f"is<{keep}>({render(scrut, envs.get(id(scrut)))})", n["l"]))
        elif k == "MethodCall" and n["method"] == "find_map" and n["args"] and n["args"][0]["k"] == "Closure":
            # `xs.find_map(|x| if <test> { Some(..) } else { None })` SEARCHES for the first element that passes the test (the offending
            # one, in a validator): the `if` inside is the detection predicate, not an exemption
            b_ = n["args"][0]["body"]
            while b_["k"] == "Block" and b_["stmts"] and b_["stmts"][-1]["k"] == "ExprStmt" and not b_["stmts"][-1].get("semi"):
                b_ = b_["stmts"][-1]["expr"]
            if b_["k"] == "If":
                consumed.add(id(b_))
        elif k == "MethodCall" and n["method"] == "skip" and id(n) in pm and pm[id(n)][0].get("k") == "MethodCall" and pm[id(n)][0]["method"] == "zip" \
                and pm[id(n)][1] == "args" and len(n["args"]) == 1 and n["args"][0].get("k") == "Lit" and str(n["args"][0].get("v", n["args"][0].get("value", ""))).strip() == "1" \
                and render(pm[id(n)][0]["recv"], envs.get(id(n))) == render(n["recv"], envs.get(id(n))):
            pass  # `xs.zip(xs.skip(1))`: every adjacent pair of one sequence (what `windows(2)` gives) -- the shift drops no pair
        elif k == "MethodCall" and n["method"] in DROPPERS:
            clo = [a for a in n["args"] if a["k"] == "Closure"]
            if clo:
                out.append((n["method"], closure_key(repo, fn, envs, clo[0]), n["l"]))
            else:
                out.append((n["method"], "(" + ", ".join(render(a, envs.get(id(n))) for a in n["args"]) + ")", n["l"]))
        elif k in ("If", "While") and id(n) in consumed:
            pass
        elif k == "While" and n["cond"].get("k") == "Let" and n["cond"]["expr"].get("k") == "MethodCall" and n["cond"]["expr"]["method"] in ("pop", "pop_front", "pop_back") and not n["cond"]["expr"]["args"]:
            pass  # `while let Some(x) = pending.pop()`: the driver loop of a worklist traversal (runs until nothing is pending)
        elif k in ("If", "While") and not (k == "If" and A.diverges(n["then"])):
            # a positive guard: the effect below happens only under this condition (strengthening it skips elements silently)
            if k == "If" and id(n) in pm and pm[id(n)][0]["k"] == "If" and pm[id(n)][1] == "else":
                pass  # else-if chains are keyed by their own condition as well
            out.append(("guard" if k == "If" else "while", cond_key(repo, fn, envs, n["cond"]), n["l"]))
        elif k in ("Call", "Struct") :
            path = (n["func"].get("path", "") if k == "Call" and n["func"]["k"] == "Path" else (n.get("path", "") if k == "Struct" else ""))
            if path.startswith("Error::"):
                # the detection predicate: under which condition this mistake is reported
                out.append(("detect:" + path.split("::")[-1], guard_chain(n), n["l"]))
            elif k == "Call" and path.split("::")[-1] in descend_names and path.split("::")[-1] != "":
                out.append(("descend:" + path.split("::")[-1], guard_chain(n), n["l"]))
        elif k == "Path" and n["path"].startswith("Error::") and not (id(n) in pm and pm[id(n)][1] == "func"):
            out.append(("detect:" + n["path"].split("::")[-1], guard_chain(n), n["l"]))
        elif k == "MethodCall" and n["method"] in descend_names:
            out.append(("descend:" + n["method"], guard_chain(n), n["l"]))
    return out


# ---- atoms: what an exemption tests, independent of how the test is written ----------------------------------------------------
ADAPTORS = {"iter", "iter_mut", "into_iter", "enumerate", "map", "filter_map", "flat_map", "cloned", "copied", "keys", "values", "collect", "unwrap", "expect",
            "windows", "rev", "peekable", "by_ref", "as_ref", "as_str", "borrow", "deref", "to_vec", "as_slice", "ok", "chain", "zip", "from_iter", "into", "to_string",
            "unwrap_or", "unwrap_or_default", "get", "entry", "or_default", "first", "last", "cmp", "partial_cmp", "then", "then_some", "is_some_and", "map_or", "any", "all",
            "new", "default", "next", "lookup", "ids", "binary_search", "binary_search_by", "binary_search_by_key"}
CLASS = {"contains_key": "contains", "is_none": "opt", "is_some": "opt", "is_ok": "res", "is_err": "res",
         "is_empty": "size", "len": "size"}
_TOK = re.compile(r"param<[^>]*>(?:\.[a-z_][a-z0-9_]*(?![\w(]))*|<[A-Z]\w*>(?:\.[a-z_][a-z0-9_]*(?![\w(]))*|::[A-Z]\w*\.\w+|\b[A-Z]\w*(?:::[A-Z]\w*)+|\b[A-Z]\w*(?=[({])|'[^']*'|\bTrue\b|\bFalse\b|\.[a-z_]\w*\(|\b[a-z_]\w*\(")


def _strip(t):
    t = t.strip()
    while True:
        if t.startswith("!"):
            t = t[1:].strip()
            continue
        if t.startswith("(") and t.endswith(")"):
            d = 0
            whole = True
            for i, ch in enumerate(t):
                d += ch == "("
                d -= ch == ")"
                if d == 0 and i < len(t) - 1:
                    whole = False
                    break
            if whole:
                t = t[1:-1].strip()
                continue
        return t


def _split_top(t, seps):
    parts, d, i, last = [], 0, 0, 0
    while i < len(t):
        ch = t[i]
        if ch in "([{":
            d += 1
        elif ch in ")]}":
            d -= 1
        elif d == 0:
            for s in seps:
                if t.startswith(s, i):
                    parts.append((t[last:i], s))
                    i += len(s) - 1
                    last = i + 1
                    break
        i += 1
    parts.append((t[last:], None))
    return parts


def _outer_method(t):
    """name of the outermost non-adaptor method / function call of a rendered expression"""
    d = 0
    best = None
    for m in re.finditer(r"[(\[{]|[)\]}]|\.([a-z_]\w*)(?=\()|(?<![\w.>])([a-z_]\w*)(?=\()", t):
        s = m.group(0)
        if s in "([{":
            d += 1
        elif s in ")]}":
            d -= 1
        elif d == 0:
            name = m.group(1) or m.group(2)
            if name and name not in ADAPTORS:
                best = CLASS.get(name, name)
    return best


def _strip_elem(t):
    """`elem[<what is iterated>]` -> `elem`: which collection the element comes from is plumbing (two loops merged into one over a
    chain, a list built elsewhere); the test is what is asked ABOUT the element"""
    out, i = [], 0
    while True:
        j = t.find("elem[", i)
        if j < 0:
            out.append(t[i:])
            break
        out.append(t[i:j] + "elem")
        d, k = 0, j + 4
        while k < len(t):
            d += t[k] == "["
            d -= t[k] == "]"
            k += 1
            if d == 0:
                break
        i = k
    return "".join(out)


def _is_take_one(name):
    repo = _REPO[0]
    if repo is None:
        return False
    fs = [f for f in repo.fns.values() if f.name == name and not f.self_ty]
    if len(fs) != 1:
        return False
    f = fs[0]
    ptys = ["".join((p.get("ty") or "").split()) for p in f.params]
    ret = "".join((f.node.get("ret") or "").split())
    return len(ptys) == 1 and ptys[0].startswith("&mut") and re.search(r"(Set|Vec|VecDeque|BTreeSet|Heap)<", ptys[0]) is not None and ret.startswith("Option<") \
        and any(m["k"] == "MethodCall" and m["method"] in ("remove", "pop", "pop_front", "pop_back", "pop_first", "pop_last", "take", "swap_remove") for m in A.walk(f.body))


def _leaf_atoms(t, kind):
    t = re.sub(r"\s*=> [^&|]*$", "", t.strip())
    t = _strip_elem(_strip(t))
    if not t or t in ("always", "<lit>", "True", "False", "'true'", "'false'"):
        return {"always"} if t == "always" else set()
    for seps in ((" & ",), (" || ", " && ")):
        ps = _split_top(t, seps)
        if len(ps) > 1:
            out = set()
            for x, _ in ps:
                out |= _leaf_atoms(x, kind)
            return out
    cls = None
    if t.startswith("arm "):
        cls, t = "arm", t[4:]
    elif t.startswith("unless let ") or t.startswith("let "):
        cls = "pat"
    else:
        ps = _split_top(t, (" == ", " != ", " <= ", " >= ", " < ", " > "))
        if len(ps) == 2:
            cls = "eq" if ps[0][1].strip() in ("==", "!=") else "ord"
    toks = set()
    for m in _TOK.findall(t):
        if m.endswith("("):
            name = m.strip(".(")
            if name in ADAPTORS:
                continue
            if _is_take_one(name):
                continue   # a helper `fn(&mut Set<T>) -> Option<T>` that takes one element out (`iter().next()` + `remove`): plumbing of a worklist loop
            toks.add(CLASS.get(name, name) + "()")
        elif re.match(r"<[A-Z]\w*>$", m):
            continue  # a local shown by its declared type: an annotation, not an origin
        else:
            toks.add(re.sub(r"^<[A-Z]\w*>", "<local>", m))
    if cls is None:
        cls = _outer_method(t) or (kind if kind in DROPPERS and kind != "filter" else "flag")
    # index arithmetic (`i + 1`, `0..n`, `x.len() - 1`) is plumbing, not a test
    toks -= {"'0'", "'1'"}
    if cls not in ("size", "ord", "eq"):
        toks.discard("size()")
    if not toks and cls == "flag":
        return set()
    return {cls + "|" + ",".join(sorted(toks))}


def atom_known(a, have):
    """same class of test calling the same predicates / comparing with the same constants, and the origins it reads include or are
    included in those of a confirmed one (a temporary that is named, inlined or annotated shows more or fewer of the origins behind
    it; a different test reads different ones)"""
    if a in have:
        return True

    def parts(x):
        cls, _, toks = x.partition("|")
        t = set(filter(None, toks.split(",")))
        sem = {k for k in t if k.endswith("()") or k.startswith("'") or k[0].isupper() or k in ("True", "False")}
        return cls, sem, t - sem

    cls, sem, org = parts(a)
    for b in have:
        c2, s2, o2 = parts(b)
        if c2 == cls and s2 == sem and (org <= o2 or o2 <= org):
            return True
    return False


def atoms(kind, key):
    """The set of elementary tests of an exemption's condition: for each leaf of the boolean structure, its class (eq / ord /
    contains / opt / size / a predicate's name / arm / pat) with the origins it reads (parameters by type with their field path,
    typed locals, pattern bindings, literals, non-adaptor methods).  Connectives, polarity, the exemption's syntactic kind and the
    iterator plumbing are left out: rewriting `if c { continue }` as `.filter(|x| !c)`, merging two early returns into one `||`,
    or naming a sub-test do not change the set; testing something else does."""
    return _leaf_atoms(key, kind)


# ---- boolean shape: the same elementary tests must be combined to the same truth function -----------------------------------------
S_KINDS = ("skip", "continue", "break", "return-ok", "filter", "skip_while")
G_KINDS = ("guard", "while", "retain", "take_while")


def _bool_tree(t, kind):
    """rendered condition -> ('and'|'or', [..]) | ('not', x) | ('leaf', atom) | ('true',); None when a leaf's polarity cannot be read"""
    t = re.sub(r"\s*=> [^&|]*$", "", t.strip()).strip()
    if t in ("always", ""):
        return ("true",)
    ps = _split_top(t, (" & ",))
    if len(ps) > 1:
        return ("and", [_bool_tree(x, kind) for x, _ in ps])
    # strip one pair of enclosing parentheses
    if t.startswith("(") and t.endswith(")"):
        d = 0
        whole = True
        for i, ch in enumerate(t):
            d += ch == "("
            d -= ch == ")"
            if d == 0 and i < len(t) - 1:
                whole = False
                break
        if whole:
            return _bool_tree(t[1:-1], kind)
    for sep, op in ((" || ", "or"), (" && ", "and")):
        ps = _split_top(t, (sep,))
        if len(ps) > 1:
            return (op, [_bool_tree(x, kind) for x, _ in ps])
    if t.startswith("!"):
        return ("not", _bool_tree(t[1:], kind))
    neg = False
    if t.startswith("unless let "):
        neg = True
    ps = _split_top(t, (" == ", " != ", " <= ", " >= ", " < ", " > "))
    if len(ps) == 2:
        op = ps[0][1].strip()
        if op in ("<", "<=", ">", ">="):
            # order tests in one canonical form: `A < B` or `A <= B` with A, B in text order; `>` / `>=` are their negations
            L, R = _strip(ps[0][0]), _strip(ps[1][0])
            if op in (">", ">="):
                neg = not neg
                op = "<=" if op == ">" else "<"
            if L > R:
                L, R = R, L
                op = "<=" if op == "<" else "<"
                neg = not neg
            at = _leaf_atoms(t, kind)
            if len(at) != 1:
                return None
            leaf = ("leaf", (f"{L} {op} {R}", next(iter(at)), op))
            return ("not", leaf) if neg else leaf
        if op == "!=":
            neg = not neg
    for pos_s, neg_s in PAIRS:
        if t.endswith(neg_s):
            neg = not neg
    at = _leaf_atoms(t, kind)
    if len(at) != 1:
        return None if at else ("true",)
    # a leaf is identified by its text with the polarity markers taken off (two `contains` tests on different fields are two
    # variables) and carries its atom for pairing with a differently written leaf
    ident = _strip(t)
    ident = re.sub(r" (==|!=) ", " = ", ident)
    for pos_s, neg_s in PAIRS:
        if ident.endswith(neg_s):
            ident = ident[: -len(neg_s)] + pos_s
    if ident.startswith("unless let "):
        ident = ident[len("unless "):]
    leaf = ("leaf", (ident, next(iter(at))))
    return ("not", leaf) if neg else leaf


def _has_none(tr):
    if tr is None:
        return True
    if tr[0] in ("and", "or"):
        return any(_has_none(x) for x in tr[1])
    if tr[0] == "not":
        return _has_none(tr[1])
    return False


def _leaves(tr, out):
    if tr[0] in ("and", "or"):
        for x in tr[1]:
            _leaves(x, out)
    elif tr[0] == "not":
        _leaves(tr[1], out)
    elif tr[0] == "leaf":
        out.add(tr[1])
    return out


def _ev(tr, val):
    if tr[0] == "true":
        return True
    if tr[0] == "leaf":
        return val[tr[1]]
    if tr[0] == "not":
        return not _ev(tr[1], val)
    if tr[0] == "and":
        return all(_ev(x, val) for x in tr[1])
    return any(_ev(x, val) for x in tr[1])


def same_truth_function(kind_a, key_a, kind_b, key_b):
    """True / False when both conditions are boolean combinations of the same readable leaves; None when that cannot be told"""
    ta, tb = _bool_tree(key_a, kind_a), _bool_tree(key_b, kind_b)
    if _has_none(ta) or _has_none(tb):
        return None
    la, lb = sorted(_leaves(ta, set())), sorted(_leaves(tb, set()))
    if len(la) != len(lb) or len(la) > 8:
        return None
    # pair the leaves: identical atoms first, then by atom_known
    m = {}
    rest = list(lb)
    for a in la:
        if a in rest:
            m[a] = a
            rest.remove(a)
    for a in la:
        if a in m:
            continue
        c = [b for b in rest if atom_known(a[1], {b[1]})]
        if len(c) != 1:
            return None
        if (len(a) > 2 or len(c[0]) > 2) and a[2:] != c[0][2:]:
            return False  # an order test against a strict / non-strict one (or against a non-order test) on the same origins
        m[a] = c[0]
        rest.remove(c[0])
    sa = any(kind_a.startswith(k) for k in S_KINDS)
    sb = any(kind_b.startswith(k) for k in S_KINDS)
    ga = any(kind_a.startswith(k) for k in G_KINDS)
    gb = any(kind_b.startswith(k) for k in G_KINDS)
    if not ((sa or ga) and (sb or gb)):
        return None
    flip = (sa != sb)
    import itertools
    for bits in itertools.product([False, True], repeat=len(la)):
        va = dict(zip(la, bits))
        vb = {m[a]: v for a, v in va.items()}
        if (_ev(ta, va) != _ev(tb, vb)) != flip:
            return False
    return True


_EXTRA_MOVED = ["check::get_not_depended_on_nonterminals", "check::get_nonterminals_resolution_order", "check::check_subword_spaces", "regex::Regex::check_subwords",
                    "regex::Regex::check_ambiguities", "dfa::DFA::check_ambiguity_best_effort", "check::get_nonterm_refs"]


def skips_rule(repo, res, table, only=None, rule="SKIPS", exclude=()):
    """table: list of {fn, kind, key, why}.  Reports every exemption of a validator that is neither listed nor a rewriting of listed
    ones that are gone; a listed exemption that is no longer found is only noted (removing an exemption makes the validator
    stricter, which no property here forbids)."""
    vs = validators(repo, extra=EXTRA_VALIDATORS)
    allowed = {}
    for r in table:
        allowed.setdefault((r["fn"], r["kind"], r["key"]), r)
    mod = lambda q: q.split("::")[0]
    # pass 1 (all validators, whatever the caller's scope): which rows are still there verbatim -- in their function or, after a helper
    # was extracted / inlined, in another function of the same module
    found = {}
    matched_rows = set()
    for q, f in sorted(vs.items()):
        for kind, key, line in exemptions(repo, f):
            k = (q, kind, key)
            rk = k if k in allowed else next((x for x in allowed if x[1] == kind and x[2] == key and mod(x[0]) == mod(q)), None)
            found.setdefault(q, []).append((kind, key, line, rk))
            if rk is not None:
                matched_rows.add(rk)
    gone = {}
    for k in allowed:
        if k not in matched_rows:
            gone.setdefault(mod(k[0]), set()).update(atoms(k[1], k[2]))
    n = 0
    for q, f in sorted(vs.items()):
        if (only is not None and q not in only) or q in exclude:
            continue
        for kind, key, line, rk in found.get(q, []):
            n += 1
            ident = f"{rule}:{q}:{kind}:{key[:120]}"
            if rk is not None:
                res.ok(rule, ident, f"listed exemption: {allowed[rk]['why']}", f"{f.file}:{line}")
                continue
            # not listed verbatim: a rewriting of listed exemptions that disappeared makes the same elementary tests as they did
            mine = atoms(kind, key)
            new = sorted(a for a in mine if not atom_known(a, gone.get(mod(q), set())))
            if not new:
                # the same tests must also be combined the same way (`||` for `&&`, a dropped `!`, `==` for `!=` keep the tests and change
                # what is skipped): compare truth functions with each vanished row of this module that makes exactly these tests
                verdicts = []
                for k2 in allowed:
                    if k2 in matched_rows or mod(k2[0]) != mod(q):
                        continue
                    a2 = atoms(k2[1], k2[2])
                    if len(a2) == len(mine) and all(atom_known(a, a2) for a in mine) and all(atom_known(a, mine) for a in a2):
                        verdicts.append((same_truth_function(kind, key, k2[1], k2[2]), k2))
                if verdicts and all(v is False for v, _ in verdicts):
                    res.bad(rule, ident, f"`{kind}` under `{key[:160]}` makes the tests of the listed exemption `{verdicts[0][1][1]}` under `{verdicts[0][1][2][:120]}` (no longer present) but combines them to a different truth function: other elements are let through than the confirmed ones", f"{f.file}:{line}")
                    continue
                res.ok(rule, ident, f"not listed verbatim; its elementary tests {sorted(mine)} are those of listed exemptions of this module that are no longer present in their old form: the same exemptions rewritten", f"{f.file}:{line}")
            else:
                res.bad(rule, ident, f"`{kind}` under `{key[:160]}` is not among the exemptions confirmed for this validator, and it tests {new}, which no confirmed exemption that has gone missing from this module tested (so it is not one of them rewritten): elements it lets through are no longer checked (a mistake there is accepted, or a guard that keeps a later pass safe is skipped)", f"{f.file}:{line}")
    for k, r in allowed.items():
        if (only is None or k[0] in only) and k[0] not in exclude and k not in matched_rows:
            res.advisory(f"SKIPS: listed exemption no longer present in {k[0]}: {k[1]} {k[2][:80]}")
    return n


def validators(repo, extra=()):
    vs = {}
    for q, f in repo.fns.items():
        if q.startswith("main::") or "Display" in q or "::fmt" in q:
            continue
        sites = [n for n in A.walk(f.body) if (n["k"] in ("Call", "Struct", "Path")) and ((n.get("func", {}) or {}).get("path", "") if n["k"] == "Call" else n.get("path", "")).startswith("Error::")]
        if sites:
            vs[q] = f
    for q in extra:
        if q in repo.fns:
            vs[q] = repo.fns[q]
    return vs


def printers(repo):
    return {q for q, f in repo.fns.items() if f.module in PRINTER_MODULES and f.name != "make_string_constant"}
