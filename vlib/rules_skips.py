"""SKIPS -- exemptions inside validators are enumerated (engine S).

A validator is a non-test function that constructs a semantic `Error::*` value (or is one of the recursive helpers of such a
function, listed by the caller).  Inside a validator, every construct that lets an element escape the check is an *exemption*:
`continue`, `break`, an early `return Ok(..)`, a `let .. else { continue / return Ok }`, and iterator adaptors that drop elements
(`filter`, `take_while`, `skip_while`, `skip`, `take`, `step_by`, and `filter_map`/`find` closures).  Each exemption is keyed by the
validator and a *structural* rendering of its condition (locals replaced by what they were computed from, parameters by position),
so renaming does not change the key while weakening, widening or adding a condition does.  tables/skips.toml lists the exemptions
confirmed by reading, one reason each; an exemption that is not listed is reported."""
import re

from . import ast as A
from . import prov as P

EXTRA_VALIDATORS = ["check::get_not_depended_on_nonterminals", "check::get_nonterminals_resolution_order", "check::check_subword_spaces", "regex::Regex::check_subwords",
                    "regex::Regex::check_ambiguities", "dfa::DFA::check_ambiguity_best_effort", "check::get_nonterm_refs", "regex::Regex::check_ambiguous_inputs_tail_only_subword"]
# algorithmic cores: not validators, but every element they skip changes the result (a splitter symbol not processed, a state not
# completed, a position left out of a follow set ...); their exemptions are enumerated in the same table
CORES = ["dfa::do_minimize", "dfa::find_bounds", "dfa::keep_only_states_with_input_transitions", "dfa::eliminate_nonaccepting_states_without_output_transitions",
         "dfa::renumber_states", "dfa::DFA::make_transitions_image", "dfa::hashmap_transitions_from_vec", "dfa::dfa_from_regex",
         "regex::do_firstpos", "regex::do_lastpos", "regex::do_followpos", "regex::RegexNode::nullable"]
# table printers of the four emitters: a row, a level or a declaration they skip is a table the script's reader still consults
# (in bash, through dynamic scoping, it then finds the CALLER's table of that name)
PRINTER_MODULES = ("bash", "fish", "zsh", "pwsh")
EXTRA_VALIDATORS = EXTRA_VALIDATORS + CORES
DROPPERS = {"filter", "take_while", "skip_while", "skip", "take", "step_by", "retain", "dedup_by_key", "dedup"}


def norm(p_text):
    t = re.sub(r"param#(\d+)\(\w+\)", r"param#\1", p_text)
    t = re.sub(r"@L\d+", "", t)
    return t


def _proj(proj):
    out = ""
    for st in proj:
        if st[0] == "tuple":
            out += f".{st[1]}"
        elif st[0] == "variant":
            out += f"::{st[1].split('::')[-1]}.{st[2]}"
        elif st[0] == "slice":
            out += f"[{st[1]}]"
    return out


def _head(e):
    while e is not None and e["k"] in ("Ref", "Unary", "Try", "Cast"):
        e = e["expr"]
    if e is None:
        return "?"
    if e["k"] == "Call" and e["func"]["k"] == "Path":
        return e["func"]["path"].split("::")[-1]
    if e["k"] == "MethodCall":
        return e["method"]
    if e["k"] == "Macro":
        return e["name"] + "!"
    if e["k"] == "Struct":
        return e["path"]
    if e["k"] == "Block":
        last = None
        for st in e["stmts"]:
            last = st["expr"] if st["k"] == "ExprStmt" and not st["semi"] else None
        return _head(last) if last is not None else "block"
    if e["k"] == "Path":
        return e["path"].split("::")[-1] if "::" in e["path"] else "local"
    return e["k"].lower()


def render(e, env, budget=3):
    """Name-free, bounded rendering of an expression: parameters by position, typed locals by their declared type, other locals
    by (a bounded rendering of) what they were computed from, loop variables / closure parameters as elem[<iterable>]."""
    if e is None:
        return "-"
    k = e["k"]
    if k == "Path":
        name = e["path"]
        if "::" in name:
            return name
        df = env.get(name) if env else None
        if df is None:
            return name
        return render_def(df, budget)
    if k in ("Ref", "Paren"):
        return render(e["expr"], env, budget)
    if k == "Unary":
        return render(e["expr"], env, budget) if e["op"] == "*" else e["op"] + render(e["expr"], env, budget)
    if k == "MethodCall":
        if e["method"] in A.TRANSPARENT_METHODS and not e["args"]:
            return render(e["recv"], env, budget)
        if e["method"] in ("filter", "skip_while", "take_while", "inspect", "peekable", "by_ref") and all(a["k"] == "Closure" for a in e["args"]):
            return render(e["recv"], env, budget)
        args = ", ".join("<closure>" if a["k"] == "Closure" else render(a, env, budget) for a in e["args"])
        return f"{render(e['recv'], env, budget)}.{e['method']}({args})"
    if k == "Call":
        f = e["func"]["path"].split("::")[-1] if e["func"]["k"] == "Path" else "?"
        return f + "(" + ", ".join(render(a, env, budget) for a in e["args"]) + ")"
    if k == "Lit":
        return repr(e["v"])
    if k == "Field":
        return render(e["base"], env, budget) + "." + str(e["member"])
    if k == "Index":
        return render(e["base"], env, budget) + "[" + render(e["index"], env, budget) + "]"
    if k == "Cast":
        return render(e["expr"], env, budget)
    if k == "Binary":
        return "(" + render(e["left"], env, budget) + " " + e["op"] + " " + render(e["right"], env, budget) + ")"
    if k in ("Tuple", "Array"):
        return "(" + ", ".join(render(x, env, budget) for x in e.get("elems") or []) + ")"
    if k == "Try":
        return render(e["expr"], env, budget) + "?"
    if k == "Macro":
        return e["name"] + "!"
    if k == "Range":
        return render(e.get("start"), env, budget) + ".." + render(e.get("end"), env, budget)
    return "<" + _head(e) + ">"


def render_def(df, budget):
    pj = _proj(df.proj)
    if df.kind == "param":
        # by declared type, not by position or name: adding, reordering or renaming parameters does not change a condition
        ty = A.norm_ty((df.node or {}).get("ty") or "") or "?"
        ty = re.sub(r"^&\s*('\w+\s+)?(mut\s+)?", "", ty)
        head = re.sub(r"<.*", "", ty).split("::")[-1] or "?"
        if (df.node or {}).get("name") == "self":
            head = "self"
        ordn = _PARAM_ORD.get(id(df.node), "")
        return f"param<{head}{ordn}>{pj}"
    node = df.node
    if df.kind in ("let", "bind"):
        pat = (node or {}).get("pat") or {}
        if df.kind == "let" and pat.get("k") == "PType":
            return "<" + re.sub(r"<.*", "", A.norm_ty(pat["ty"])).split("::")[-1] + ">" + pj
        if df.init is None:
            return "<uninit>" + pj
        if budget <= 0:
            return "<" + _head(df.init) + ">" + pj
        inner = render(df.init, df.env, budget - 1)
        if df.kind == "let" and pat.get("k") == "PIdent" and pat.get("mut"):
            return "<mut:" + inner + ">" + pj
        return inner + pj
    if df.kind == "elem":
        if budget <= 0:
            return "elem[<" + _head(df.init) + ">]" + pj
        return "elem[" + render(df.init, df.env, budget - 1) + "]" + pj
    if df.kind == "closure":
        return f"closure-param#{df.extra}{pj}"
    return "?"


PAIRS = ((".is_some()", ".is_none()"), (".is_ok()", ".is_err()"))


def neg(t):
    """negation of a rendered condition, in a normal form (so that `if c { continue }` and `.filter(|x| !c)` give one key)"""
    t = t.strip()
    if t.startswith("!"):
        inner = t[1:].strip()
        return inner
    for a, b in PAIRS:
        if t.endswith(a):
            return t[: -len(a)] + b
        if t.endswith(b):
            return t[: -len(b)] + a
    m = re.fullmatch(r"\((.*) (==|!=) (.*)\)", t)
    if m and m.group(1).count("(") == m.group(1).count(")") and m.group(3).count("(") == m.group(3).count(")"):
        return f"({m.group(1)} {'!=' if m.group(2) == '==' else '=='} {m.group(3)})"
    return "!" + t


def nnf(t):
    t = t.strip()
    while t.startswith("!!"):
        t = t[2:]
    if t.startswith("!"):
        n = neg(t[1:])
        if not n.startswith("!"):
            return n
    return t


def cond_key(repo, fn, envs, cond):
    """structural text of a condition expression"""
    if cond is None:
        return "always"
    env = envs.get(id(cond))
    if cond["k"] == "Let":
        pat = re.sub(r"\b[a-z_][a-z0-9_]*\b(?!::|\{|\()", "_", "".join(repo.text(fn.file, cond["pat"]).split()))
        return f"let {pat} = " + render(cond["expr"], env or envs.get(id(cond["expr"])))
    if cond["k"] == "Binary" and cond["op"] in ("&&", "||"):
        return "(" + cond_key(repo, fn, envs, cond["left"]) + f" {cond['op']} " + cond_key(repo, fn, envs, cond["right"]) + ")"
    if cond["k"] == "Unary" and cond["op"] == "!":
        return "!" + cond_key(repo, fn, envs, cond["expr"])
    return render(cond, env)


def closure_key(repo, fn, envs, clo):
    body = clo["body"]
    while body["k"] == "Block" and len(body["stmts"]) == 1 and body["stmts"][0]["k"] == "ExprStmt":
        body = body["stmts"][0]["expr"]
    return cond_key(repo, fn, envs, body)


def local_tags(repo, fn):
    """mutable accumulators (`let mut visited: UstrSet = Default::default()`) stay names in provenance terms; key them by their
    declared type (or initialiser) instead, so that renaming a local does not change an exemption's key"""
    tags = {}
    for n in A.walk(fn.body):
        if n["k"] == "Local":
            pat = n["pat"]
            ty = None
            if pat["k"] == "PType":
                ty = A.norm_ty(pat["ty"])
                pat = pat["pat"]
            if pat["k"] == "PIdent":
                if ty is None and n.get("init") is not None:
                    ty = "".join(repo.text(fn.file, n["init"]).split())[:40]
                tags.setdefault(pat["name"], "<" + (ty or "?") + ">")
    return tags


def exemptions(repo, fn):
    """[(kind, key text, line)] -- `if c { continue }` at the top level of a loop and `.filter(|x| p)` on its iterable are the same
    exemption (skip the element when c / when not p): both become kind `skip` with the skip condition in normal form"""
    out = []
    for kind, key, line in _exemptions(repo, fn):
        if kind.startswith(("detect:", "descend:")):
            continue
        if kind == "filter":
            kind, key = "skip", nnf(neg(key))
        elif kind == "continue^0" and " & " not in key and not key.startswith("unless") and not key.startswith("arm "):
            kind, key = "skip", nnf(key)
        out.append((kind, key, line))
    return out


_PARAM_ORD = {}


def _index_params(fn):
    """ordinal of each parameter among the parameters of the same type head (only shown when there are several)"""
    heads = {}
    for p in fn.params:
        ty = A.norm_ty(p.get("ty") or "") or "?"
        ty = re.sub(r"^&\s*('\w+\s+)?(mut\s+)?", "", ty)
        h = re.sub(r"<.*", "", ty).split("::")[-1]
        heads.setdefault(h, []).append(p)
    for h, ps in heads.items():
        for i, p in enumerate(ps):
            _PARAM_ORD[id(p)] = f"#{i + 1}" if len(ps) > 1 else ""


def _exemptions(repo, fn):
    _index_params(fn)
    descend_names = {q.split("::")[-1] for q in validators(repo, extra=EXTRA_VALIDATORS)} - {"from_grammar", "parse", "from_str"}
    envs = A.collect_envs(fn)
    pm = A.parent_map(fn.body)
    out = []

    def letelse_of(node):
        """the `let PAT = EXPR else { .. }` whose else-block holds this node, if any"""
        cur = node
        while id(cur) in pm:
            par, key = pm[id(cur)]
            if par["k"] == "Local" and key == "else":
                pat = re.sub(r"\b[a-z_][a-z0-9_]*\b(?!::|\{|\()", "_", "".join(repo.text(fn.file, par["pat"]).split()))
                init = render(par.get("init"), envs.get(id(par.get("init"))) or envs.get(id(par))) if par.get("init") is not None else "?"
                return f"unless let {pat[:60]} = {init}"
            if par["k"] in ("ForLoop", "While", "Loop", "Closure", "Fn"):
                return None
            cur = par
        return None

    def guard_chain(node):
        gs = []
        le = letelse_of(node)
        if le:
            gs.append(le)
        for g, role in A.guards_of(node, pm):
            if g["k"] == "If":
                c = cond_key(repo, fn, envs, g["cond"])
                gs.append(c if role == "then" else f"!({c})")
            elif g["k"] == "Arm":
                gs.append("arm " + re.sub(r"\b[a-z_][a-z0-9_]*\b(?!::|\{|\()", "_", "".join(repo.text(fn.file, g["pat"]).split()))[:80])
            elif g["k"] in ("ForLoop", "While", "Loop", "Closure"):
                break
        return " & ".join(gs) if gs else "always"

    bool_params = {p["name"] for p in fn.params if p.get("name") and "".join(str(p.get("ty", "")).split()) == "bool"}

    def mode_only_return(ret):
        """`if [!]flag { return Ok(..) }` directly in a match arm, flag a bool parameter, with every descent of that arm (recursive call
        or call of another validator) standing before it: the rest of the arm runs in one mode only -- what an arm guard `if flag`
        would say, and an arm guard is no exemption either (no element is let through: all children were already visited)."""
        gs = A.guards_of(ret, pm)
        if len(gs) < 2 or gs[0][0]["k"] != "If" or gs[1][0]["k"] != "Arm":
            return False
        c = gs[0][0]["cond"]
        while c["k"] in ("Paren",) or (c["k"] == "Unary" and c.get("op") == "!"):
            c = c["expr"]
        if not (c["k"] == "Path" and c["path"] in bool_params):
            return False
        arm = gs[1][0]
        iff = gs[0][0]
        for x in A.walk(arm["body"]):
            nm = None
            if x["k"] == "Call" and x["func"]["k"] == "Path":
                nm = x["func"]["path"].split("::")[-1]
            elif x["k"] == "MethodCall":
                nm = x["method"]
            if nm is not None and (nm == fn.name or nm in descend_names) and not A.before(x, iff):
                return False
        return True

    for n in A.walk(fn.body):
        k = n["k"]
        if k in ("Continue", "Break"):
            # which loop it targets: ^0 = innermost enclosing loop, ^1 = the next one out, ... (labels resolved)
            loops = []
            cur = n
            while id(cur) in pm:
                cur = pm[id(cur)][0]
                if cur["k"] in ("ForLoop", "While", "Loop"):
                    loops.append(cur)
                if cur["k"] == "Closure":
                    break
            depth = 0
            if n.get("label"):
                depth = next((i for i, l in enumerate(loops) if l.get("label") == n["label"]), -1)
            out.append((f"{k.lower()}^{depth}", guard_chain(n), n["l"]))
        elif k == "Return":
            e = n.get("expr")
            txt = "".join(repo.text(fn.file, e).split()) if e is not None else ""
            if (e is None or txt.startswith("Ok(")) and mode_only_return(n):
                continue
            if e is None or txt.startswith("Ok(") or txt in ("()", "true", "false", "None"):
                out.append(("return-ok", guard_chain(n) + (" => " + txt[:40] if txt else ""), n["l"]))
        elif k == "MethodCall" and n["method"] in DROPPERS:
            clo = [a for a in n["args"] if a["k"] == "Closure"]
            if clo:
                out.append((n["method"], closure_key(repo, fn, envs, clo[0]), n["l"]))
            else:
                out.append((n["method"], "(" + ", ".join(render(a, envs.get(id(n))) for a in n["args"]) + ")", n["l"]))
        elif k in ("If", "While") and not (k == "If" and A.diverges(n["then"])):
            # a positive guard: the effect below happens only under this condition (strengthening it skips elements silently)
            if k == "If" and id(n) in pm and pm[id(n)][0]["k"] == "If" and pm[id(n)][1] == "else":
                pass  # else-if chains are keyed by their own condition as well
            out.append(("guard" if k == "If" else "while", cond_key(repo, fn, envs, n["cond"]), n["l"]))
        elif k in ("Call", "Struct") :
            path = (n["func"].get("path", "") if k == "Call" and n["func"]["k"] == "Path" else (n.get("path", "") if k == "Struct" else ""))
            if path.startswith("Error::"):
                # the detection predicate: under which condition this mistake is reported
                out.append(("detect:" + path.split("::")[-1], guard_chain(n), n["l"]))
            elif k == "Call" and path.split("::")[-1] in descend_names and path.split("::")[-1] != "":
                out.append(("descend:" + path.split("::")[-1], guard_chain(n), n["l"]))
        elif k == "Path" and n["path"].startswith("Error::") and not (id(n) in pm and pm[id(n)][1] == "func"):
            out.append(("detect:" + n["path"].split("::")[-1], guard_chain(n), n["l"]))
        elif k == "MethodCall" and n["method"] in descend_names:
            out.append(("descend:" + n["method"], guard_chain(n), n["l"]))
    return out


_EXTRA_MOVED = ["check::get_not_depended_on_nonterminals", "check::get_nonterminals_resolution_order", "check::check_subword_spaces", "regex::Regex::check_subwords",
                    "regex::Regex::check_ambiguities", "dfa::DFA::check_ambiguity_best_effort", "check::get_nonterm_refs"]


def skips_rule(repo, res, table, only=None, rule="SKIPS", exclude=()):
    """table: list of {fn, kind, key, why}.  Reports every exemption of a validator that is not listed; a listed exemption that is
    no longer found is only noted (removing an exemption makes the validator stricter, which no property here forbids)."""
    vs = validators(repo, extra=EXTRA_VALIDATORS)
    allowed = {}
    for r in table:
        allowed.setdefault((r["fn"], r["kind"], r["key"]), r)
    n = 0
    seen = set()
    for q, f in sorted(vs.items()):
        if (only is not None and q not in only) or q in exclude:
            continue
        for kind, key, line in exemptions(repo, f):
            n += 1
            k = (q, kind, key)
            seen.add(k)
            row = allowed.get(k)
            if row is None:
                # the same exemption in another function of the same module: code moved into / out of a helper
                for (rq, rk, rkey), rr in allowed.items():
                    if rk == kind and rkey == key and rq.split("::")[0] == q.split("::")[0]:
                        row = rr
                        break
            res.check(row is not None, rule, f"{rule}:{q}:{kind}:{key[:120]}", (f"listed exemption: {row['why']}" if row else f"`{kind}` under `{key[:160]}` is not among the exemptions confirmed for this validator: elements it lets through are no longer checked (a mistake there is accepted, or a guard that keeps a later pass safe is skipped)"), f"{f.file}:{line}")
    for k, r in allowed.items():
        if (only is None or k[0] in only) and k[0] not in exclude and k not in seen:
            res.advisory(f"SKIPS: listed exemption no longer present in {k[0]}: {k[1]} {k[2][:80]}")
    return n


def validators(repo, extra=()):
    vs = {}
    for q, f in repo.fns.items():
        if q.startswith("main::") or "Display" in q or "::fmt" in q:
            continue
        sites = [n for n in A.walk(f.body) if (n["k"] in ("Call", "Struct", "Path")) and ((n.get("func", {}) or {}).get("path", "") if n["k"] == "Call" else n.get("path", "")).startswith("Error::")]
        if sites:
            vs[q] = f
    for q in extra:
        if q in repo.fns:
            vs[q] = repo.fns[q]
    return vs


def printers(repo):
    return {q for q, f in repo.fns.items() if f.module in PRINTER_MODULES and f.name != "make_string_constant"}
