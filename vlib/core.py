"""Shared plumbing of the rule layer: fact extraction + cache, result collection, known findings,
evidence and report files.  See DESIGN.md §7."""
import glob
import hashlib
import json
import os
import subprocess
import sys
import time

VERIF = os.path.dirname(os.path.dirname(os.path.abspath(__file__)))
REPO = os.environ.get("VERIF_REPO", "/repo")
CACHE = os.path.join(VERIF, ".cache")
# self-tests that run concurrently with other checks use their own build directory (cargo target dirs are not shareable between
# two simultaneous `cargo check` runs over different source trees)
WORK = os.environ.get("VERIF_WORK_DIR", os.path.join(VERIF, ".work"))
CACHE = os.environ.get("VERIF_CACHE_DIR", CACHE)
SRCFACTS = os.path.join(VERIF, "tools/srcfacts/target/debug/srcfacts")


class Undecidable(Exception):
    """Raised by a rule when an anchor it needs cannot be found (fail closed)."""


def repo_files():
    fs = sorted(glob.glob(os.path.join(REPO, "src", "**", "*.rs"), recursive=True))
    b = os.path.join(REPO, "build.rs")
    if os.path.exists(b):
        fs.append(b)
    return fs


def repo_hash():
    h = hashlib.sha256()
    for p in repo_files() + [os.path.join(REPO, "Cargo.toml"), os.path.join(REPO, "Cargo.lock")]:
        h.update(p.encode())
        try:
            with open(p, "rb") as f:
                h.update(f.read())
        except OSError:
            h.update(b"<missing>")
    # the extractors are part of the key: a rebuilt tool invalidates old facts
    for tool in (SRCFACTS, os.path.join(VERIF, "tools/mirfacts/target/debug/mirfacts")):
        try:
            st = os.stat(tool)
            h.update(f"{tool}:{st.st_size}:{int(st.st_mtime)}".encode())
        except OSError:
            pass
    return h.hexdigest()[:24]


def cache_dir():
    d = os.path.join(CACHE, repo_hash())
    os.makedirs(d, exist_ok=True)
    return d


def ensure_tool(path, crate_dir):
    if not os.path.exists(path):
        r = subprocess.run(
            ["cargo", "build", "--offline"], cwd=crate_dir, stdout=subprocess.PIPE, stderr=subprocess.STDOUT, text=True
        )
        if r.returncode != 0:
            print(r.stdout[-4000:], file=sys.stderr)
            print(f"verif: cannot build {crate_dir}", file=sys.stderr)
            sys.exit(2)


_repo = None


def get_repo():
    """Engine S: run srcfacts on /repo's working tree (cached by content hash)."""
    global _repo
    if _repo is not None:
        return _repo
    from . import ast

    ensure_tool(SRCFACTS, os.path.join(VERIF, "tools/srcfacts"))
    out = os.path.join(cache_dir(), "ast.json")
    if not os.path.exists(out):
        tmp = out + f".{os.getpid()}.tmp"
        r = subprocess.run([SRCFACTS, tmp] + repo_files(), stdout=subprocess.PIPE, stderr=subprocess.PIPE, text=True)
        if r.returncode != 0:
            print(r.stderr, file=sys.stderr)
            print("verif: /repo does not parse; a tree that does not build has no properties", file=sys.stderr)
            sys.exit(2)
        os.replace(tmp, out)
    from . import canon
    data0 = json.load(open(out))
    ref = json.load(open(canon.TABLE)) if os.path.exists(canon.TABLE) else {}
    # 1. spelling: for_each / try_for_each statements read as `for` loops, `Self { .. }` / `Self::V` as the type, aliases added since the
    #    reference tree as what they stand for
    n_loops = canon.desugar_loops(data0)
    canon.desugar_entry(data0)
    canon.desugar_filter_loops(data0)
    canon.unroll_literal_loops(data0)
    canon.desugar_match_letelse(data0)
    canon.desugar_okor_try(data0)
    canon.merge_bool_arms(data0)
    canon.expand_self(data0)
    if ref:
        canon.expand_new_aliases(data0, set(ref.get("__aliases__", [])))
    # 2. names: private types and functions that were merely renamed are read under their reference names (vlib/canon.py)
    r1 = ast.Repo(out, REPO, _data=data0)
    type_renames = canon.compute_type_renames(r1, ref.get("__types__", {})) if ref else {}
    if type_renames:
        canon.apply_type_renames(data0, type_renames)
        r1 = ast.Repo(out, REPO, _data=data0)
    renames, log = canon.compute_renames(r1)
    if renames:
        canon.apply_to_ast(data0, renames)
    # 3. structure: helpers extracted since the reference tree (still unknown after step 2) are read in place; calls of locally named
    #    closures as the closure's body
    inlined = canon.inline_new_helpers(data0, {k for k in ref if not k.startswith("__")}, set(ref["__methods__"]) if "__methods__" in ref else None) if ref else []
    canon.inline_local_closures(data0)
    _repo = ast.Repo(out, REPO, _data=data0)
    _repo.desugared_loops = n_loops
    _repo.inlined_helpers = inlined
    _repo.renames, _repo.rename_log = dict(renames, **type_renames), log  # the MIR facts are read with both kinds of names mapped back
    return _repo


# ------------------------------------------------------------------------------ results
class Instance:
    __slots__ = ("rule", "key", "ok", "detail", "loc", "kind")

    def __init__(self, rule, key, ok, detail="", loc="", kind="instance"):
        self.rule, self.key, self.ok, self.detail, self.loc, self.kind = rule, key, ok, detail, loc, kind

    def as_dict(self):
        return {"rule": self.rule, "key": self.key, "ok": self.ok, "detail": self.detail, "loc": self.loc}


class Results:
    """Collects rule instances for one property run."""

    def __init__(self, prop):
        self.prop = prop
        self.instances = []
        self.advisories = []
        self.counters = {}
        self.engines = {}

    def ok(self, rule, key, detail="", loc=""):
        self.instances.append(Instance(rule, key, True, detail, loc))

    def bad(self, rule, key, detail="", loc=""):
        self.instances.append(Instance(rule, key, False, detail, loc))

    def check(self, cond, rule, key, detail="", loc=""):
        (self.ok if cond else self.bad)(rule, key, detail, loc)
        return cond

    def undecided(self, rule, key, what, loc=""):
        """fail closed: the rule cannot find what it needs"""
        self.instances.append(Instance(rule, key, False, "cannot decide: " + what, loc))

    def advisory(self, text):
        self.advisories.append(text)

    def floor(self, rule, n, floor):
        """fail closed when a rule matched fewer instances than were confirmed by reading"""
        self.counters[rule] = n
        if n < floor:
            self.bad(rule, f"{rule}:floor", f"only {n} instances matched, confirmed floor is {floor}")

    def count(self, rule):
        return sum(1 for i in self.instances if i.rule == rule)


def load_known():
    p = os.path.join(VERIF, "known_findings.json")
    with open(p) as f:
        return json.load(f)


def finish(res, tier, level, explanation, assumptions, t0, extra_cov=None, rule_text=None):
    """Apply known findings, print VIOLATION / KNOWN-FINDING lines, write evidence + reports.
    Returns the process exit code."""
    known = load_known()
    open_keys = {(e["property"], e["key"]): e for e in known.get("open", [])}
    prop = res.prop
    bad = [i for i in res.instances if not i.ok]
    viol = []
    knownhits = []
    seen = set()
    for i in bad:
        if (prop, i.key) in open_keys:
            if i.key not in seen:
                knownhits.append(i)
                seen.add(i.key)
        else:
            viol.append(i)
    for i in knownhits:
        e = open_keys[(prop, i.key)]
        print(f"KNOWN-FINDING: property={prop} {i.key} -- {e.get('what', i.detail)}")
    # an open finding that no longer fires is reported (informational): the table is stale
    fired = {i.key for i in bad}
    for (p, k), e in open_keys.items():
        if p == prop and k not in fired:
            print(f"NOTE: known finding no longer fires: property={prop} {k} (consider moving it to 'fixed')")
    # self-tests on scratch copies redirect evidence/reports so that the committed evidence is never overwritten by them
    out_root = os.environ.get("VERIF_OUT_DIR", VERIF)
    os.makedirs(os.path.join(out_root, "reports"), exist_ok=True)
    for n, i in enumerate(viol):
        path = os.path.join(out_root, "reports", f"{prop}-{n}.json")
        with open(path, "w") as f:
            json.dump({"property": prop, **i.as_dict()}, f, indent=1)
        print(f"VIOLATION property={prop} replay={path}")
        print(f"  rule={i.rule} key={i.key} at {i.loc}: {i.detail}")
    for a in res.advisories:
        print(f"ADVISORY: {a}")
    good = [i for i in res.instances if i.ok]
    distinct = len({(i.rule, i.key) for i in res.instances})
    per_rule = {}
    for i in res.instances:
        d = per_rule.setdefault(i.rule, {"instances": 0, "held": 0})
        d["instances"] += 1
        d["held"] += 1 if i.ok else 0
    samples = []
    seen_rules = set()
    for i in res.instances:
        if i.rule not in seen_rules or len(samples) < 12:
            if sum(1 for s in samples if s["rule"] == i.rule) < 3:
                samples.append(i.as_dict())
                seen_rules.add(i.rule)
    cov = {
        "explanation": explanation,
        "evaluations": len(res.instances),
        "distinct_nontrivial": distinct,
        "rule": rule_text
        or "one evaluation = one rule instance (rule template x the function/variant/field/site it was "
        "instantiated on from /repo's current source); distinct = distinct (rule,key) pairs; an instance that "
        "matched no extracted fact is never created, anchors that cannot be found are counted as failed",
        "samples": samples,
        "per_rule": per_rule,
        "floors": res.counters,
        "known_findings_reported": [i.key for i in knownhits],
        "advisories": res.advisories,
        "engines": res.engines,
        "exhaustive": False,
    }
    if extra_cov:
        cov.update(extra_cov)
    ev = {
        "property_id": prop,
        "tier": tier,
        "seed": int(os.environ.get("VERIF_SEED", "0") or 0),
        "level": level,
        "coverage": cov,
        "assumptions": assumptions,
        "wall_s": round(time.time() - t0, 3),
        "violations": len(viol),
    }
    os.makedirs(os.path.join(out_root, "evidence"), exist_ok=True)
    with open(os.path.join(out_root, "evidence", f"{prop}.json"), "w") as f:
        json.dump(ev, f, indent=1)
    print(
        f"{prop}: {len(res.instances)} rule instances, {len(good)} held, {len(knownhits)} known findings, "
        f"{len(viol)} violations [{tier}]"
    )
    return 1 if viol else 0


def ensure_tool_nightly(path, crate_dir):
    if not os.path.exists(path):
        r = subprocess.run(["cargo", "+nightly", "build", "--offline"], cwd=crate_dir, stdout=subprocess.PIPE, stderr=subprocess.STDOUT, text=True)
        if r.returncode != 0:
            print(r.stdout[-4000:], file=sys.stderr)
            print(f"verif: cannot build {crate_dir}", file=sys.stderr)
            sys.exit(2)
