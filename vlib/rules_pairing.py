"""PAIRING (engine S): a vector used as a stack of "where we are" (push before descending, pop after) is balanced on every
successful exit.

For every function and every receiver R on which both `push` and `pop` (or `clear`/`truncate`) are called: each `R.push(..)`
statement must be followed, in the same statement list, by a statement that pops / clears R, and no statement in between may leave
the list *successfully* (`return Ok(..)`, bare `return`, `continue`, `break`, or a `let .. else { <one of those> }`).  Leaving with
an error (`?`, `return Err(..)`) is fine: the stack's content is what the diagnostic reports.  A push directly followed by an
error return needs no pop.  Unbalanced entries survive into later diagnostics (a trace naming references that are not on the
path) or into later cycle checks."""
from . import ast as A

POPS = {"pop", "clear", "truncate"}


def _recv_name(n):
    r = n["recv"]
    while r["k"] in ("Ref", "Unary", "Paren"):
        r = r["expr"]
    return r["path"] if r["k"] == "Path" and "::" not in r["path"] else None


def _calls_on(stmt, name, methods):
    return [n for n in A.walk(stmt) if n["k"] == "MethodCall" and n["method"] in methods and _recv_name(n) == name]


def _success_exit(repo, fn, stmt):
    """does this statement contain a way to leave the enclosing list successfully?"""
    for n in A.walk(stmt):
        if n["k"] in ("Continue", "Break"):
            return n
        if n["k"] == "Return":
            e = n.get("expr")
            txt = "".join(repo.text(fn.file, e).split()) if e is not None else ""
            if not txt.startswith("Err("):
                return n
        if n["k"] == "Closure":
            pass
    return None


def pairing_rule(repo, res, only=None, rule="PAIRING"):
    n = 0
    seq = {}
    for q, fn in sorted(repo.fns.items()):
        if only is not None and q not in only:
            continue
        names = set()
        for m in A.walk(fn.body):
            if m["k"] == "MethodCall" and m["method"] == "push" and _recv_name(m):
                names.add(_recv_name(m))
        for name in sorted(names):
            if not any(True for m in A.walk(fn.body) if m["k"] == "MethodCall" and m["method"] in POPS and _recv_name(m) == name):
                continue  # an accumulator, not a stack
            for blk in A.walk(fn.body):
                if blk["k"] != "Block":
                    continue
                sts = blk["stmts"]
                for i, st in enumerate(sts):
                    # pushes that are direct statements of this block (not nested deeper in another block)
                    direct = [m for m in _calls_on(st, name, {"push"}) if not any(b is not blk and b["k"] == "Block" and any(x is m for x in A.walk(b)) for b in A.walk(st) if b["k"] == "Block")]
                    if not direct:
                        continue
                    n += 1
                    seq[(q, name)] = seq.get((q, name), 0) + 1
                    key = f"{rule}:{q}:{name}#{seq[(q, name)]}"
                    loc = f"{fn.file}:{st['l']}"
                    verdict = None
                    for later in sts[i + 1 :]:
                        if _calls_on(later, name, POPS):
                            verdict = ("ok", "balanced by a later pop/clear in the same block")
                            break
                        ex = _success_exit(repo, fn, later)
                        if ex is not None:
                            verdict = ("bad", f"a successful exit (`{ex['k'].lower()}` at line {ex['l']}) lies between the push and its pop: the entry stays on the stack")
                            break
                        # an error return right after the push: the stack is handed to the diagnostic
                        if any(x["k"] == "Return" for x in A.walk(later)):
                            verdict = ("ok", "followed by an error return that reports the stack")
                            break
                    if verdict is None:
                        last = sts[-1] if sts else None
                        verdict = ("bad", "no pop/clear follows in the same block") if not (last is not None and any(x["k"] == "Return" for x in A.walk(last))) else ("ok", "block ends in a return")
                    res.check(verdict[0] == "ok", rule, key, f"`{name}.push` -- {verdict[1]}", loc)
    return n
