"""FIELDCOVER (engine S): every variant that carries field F is treated alike by a function that projects F out of the enum.

`fieldcover(fn, enum, field, sink)`: in EVERY match over `enum` inside `fn`, each arm whose variant declares `field` must bind it
and let it reach the sink -- `value` (the arm's value is built from the binding: an accessor) or `call:<method>` (the binding is an
argument of that method call: a collector).  A variant whose field is ignored (`..`, `_`, or bound and dropped) is an item the
accessor / collector silently loses; downstream code that indexes by what the accessor promised then panics or mislabels."""
from . import ast as A
from . import rules_tree as T


def variants_with(repo, enum, field):
    e = repo.enum(enum) or {}
    return [v["name"] for v in e.get("variants", []) if any(str(f.get("name")) == field for f in v.get("fields", []))]


def _helpers(repo, fn, enum):
    """functions of fn's module that fn calls (by name or as a method) and that match over `enum` themselves: an iterator / accessor
    extracted from fn does part of fn's projection"""
    out = []
    called = set()
    for x in A.walk(fn.body):
        if x["k"] == "MethodCall":
            called.add(x["method"])
        elif x["k"] == "Call" and x["func"]["k"] == "Path":
            called.add(x["func"]["path"].split("::")[-1])
    for h in repo.fns_in(fn.module):
        if h is not fn and h.name in called and h.name != fn.name and T.find_enum_matches(repo, h, enum, 2):
            out.append(h)
    return out


def fieldcover(repo, res, fq, enum, field, sink, rule="FIELDCOVER", min_matches=1):
    fn = repo.fn(fq)
    if fn is None:
        res.undecided(rule, f"{rule}:{fq}", "function not found")
        return 0
    carriers = set(variants_with(repo, enum, field))
    if not carriers:
        res.undecided(rule, f"{rule}:{fq}", f"no variant of {enum} declares `{field}`")
        return 0
    n = 0
    mi = 0
    for f in [fn] + _helpers(repo, fn, enum):
        # in a helper the field leaves through the helper's value (it is fn that collects it)
        a, b = _cover_one(repo, res, f, fq, enum, field, sink if f is fn else "value", carriers, rule, mi)
        n += a
        mi = b
    if mi < min_matches:
        res.undecided(rule, f"{rule}:{fq}:matches", f"{mi} matches over {enum} found, {min_matches} confirmed")
    return n


def _cover_one(repo, res, fn, fq, enum, field, sink, carriers, rule, mi):
    envs = A.collect_envs(fn)
    n = 0
    pm = None
    for m in A.walk(fn.body):
        if m["k"] != "Match":
            continue
        arms = [(a, [p.split("::")[-1] for p, _ in A.pat_variants(a["pat"]) if p.split("::")[0] in (enum, "Self") or p.split("::")[-2:-1] == [enum]]) for a in m["arms"]]
        if sum(len(v) for _, v in arms) < 2:
            continue
        mi += 1
        seen = set()
        for arm, vs in arms:
            for v in vs:
                if v not in carriers:
                    continue
                seen.add(v)
                n += 1
                # binding of the field in this arm's pattern (for this variant)
                bname = None
                for ppath, pnode in A.pat_variants(arm["pat"]):
                    if ppath.split("::")[-1] == v:
                        b = T.field_binding(pnode, field)
                        bname = b
                ok = False
                why = f"`{field}` is not bound (ignored by `..` or `_`)"
                names = [nm for nm, pj in A.pat_bindings(arm["pat"]) if any(st[0] == "variant" and st[2] == field for st in pj)]
                if names:
                    nm = names[0]
                    uses = [x for x in A.walk(arm["body"]) if x["k"] == "Path" and x["path"] == nm]
                    if sink == "value":
                        ok = bool(uses)
                        why = f"the arm's value is built from `{field}`" if ok else f"`{field}` is bound but the arm's value does not use it"
                    else:
                        meth = sink.split(":", 1)[1]
                        calls = [c for c in A.walk(arm["body"]) if c["k"] == "MethodCall" and c["method"] == meth and any(x["k"] == "Path" and x["path"] == nm for a in c["args"] for x in A.walk(a))]
                        ok = bool(calls)
                        why = f"`{field}` is passed to .{meth}(..)" if ok else f"`{field}` is bound but never passed to .{meth}(..)"
                        if not ok and uses:
                            # the match PRODUCES what is added: it stands inside the argument of `.extend(..)` / `.insert(..)` (an
                            # iterator of the values to add), and this arm's value is built from the field
                            if pm is None:
                                pm = A.parent_map(fn.body)
                            cur = m
                            while id(cur) in pm:
                                par, key = pm[id(cur)]
                                if par["k"] == "MethodCall" and key == "args" and par["method"] in (meth, "extend", "push", "insert"):
                                    ok = True
                                    why = f"`{field}` is yielded into .{par['method']}(..)"
                                    break
                                cur = par
                res.check(ok, rule, f"{rule}:{fq}:match#{mi}:{v}.{field}", f"{enum}::{v}: {why}", f"{fn.file}:{arm['l']}")
        missing = carriers - seen
        # variants not named at all are covered by a wildcard arm: report
        for v in sorted(missing):
            n += 1
            res.bad(rule, f"{rule}:{fq}:match#{mi}:{v}.{field}", f"{enum}::{v} carries `{field}` but no arm of this match names it (wildcard): its `{field}` is lost", f"{fn.file}:{m['l']}")
    return n, mi
