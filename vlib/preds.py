"""Predicates known to hold at a program point (engine S), independent of how the filter is spelled.

`known(repo, fn, node)` returns the set of normalised condition texts that hold whenever `node` is evaluated:
  * enclosing `if C { .. }` (C), its else branch (not C); `if let P = E` as `let P = E`;
  * earlier statements of enclosing blocks of the form `if C { <diverges> }` (not C) and `let P = E else { <diverges> }` (let P = E);
  * for a loop variable / closure parameter: predicates of `.filter(|x| P)` adaptors on the iterable it ranges over (P with the
    closure parameter rendered as the element), also when the iterable is a local bound earlier to such a chain.
Conditions are rendered name-free (vlib.rules_skips.render) and put in negation normal form, so `if d.shell.is_some() { continue }`
and `.filter(|d| d.shell.is_none())` both yield `elem[..].shell.is_none()`."""
from . import ast as A
from . import rules_skips as SK


def _split_and(c):
    if c["k"] == "Binary" and c["op"] == "&&":
        return _split_and(c["left"]) + _split_and(c["right"])
    return [c]


def known(repo, fn, node, envs=None, pm=None):
    envs = envs or A.collect_envs(fn)
    pm = pm or A.parent_map(fn.body)
    out = set()

    def add(c, positive):
        for part in (_split_and(c) if positive else [c]):
            k = SK.cond_key(repo, fn, envs, part)
            out.add(SK.nnf(k) if positive else SK.nnf(SK.neg(k)))

    for g, role in A.guards_of(node, pm):
        if g["k"] == "If":
            add(g["cond"], role == "then")
            if role == "then" and g["cond"]["k"] == "Let":
                _found(repo, fn, envs, g["cond"]["expr"], out)
        elif g["k"] == "ForLoop":
            _filters(repo, fn, envs, g["iter"], out)
        elif g["k"] == "Closure" and id(g) in pm and pm[id(g)][0]["k"] == "MethodCall" and pm[id(g)][1] == "args" and pm[id(g)][0]["method"] in ("map", "for_each", "try_for_each", "filter_map", "flat_map", "find_map", "inspect", "extend"):
            # the closure runs on the elements that the filters further up the chain let through
            _filters(repo, fn, envs, pm[id(g)][0]["recv"], out)
    for kind, c, st in A.preceding_guards(node, pm):
        if kind == "if":
            add(c, False)
        elif kind == "letelse":
            pat = "".join(repo.text(fn.file, c["pat"]).split())
            out.add("let " + pat)
    return out


def _filters(repo, fn, envs, it, out, depth=0):
    """predicates of filter adaptors on an iterable expression (following a local bound to the chain)"""
    e = it
    while e is not None and depth < 6:
        while e["k"] in ("Ref", "Unary", "Paren"):
            e = e["expr"]
        if e["k"] == "MethodCall":
            if e["method"] == "filter" and e["args"] and e["args"][0]["k"] == "Closure":
                clo = e["args"][0]
                body = clo["body"]
                while body["k"] == "Block" and len(body["stmts"]) == 1 and body["stmts"][0]["k"] == "ExprStmt":
                    body = body["stmts"][0]["expr"]
                for part in _split_and(body):
                    out.add(SK.nnf(SK.cond_key(repo, fn, envs, part)))
            e = e["recv"]
            continue
        if e["k"] == "Path" and "::" not in e["path"]:
            env = envs.get(id(e))
            df = env.get(e["path"]) if env else None
            if df is not None and df.kind == "let" and df.init is not None:
                e = df.init
                depth += 1
                continue
        break


def _found(repo, fn, envs, e, out, depth=0):
    """`if let Some(x) = <iter>.find(|y| P(y))` (also through a local holding the result): P holds of what was found; so do the
    predicates of filter adaptors further up the same chain"""
    while e is not None and depth < 6:
        while e["k"] in ("Ref", "Unary", "Paren"):
            e = e["expr"]
        if e["k"] == "MethodCall":
            if e["method"] == "find" and e["args"] and e["args"][0]["k"] == "Closure":
                body = e["args"][0]["body"]
                while body["k"] == "Block" and len(body["stmts"]) == 1 and body["stmts"][0]["k"] == "ExprStmt":
                    body = body["stmts"][0]["expr"]
                for part in _split_and(body):
                    out.add(SK.nnf(SK.cond_key(repo, fn, envs, part)))
                _filters(repo, fn, envs, e["recv"], out, depth)
            return
        if e["k"] == "Path" and "::" not in e["path"]:
            env = envs.get(id(e))
            df = env.get(e["path"]) if env else None
            if df is not None and df.kind == "let" and df.init is not None:
                e = df.init
                depth += 1
                continue
        return
