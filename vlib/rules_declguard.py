"""DECLGUARD (engine S): a table the generated program reads is declared on every path.

In bash (and zsh) a function's `local` tables shadow the caller's variables of the same name; the shared interpreters
(`_<cmd>_subword`, the walk) read fixed table names.  If a wrapper declares one of those tables only when it has entries, then for
an automaton without entries the interpreter finds the CALLER's table of that name (dynamic scoping) and walks the wrong automaton.
So: every template that DECLARES a table (`local -A X`, `local -a X`, `declare -A X`) may be emitted conditionally only on
  * a guard flag (a bool parameter / a local initialised from `dfa.needs_*()`), which guards the reader as well (FLAGS), or
  * the presence of an optional table (`if let Some(t) = &tables.<field>` with no further conjunct), which get_lookup_tables ties to
    those flags,
and never on the data (emptiness, counts), neither by an enclosing `if` nor by an earlier `if .. { continue }` in its loop body.
Function names, parameter positions and helper extraction do not matter: the rule looks at the conditions around each declaring
template wherever it stands."""
import re

from . import ast as A
from . import templates as TM

DECL = re.compile(r"^\s*(local|declare|typeset)\s+-[aA]\s+[\w{}$]+")
# fish: the within-word tables are GLOBAL variables (`set --global subword_X ..`, written through a scope hole `set {scope}X ..`) that
# each wrapper call overwrites; a table that is not written for one automaton keeps the entries the previous call left there
DECL_FISH = re.compile(r"^\s*set\s+(?:(?:--global|-g)\s+[\w{}$]+|\{\w+\}[\w{}$]+)")


def _is_flag(repo, fn, envs, c):
    """bool parameter, or local initialised from a `needs_*()` call, possibly negated"""
    while c["k"] == "Unary" and c["op"] == "!":
        c = c["expr"]
    if c["k"] != "Path" or "::" in c["path"]:
        return False
    env = envs.get(id(c))
    df = env.get(c["path"]) if env else None
    if df is None:
        return False
    if df.kind == "param":
        ty = (df.node or {}).get("ty") or ""
        return ty.strip() == "bool"
    if df.kind == "let" and df.init is not None:
        i = df.init
        return i["k"] == "MethodCall" and i["method"].startswith("needs_")
    return False


def _is_option_presence(c):
    """`let Some(x) = <expr>` alone (no `&&` chain)"""
    return c["k"] == "Let" and c["pat"]["k"] == "PTupleStruct" and c["pat"]["path"].split("::")[-1] == "Some"


def _bool_param(fn, envs, c, env=None):
    neg = False
    while c["k"] in ("Paren",) or (c["k"] == "Unary" and c.get("op") == "!"):
        c = c["expr"]
    if c["k"] != "Path" or "::" in c["path"]:
        return False
    t = A.resolve(c, env or envs.get(id(c)) or A.fn_env(fn))
    return t[0] == "param" and isinstance(t[1], int) and t[1] < len(fn.params) and "".join((fn.params[t[1]].get("ty") or "").split()) == "bool"


def _optional_tables_follow_flags(repo, res, rule):
    """The exemption above (`if let Some(t) = &tables.<field>` may guard a declaration) is sound only if an optional table is present
    exactly when the emitter's guard flag says so -- the same flag that guards the reader.  In the module that builds the tables:
    every place that yields `None` for a table stands under a test of one bool PARAMETER alone (no data in the condition), and the
    bool parameters are handed from builder to builder unchanged (not narrowed by `flag && <something about this automaton>`)."""
    n = 0
    fns = sorted(repo.fns_in("tables"), key=lambda f: f.node["l"])
    names = {f.name: f for f in fns}
    for fn in fns:
        envs = A.collect_envs(fn)
        pm = A.parent_map(fn.body)
        k = 0
        for x in A.walk(fn.body):
            if x["k"] == "Path" and x["path"] == "None" and id(x) in pm and pm[id(x)][0]["k"] in ("Break", "Return", "ExprStmt", "Local", "Arm", "FieldInit"):
                gs = [g for g, role in A.guards_of(x, pm) if g["k"] == "If"]
                if not gs:
                    continue  # an unconditional None (a table this shell never has)
                k += 1
                n += 1
                c = gs[0]["cond"]
                ok = _bool_param(fn, envs, c)
                res.check(ok, rule, f"{rule}:tables::{fn.name}:flag-decides-presence#{k}", f"`None` for an optional table under `{' '.join(repo.text(fn.file, c).split())[:60]}`" + ("" if ok else
                          ": the table is left out on a condition that is not one guard flag alone -- the emitted reader (guarded by the flag) then finds no table of its own and reads the caller's"), f"{fn.file}:{x['l']}")
        k = 0
        for c in A.walk(fn.body):
            if c["k"] == "Call" and c["func"]["k"] == "Path" and c["func"]["path"].split("::")[-1] in names:
                callee = names[c["func"]["path"].split("::")[-1]]
                for i, prm in enumerate(callee.params):
                    if "".join((prm.get("ty") or "").split()) == "bool" and i < len(c["args"]):
                        k += 1
                        n += 1
                        a = c["args"][i]
                        ok = _bool_param(fn, envs, a, envs.get(id(c))) or (a["k"] == "Lit" and a.get("lit") == "bool")
                        res.check(ok, rule, f"{rule}:tables::{fn.name}:flags-passed-unchanged#{k}", f"{callee.name}(.., {prm['name']} = {' '.join(repo.text(fn.file, a).split())[:40]})" + ("" if ok else
                                  ": the flag handed on is not the caller's own flag parameter: a table may be missing although the emitter's flag (and so the emitted reader) says it is there"), f"{fn.file}:{c['l']}")
    return n


def declguard_rule(repo, res, modules=("bash",), rule="DECLGUARD", advisory_modules=()):
    n = 0
    seq = {}
    # fish: the globals that the completion function empties before every within-word call (`set --global subword_X` with no value)
    # start each call empty, so writing them only when there is something to write is harmless
    cleared = set()
    if "fish" in tuple(modules) + tuple(advisory_modules):
        for fn in repo.fns_in("fish"):
            for s in TM.fmt_sites(fn, A.collect_envs(fn)):
                for line in s.template.split("\n"):
                    m = re.match(r"^\s*set\s+(?:--global|-g)\s+subword_(\w+)\s*$", line)
                    if m:
                        cleared.add(m.group(1))
    n += _optional_tables_follow_flags(repo, res, rule)
    for mod in tuple(modules) + tuple(advisory_modules):
        for fn in sorted(repo.fns_in(mod), key=lambda f: f.node["l"]):
            envs = A.collect_envs(fn)
            pm = A.parent_map(fn.body)
            for s in TM.fmt_sites(fn, envs):
                if s.macro not in ("write", "writeln"):
                    continue
                first_line = s.template.lstrip("\n").split("\n")[0]
                if mod == "fish":
                    if not DECL_FISH.match(first_line):
                        continue
                    name = mod + "." + re.sub(r"\[.*$", "", re.sub(r"\{[^}]*\}", "N", [w for w in first_line.split() if not w.startswith("-")][1]))
                else:
                    if not DECL.match(first_line):
                        continue
                    name = mod + "." + re.sub(r"\{[^}]*\}", "N", first_line.split("=")[0].split()[-1])
                n += 1
                seq[name] = seq.get(name, 0) + 1
                bad = []
                for g, role in A.guards_of(s.node, pm):
                    if g["k"] == "If":
                        c = g["cond"]
                        if _is_flag(repo, fn, envs, c) or _is_option_presence(c):
                            continue
                        bad.append("if " + " ".join(repo.text(fn.file, c).split())[:70])
                    elif g["k"] == "Arm":
                        continue
                    elif g["k"] == "ForLoop":
                        # the same test written as an adaptor on what the loop runs over; and a position counted AFTER the dropping
                        # adaptor (`.filter(..).enumerate()`) also renumbers the tables that are left
                        drops = [m["method"] for m in A.walk(g["iter"]) if m["k"] == "MethodCall" and m["method"] in ("filter", "filter_map", "skip_while", "take_while", "skip", "take", "step_by", "flat_map", "flatten")]
                        if drops:
                            bad.append("for the elements that pass `." + "/.".join(drops) + "(..)` of the loop it stands in")
                for kind, c, st in A.preceding_guards(s.node, pm):
                    # only guards inside the same loop body matter (a `continue` skips this declaration for one element)
                    if kind == "if" and any(x["k"] == "Continue" for x in A.walk(st)):
                        bad.append("after `if " + " ".join(repo.text(fn.file, c).split())[:60] + " { continue }`")
                if mod == "fish" and bad and name.split(".", 1)[1].lstrip("N") in cleared:
                    bad = []
                key = f"{rule}:{name}#{seq[name]}"
                msg = f"`{first_line.strip()[:60]}` is emitted " + ("unconditionally or under guard flags / optional-table presence only" if not bad else f"only {bad}: for an automaton where that does not hold the reader finds no table of its own -- in bash / zsh it then reads the caller's table of the same name, in fish the global one the previous within-word call left behind")
                if mod in advisory_modules:
                    if bad:
                        res.advisory(f"{rule} ({mod}, not decided: no parser for this shell here): {msg}")
                else:
                    res.check(not bad, rule, key, msg, f"{fn.file}:{s.node['l']}")
    return n
