"""DECLGUARD (engine S): a table the generated program reads is declared on every path.

In bash (and zsh) a function's `local` tables shadow the caller's variables of the same name; the shared interpreters
(`_<cmd>_subword`, the walk) read fixed table names.  If a wrapper declares one of those tables only when it has entries, then for
an automaton without entries the interpreter finds the CALLER's table of that name (dynamic scoping) and walks the wrong automaton.
So: every template that DECLARES a table (`local -A X`, `local -a X`, `declare -A X`) may be emitted conditionally only on
  * a guard flag (a bool parameter / a local initialised from `dfa.needs_*()`), which guards the reader as well (FLAGS), or
  * the presence of an optional table (`if let Some(t) = &tables.<field>` with no further conjunct), which get_lookup_tables ties to
    those flags,
and never on the data (emptiness, counts), neither by an enclosing `if` nor by an earlier `if .. { continue }` in its loop body.
Function names, parameter positions and helper extraction do not matter: the rule looks at the conditions around each declaring
template wherever it stands."""
import re

from . import ast as A
from . import templates as TM

DECL = re.compile(r"^\s*(local|declare|typeset)\s+-[aA]\s+[\w{}$]+")


def _is_flag(repo, fn, envs, c):
    """bool parameter, or local initialised from a `needs_*()` call, possibly negated"""
    while c["k"] == "Unary" and c["op"] == "!":
        c = c["expr"]
    if c["k"] != "Path" or "::" in c["path"]:
        return False
    env = envs.get(id(c))
    df = env.get(c["path"]) if env else None
    if df is None:
        return False
    if df.kind == "param":
        ty = (df.node or {}).get("ty") or ""
        return ty.strip() == "bool"
    if df.kind == "let" and df.init is not None:
        i = df.init
        return i["k"] == "MethodCall" and i["method"].startswith("needs_")
    return False


def _is_option_presence(c):
    """`let Some(x) = <expr>` alone (no `&&` chain)"""
    return c["k"] == "Let" and c["pat"]["k"] == "PTupleStruct" and c["pat"]["path"].split("::")[-1] == "Some"


def declguard_rule(repo, res, modules=("bash",), rule="DECLGUARD", advisory_modules=()):
    n = 0
    seq = {}
    for mod in tuple(modules) + tuple(advisory_modules):
        for fn in sorted(repo.fns_in(mod), key=lambda f: f.node["l"]):
            envs = A.collect_envs(fn)
            pm = A.parent_map(fn.body)
            for s in TM.fmt_sites(fn, envs):
                if s.macro not in ("write", "writeln"):
                    continue
                first_line = s.template.lstrip("\n").split("\n")[0]
                if not DECL.match(first_line):
                    continue
                name = mod + "." + re.sub(r"\{[^}]*\}", "N", first_line.split("=")[0].split()[-1])
                n += 1
                seq[name] = seq.get(name, 0) + 1
                bad = []
                for g, role in A.guards_of(s.node, pm):
                    if g["k"] == "If":
                        c = g["cond"]
                        if _is_flag(repo, fn, envs, c) or _is_option_presence(c):
                            continue
                        bad.append("if " + " ".join(repo.text(fn.file, c).split())[:70])
                    elif g["k"] == "Arm":
                        continue
                for kind, c, st in A.preceding_guards(s.node, pm):
                    # only guards inside the same loop body matter (a `continue` skips this declaration for one element)
                    if kind == "if" and any(x["k"] == "Continue" for x in A.walk(st)):
                        bad.append("after `if " + " ".join(repo.text(fn.file, c).split())[:60] + " { continue }`")
                key = f"{rule}:{name}#{seq[name]}"
                msg = f"`{first_line.strip()[:60]}` is emitted " + ("unconditionally or under guard flags / optional-table presence only" if not bad else f"only {bad}: for an automaton where that does not hold the reader finds no table of its own -- in bash it then reads the caller's table of the same name")
                if mod in advisory_modules:
                    if bad:
                        res.advisory(f"{rule} ({mod}, not decided: no parser for this shell here): {msg}")
                else:
                    res.check(not bad, rule, key, msg, f"{fn.file}:{s.node['l']}")
    return n
