"""Format-string templates of the emitters: parsing, hole -> expression mapping, emission trees (engine S)."""
import re

from . import ast as A

FMT_MACROS = {"write": 1, "writeln": 1, "format": 0, "print": 0, "println": 0, "eprint": 0, "eprintln": 0, "format_args": 0}


def parse_template(s):
    """-> list of pieces: ('lit', text) | ('hole', name_or_index_or_None, spec)"""
    out = []
    i = 0
    buf = ""
    n = len(s)
    while i < n:
        c = s[i]
        if c == "{":
            if i + 1 < n and s[i + 1] == "{":
                buf += "{"
                i += 2
                continue
            j = s.find("}", i)
            if j < 0:
                buf += s[i:]
                break
            inner = s[i + 1 : j]
            if buf:
                out.append(("lit", buf))
                buf = ""
            name, _, spec = inner.partition(":")
            name = name.strip()
            out.append(("hole", name if name != "" else None, spec))
            i = j + 1
        elif c == "}":
            if i + 1 < n and s[i + 1] == "}":
                buf += "}"
                i += 2
                continue
            buf += "}"
            i += 1
        else:
            buf += c
            i += 1
    if buf:
        out.append(("lit", buf))
    return out


class FmtSite:
    """one write!/writeln!/format!/... invocation"""

    def __init__(self, node, macro, template, pieces, holes, env, newline):
        self.node = node
        self.macro = macro
        self.template = template
        self.pieces = pieces
        self.holes = holes  # list of (piece index, name, expr node or None, env for it)
        self.env = env
        self.newline = newline


def fmt_site(node, env):
    name = node["name"].split("::")[-1]
    if name not in FMT_MACROS or "args" not in node:
        return None
    args = node["args"]
    skip = FMT_MACROS[name]
    if len(args) <= skip:
        if name == "writeln" and len(args) == 1:
            return FmtSite(node, name, "", [], [], env, True)
        return None
    t = args[skip]
    if t["k"] != "Lit" or t.get("lit") != "str":
        return None
    template = t["v"]
    pieces = parse_template(template)
    rest = args[skip + 1 :]
    positional = [a for a in rest if not (a["k"] == "Assign" and a["left"]["k"] == "Path" and "::" not in a["left"]["path"])]
    named = {a["left"]["path"]: a["right"] for a in rest if a["k"] == "Assign" and a["left"]["k"] == "Path" and "::" not in a["left"]["path"]}
    holes = []
    pos = 0
    for idx, p in enumerate(pieces):
        if p[0] != "hole":
            continue
        nm = p[1]
        expr = None
        if nm is None:
            expr = positional[pos] if pos < len(positional) else None
            pos += 1
        elif nm.isdigit():
            expr = positional[int(nm)] if int(nm) < len(positional) else None
        elif nm in named:
            expr = named[nm]
        else:
            # inline capture of a local / const
            expr = {"k": "Path", "path": nm, "l": node["l"], "c": node["c"], "el": node["el"], "ec": node["ec"]}
        holes.append((idx, nm, expr))
    return FmtSite(node, name, template, pieces, holes, env, name in ("writeln", "println", "eprintln"))


def _display_template(repo, tyname):
    """(pieces, holes, field-of-name map) of `impl Display for <tyname>` when its fmt is one write!(f, "..", ..) (after an optional
    `let Self { a, b } = self;`); None otherwise"""
    for module, sty, tr, it, rel in getattr(repo, "impls", []):
        if not tr or tr.split("::")[-1] != "Display" or sty.split("<")[0] != tyname:
            continue
        fm = [x for x in it.get("items", []) if x.get("k") == "Fn" and x.get("name") == "fmt"]
        if len(fm) != 1 or fm[0]["body"].get("k") != "Block":
            return None
        st = fm[0]["body"]["stmts"]
        names = {}
        for x in st[:-1]:
            if x.get("k") == "Local" and x["pat"].get("k") == "PStruct" and x.get("init") is not None and x["init"].get("k") == "Path" and x["init"]["path"] == "self":
                for fl in x["pat"]["fields"]:
                    if fl["pat"].get("k") == "PIdent":
                        names[fl["pat"]["name"]] = fl["name"]
            else:
                return None
        last = st[-1].get("expr") if st and st[-1].get("k") == "ExprStmt" else None
        if not isinstance(last, dict) or last.get("k") != "Macro" or last.get("name", "").split("::")[-1] != "write":
            return None
        inner = fmt_site(last, None)
        if inner is None:
            return None
        return inner.pieces, inner.holes, names
    return None


def _expand_display(s, repo):
    """a hole filled with a value of a crate type whose Display impl is a single template is that template, with the fields the value
    was built from in its holes (`format!("{}{}", Location { path, span }, msg)` reads as `format!("{}:{}:{}:{}", path, span.line, ..)`)"""
    import copy
    changed = False
    new_pieces, queue = [], []
    hole_at = {h[0]: h for h in s.holes}
    for idx, p in enumerate(s.pieces):
        if p[0] != "hole" or idx not in hole_at:
            new_pieces.append(p)
            continue
        _i, nm, e = hole_at[idx]
        lit = e
        while isinstance(lit, dict) and lit.get("k") in ("Ref", "Paren"):
            lit = lit["expr"]
        if isinstance(lit, dict) and lit.get("k") == "Path" and "::" not in lit["path"] and s.env is not None:
            df = s.env.get(lit["path"])
            lit = df.init if df is not None and df.kind == "let" and not df.proj and df.init is not None else None
        tpl = _display_template(repo, lit["path"].split("::")[-1]) if isinstance(lit, dict) and lit.get("k") == "Struct" and (p[2] if len(p) > 2 else "") in ("", None) else None
        if tpl is None:
            new_pieces.append(p)
            queue.append((nm, e))
            continue
        ipieces, iholes, names = tpl
        fields = {fi["name"]: fi["expr"] for fi in lit["fields"]}
        ih = {h[0]: h for h in iholes}
        for j, q in enumerate(ipieces):
            new_pieces.append(q)
            if q[0] == "hole" and j in ih:
                x = copy.deepcopy(ih[j][2])
                for y in [x] + list(A.walk(x)):
                    if y.get("k") == "Field" and y["base"].get("k") == "Path" and y["base"]["path"] == "self" and y["member"] in fields:
                        repl = copy.deepcopy(fields[y["member"]])
                        y.clear()
                        y.update(repl)
                    elif y.get("k") == "Path" and y.get("path") in names and names[y["path"]] in fields:
                        repl = copy.deepcopy(fields[names[y["path"]]])
                        y.clear()
                        y.update(repl)
                queue.append((ih[j][1] if not (ih[j][1] or "").isdigit() else None, x))
        changed = True
    if not changed:
        return s
    holes, qi = [], 0
    for idx, p in enumerate(new_pieces):
        if p[0] == "hole" and qi < len(queue):
            holes.append((idx, queue[qi][0], queue[qi][1]))
            qi += 1
    template = "".join(p[1] if p[0] == "lit" else "{}" for p in new_pieces)
    return FmtSite(s.node, s.macro, template, new_pieces, holes, s.env, s.newline)


def fmt_sites(fn, envs=None):
    """all format-like macro invocations in a function, in source order, with their environments"""
    if envs is None:
        envs = A.collect_envs(fn)
    repo = None
    try:
        from . import core
        repo = core._repo
    except Exception:
        repo = None
    out = []
    for n in A.walk(fn.body):
        if n["k"] == "Macro":
            env = envs.get(id(n))
            s = fmt_site(n, env)
            if s is not None:
                if repo is not None and s.holes:
                    try:
                        s = _expand_display(s, repo)
                    except Exception:
                        pass
                out.append(s)
    out.sort(key=lambda s: A.pos(s.node))
    return out
