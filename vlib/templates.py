"""Format-string templates of the emitters: parsing, hole -> expression mapping, emission trees (engine S)."""
import re

from . import ast as A

FMT_MACROS = {"write": 1, "writeln": 1, "format": 0, "print": 0, "println": 0, "eprint": 0, "eprintln": 0, "format_args": 0}


def parse_template(s):
    """-> list of pieces: ('lit', text) | ('hole', name_or_index_or_None, spec)"""
    out = []
    i = 0
    buf = ""
    n = len(s)
    while i < n:
        c = s[i]
        if c == "{":
            if i + 1 < n and s[i + 1] == "{":
                buf += "{"
                i += 2
                continue
            j = s.find("}", i)
            if j < 0:
                buf += s[i:]
                break
            inner = s[i + 1 : j]
            if buf:
                out.append(("lit", buf))
                buf = ""
            name, _, spec = inner.partition(":")
            name = name.strip()
            out.append(("hole", name if name != "" else None, spec))
            i = j + 1
        elif c == "}":
            if i + 1 < n and s[i + 1] == "}":
                buf += "}"
                i += 2
                continue
            buf += "}"
            i += 1
        else:
            buf += c
            i += 1
    if buf:
        out.append(("lit", buf))
    return out


class FmtSite:
    """one write!/writeln!/format!/... invocation"""

    def __init__(self, node, macro, template, pieces, holes, env, newline):
        self.node = node
        self.macro = macro
        self.template = template
        self.pieces = pieces
        self.holes = holes  # list of (piece index, name, expr node or None, env for it)
        self.env = env
        self.newline = newline


def fmt_site(node, env):
    name = node["name"].split("::")[-1]
    if name not in FMT_MACROS or "args" not in node:
        return None
    args = node["args"]
    skip = FMT_MACROS[name]
    if len(args) <= skip:
        if name == "writeln" and len(args) == 1:
            return FmtSite(node, name, "", [], [], env, True)
        return None
    t = args[skip]
    if t["k"] != "Lit" or t.get("lit") != "str":
        return None
    template = t["v"]
    pieces = parse_template(template)
    rest = args[skip + 1 :]
    positional = [a for a in rest if not (a["k"] == "Assign" and a["left"]["k"] == "Path" and "::" not in a["left"]["path"])]
    named = {a["left"]["path"]: a["right"] for a in rest if a["k"] == "Assign" and a["left"]["k"] == "Path" and "::" not in a["left"]["path"]}
    holes = []
    pos = 0
    for idx, p in enumerate(pieces):
        if p[0] != "hole":
            continue
        nm = p[1]
        expr = None
        if nm is None:
            expr = positional[pos] if pos < len(positional) else None
            pos += 1
        elif nm.isdigit():
            expr = positional[int(nm)] if int(nm) < len(positional) else None
        elif nm in named:
            expr = named[nm]
        else:
            # inline capture of a local / const
            expr = {"k": "Path", "path": nm, "l": node["l"], "c": node["c"], "el": node["el"], "ec": node["ec"]}
        holes.append((idx, nm, expr))
    return FmtSite(node, name, template, pieces, holes, env, name in ("writeln", "println", "eprintln"))


def fmt_sites(fn, envs=None):
    """all format-like macro invocations in a function, in source order, with their environments"""
    if envs is None:
        envs = A.collect_envs(fn)
    out = []
    for n in A.walk(fn.body):
        if n["k"] == "Macro":
            env = envs.get(id(n))
            s = fmt_site(n, env)
            if s is not None:
                out.append(s)
    out.sort(key=lambda s: (s.node["l"], s.node["c"]))
    return out
