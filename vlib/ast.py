"""Syntax-tree access layer over the JSON produced by tools/srcfacts (engine S).

Gives: a function index keyed by `module::[Type::]fn`, enum/struct definitions, a tree walker,
source-text slices, and the provenance resolver used by the rule layer (TC/RP/FF/TR/...).
Nothing in here knows about any particular property.
"""
import json
import os
import re

TRANSPARENT_METHODS = {"clone", "to_owned", "copied", "cloned", "take"}  # only without arguments (Option::take moves the value out; Iterator::take(n) has an argument)


def walk(n):
    """Pre-order walk over every dict node that has a kind."""
    stack = [n]
    while stack:
        x = stack.pop()
        if isinstance(x, dict):
            if "k" in x:
                yield x
            for v in reversed(list(x.values())):
                if isinstance(v, (dict, list)):
                    stack.append(v)
        elif isinstance(x, list):
            for v in reversed(x):
                if isinstance(v, (dict, list)):
                    stack.append(v)


def norm_ty(t):
    if t is None:
        return None
    t = re.sub(r"\s+", " ", t).strip()
    t = re.sub(r"\s*::\s*", "::", t)
    t = re.sub(r"\s*<\s*", "<", t)
    t = re.sub(r"\s*>", ">", t)
    t = re.sub(r"\s*,\s*", ", ", t)
    t = re.sub(r"&\s+", "&", t)
    t = re.sub(r"\(\s+", "(", t)
    t = re.sub(r"\s+\)", ")", t)
    t = re.sub(r"\[\s+", "[", t)
    t = re.sub(r"\s+\]", "]", t)
    t = re.sub(r"'\s*(\w+)\s+", r"'\1 ", t)
    return t


class Fn:
    def __init__(self, qname, module, node, file, self_ty=None, trait=None, parent=None):
        self.qname = qname
        self.module = module
        self.node = node
        self.file = file
        self.self_ty = self_ty
        self.trait = trait
        self.parent = parent
        self.name = node["name"]
        self.params = node["params"]
        self.body = node["body"]

    def __repr__(self):
        return f"<Fn {self.qname}>"

    def loc(self):
        return f"{self.file}:{self.node['l']}"


class Repo:
    def __init__(self, ast_json, root, _data=None):
        self.root = root
        self.renames = {}
        self.rename_log = []
        self.files = {}  # rel path -> {items}
        self.src = {}  # rel path -> list of lines
        self.fns = {}
        self.enums = {}
        self.structs = {}
        self.consts = {}
        self.aliases = {}
        self.impls = []  # (module, self_ty, trait, node)
        self.uses = {}  # module -> [use tree strings]
        if _data is None:
            with open(ast_json) as f:
                data = json.load(f)
        else:
            data = _data
        self._data = data
        for path, content in data.items():
            rel = os.path.relpath(path, root)
            self.files[rel] = content
            with open(path, encoding="utf-8", errors="replace") as sf:
                self.src[rel] = sf.read().split("\n")
            module = os.path.splitext(os.path.basename(rel))[0]
            self.uses[module] = []
            self._index_items(content["items"], module, rel)

    # ------------------------------------------------------------------ indexing
    def _index_items(self, items, module, rel, prefix=None):
        for it in items:
            k = it["k"]
            if it.get("cfg_test"):
                continue
            if k == "Fn":
                self._add_fn(it, module, rel, prefix)
            elif k == "Impl":
                sty = norm_ty(it["self_ty"])
                tr = norm_ty(it["trait"])
                self.impls.append((module, sty, tr, it, rel))
                base = re.sub(r"<.*", "", sty)
                for sub in it["items"]:
                    if sub["k"] == "Fn" and not sub.get("cfg_test"):
                        if tr:
                            trb = re.sub(r"<.*", "", tr).split("::")[-1]
                            q = f"{module}::<{sty} as {trb}>::{sub['name']}"
                        else:
                            q = f"{module}::{base}::{sub['name']}"
                        self._add_fn(sub, module, rel, None, q, sty, tr)
            elif k == "EnumDef":
                self.enums[f"{module}::{it['name']}"] = it
                it["_file"] = rel
                it["_module"] = module
            elif k == "StructDef":
                self.structs[f"{module}::{it['name']}"] = it
                it["_file"] = rel
                it["_module"] = module
            elif k == "Const":
                self.consts[f"{module}::{it['name']}"] = it
                it["_file"] = rel
            elif k == "TypeAlias":
                self.aliases[f"{module}::{it['name']}"] = it
            elif k == "Use":
                self.uses[module].append(it["tree"])
            elif k == "Mod" and it.get("inline"):
                self._index_items(it["items"], module, rel, prefix)

    def _add_fn(self, node, module, rel, prefix, qname=None, self_ty=None, trait=None):
        if qname is None:
            qname = f"{module}::{node['name']}" if not prefix else f"{prefix}::{node['name']}"
        fn = Fn(qname, module, node, rel, self_ty, trait)
        if qname in self.fns:
            # same name twice (e.g. two impls): disambiguate by line
            qname = f"{qname}@{node['l']}"
            fn.qname = qname
        self.fns[qname] = fn
        # nested fns
        for st in node["body"]["stmts"]:
            if st["k"] == "ItemStmt" and st["item"]["k"] == "Fn":
                self._add_fn(st["item"], module, rel, qname)

    # ------------------------------------------------------------------ lookups
    def fn(self, qname):
        return self.fns.get(qname)

    def enum(self, name):
        """name like 'Expr' or 'parse::Expr'"""
        if name in self.enums:
            return self.enums[name]
        c = [v for k, v in self.enums.items() if k.split("::")[-1] == name]
        return c[0] if len(c) == 1 else None

    def struct(self, name):
        if name in self.structs:
            return self.structs[name]
        c = [v for k, v in self.structs.items() if k.split("::")[-1] == name]
        return c[0] if len(c) == 1 else None

    def variant_fields(self, enum_name, variant):
        e = self.enum(enum_name)
        if not e:
            return None
        for v in e["variants"]:
            if v["name"] == variant:
                return [(f["name"], norm_ty(f["ty"])) for f in v["fields"]]
        return None

    def text(self, file, node):
        lines = self.src[file]
        l, c, el, ec = node["l"] - 1, node["c"], node["el"] - 1, node["ec"]
        if l == el:
            return lines[l][c:ec]
        out = [lines[l][c:]]
        out.extend(lines[l + 1 : el])
        out.append(lines[el][:ec])
        return "\n".join(out)

    def fns_in(self, module):
        return [f for f in self.fns.values() if f.module == module]


# ---------------------------------------------------------------------- provenance
class Def:
    """One definition of a local name."""

    __slots__ = ("kind", "name", "node", "init", "env", "proj", "extra", "orprojs")

    def __init__(self, kind, name, node=None, init=None, env=None, proj=(), extra=None, orprojs=None):
        self.orprojs = orprojs  # or-pattern `A { x } | B { x }`: the other paths by which the same name is bound
        self.kind = kind  # param | let | bind | elem | closure
        self.name = name
        self.node = node
        self.init = init  # expression the value is taken from (let / scrutinee / iterable)
        self.env = env  # env in which init must be resolved
        self.proj = proj  # path inside a destructuring pattern
        self.extra = extra


class Env:
    """Persistent name -> Def map (Rust shadowing = rebinding)."""

    def __init__(self, d=None):
        self.d = d or {}

    def bind(self, name, df):
        nd = dict(self.d)
        nd[name] = df
        return Env(nd)

    def get(self, name):
        return self.d.get(name)


def pat_bindings(p, proj=()):
    """Yield (name, proj) for every identifier bound by pattern p.
    proj elements: ('variant', path, field) | ('tuple', i) | ('ref',) | ('slice', i)"""
    if p is None:
        return
    k = p["k"]
    if k == "PIdent":
        yield p["name"], proj
        if p.get("sub"):
            yield from pat_bindings(p["sub"], proj)
    elif k == "PStruct":
        for f in p["fields"]:
            yield from pat_bindings(f["pat"], proj + (("variant", p["path"], f["name"]),))
    elif k == "PTupleStruct":
        for i, e in enumerate(p["elems"]):
            yield from pat_bindings(e, proj + (("variant", p["path"], str(i)),))
    elif k == "PTuple":
        for i, e in enumerate(p["elems"]):
            yield from pat_bindings(e, proj + (("tuple", i),))
    elif k == "PSlice":
        for i, e in enumerate(p["elems"]):
            yield from pat_bindings(e, proj + (("slice", i),))
    elif k == "PRef":
        yield from pat_bindings(p["pat"], proj)
    elif k == "PType":
        yield from pat_bindings(p["pat"], proj)
    elif k == "POr":
        # all cases bind the same names; take them all (same name may appear several times)
        for c in p["cases"]:
            yield from pat_bindings(c, proj)


def pat_variants(p):
    """Variants named by a pattern at top level: list of (path, pattern node)."""
    k = p["k"]
    if k in ("PStruct", "PTupleStruct", "PPath"):
        return [(p["path"], p)]
    if k == "POr":
        out = []
        for c in p["cases"]:
            out.extend(pat_variants(c))
        return out
    if k == "PRef":
        return pat_variants(p["pat"])
    if k == "PIdent" and p.get("sub"):
        return pat_variants(p["sub"])
    return []


def bind_pattern(env, pat, init, init_env, kind="let", node=None):
    by_name = {}
    for name, proj in pat_bindings(pat):
        by_name.setdefault(name, []).append(proj)
    for name, projs in by_name.items():
        env = env.bind(name, Def(kind, name, node=node, init=init, env=init_env, proj=projs[0], orprojs=projs[1:] or None))
    return env


def fn_env(fn):
    env = Env()
    for i, p in enumerate(fn.params):
        if p["name"]:
            env = env.bind(p["name"], Def("param", p["name"], node=p, extra=i))
        elif p.get("pat"):
            for name, proj in pat_bindings(p["pat"]):
                env = env.bind(name, Def("param", name, node=p, extra=i, proj=proj))
    return env


class Scoper:
    """Walks a function body in evaluation order, calling `visit(expr, env)` for every expression
    node with the environment in force at that point.  Handles let, if-let, match arms, closures,
    for loops, let-else and let chains."""

    def __init__(self, visit):
        self.visit = visit

    def block(self, b, env):
        for st in b["stmts"]:
            env = self.stmt(st, env)
        return env

    def stmt(self, st, env):
        k = st["k"]
        if k == "Local":
            init = st.get("init")
            if init is not None:
                self.expr(init, env)
            if st.get("else") is not None:
                self.expr(st["else"], env)
            return bind_pattern(env, st["pat"], init, env, "let", st)
        if k == "ExprStmt":
            self.expr(st["expr"], env)
            return env
        return env

    def cond(self, c, env):
        """Evaluate a condition; returns env extended by `let` bindings (for the then-branch)."""
        if c["k"] == "Let":
            self.visit(c, env)
            self.expr(c["expr"], env)
            return bind_pattern(env, c["pat"], c["expr"], env, "bind", c)
        if c["k"] == "Binary" and c["op"] == "&&":
            self.visit(c, env)
            env2 = self.cond(c["left"], env)
            return self.cond(c["right"], env2)
        self.expr(c, env)
        return env

    def expr(self, e, env):
        if e is None:
            return
        self.visit(e, env)
        k = e["k"]
        if k == "Block":
            self.block(e, env)
        elif k == "If":
            env2 = self.cond(e["cond"], env)
            self.block(e["then"], env2)
            if e["else"] is not None:
                self.expr(e["else"], env)
        elif k == "Match":
            self.expr(e["scrut"], env)
            for arm in e["arms"]:
                aenv = bind_pattern(env, arm["pat"], e["scrut"], env, "bind", arm)
                if arm["guard"] is not None:
                    aenv = self.cond(arm["guard"], aenv)
                self.expr(arm["body"], aenv)
        elif k == "Closure":
            cenv = env
            for i, p in enumerate(e["params"]):
                for name, proj in pat_bindings(p):
                    cenv = cenv.bind(name, Def("closure", name, node=e, proj=proj, extra=i, env=env))
            self.expr(e["body"], cenv)
        elif k == "ForLoop":
            self.expr(e["iter"], env)
            benv = bind_pattern(env, e["pat"], e["iter"], env, "elem", e)
            self.block(e["body"], benv)
        elif k == "While":
            env2 = self.cond(e["cond"], env)
            self.block(e["body"], env2)
        elif k == "Loop":
            self.block(e["body"], env)
        elif k == "Unsafe":
            self.block(e["body"], env)
        elif k == "MethodCall":
            self.expr(e["recv"], env)
            self._closure_args(e, env)
        elif k == "Call":
            self.expr(e["func"], env)
            for a in e["args"]:
                self.expr(a, env)
        elif k == "Macro":
            for a in e.get("args", []) or []:
                self.expr(a, env)
        elif k == "Struct":
            for f in e["fields"]:
                self.expr(f["expr"], env)
            if e.get("rest"):
                self.expr(e["rest"], env)
        elif k == "Let":
            self.expr(e["expr"], env)
        else:
            for key in ("expr", "left", "right", "base", "index", "start", "end", "len"):
                v = e.get(key)
                if isinstance(v, dict):
                    self.expr(v, env)
            for key in ("elems",):
                for v in e.get(key, []) or []:
                    self.expr(v, env)

    def _closure_args(self, mc, env):
        for a in mc["args"]:
            if a["k"] == "Closure":
                # closure params take their values from the receiver (iterator element)
                cenv = env
                for i, p in enumerate(a["params"]):
                    for name, proj in pat_bindings(p):
                        cenv = cenv.bind(
                            name,
                            Def("elem", name, node=mc, init=mc["recv"], env=env, proj=proj, extra=(mc["method"], i)),
                        )
                self.visit(a, env)
                self.expr(a["body"], cenv)
            else:
                self.expr(a, env)


def collect_envs(fn):
    """Map id(expr node) -> Env for every expression in fn's body."""
    envs = {}

    def visit(e, env):
        envs[id(e)] = env

    s = Scoper(visit)
    s.block(fn.body, fn_env(fn))
    return envs


# Provenance terms are nested tuples; see DESIGN §3 "provenance terms".
def resolve(e, env, depth=0):
    if e is None:
        return ("none",)
    if depth > 40:
        return ("deep",)
    k = e["k"]
    if k == "Path":
        name = e["path"]
        if "::" not in name:
            df = env.get(name) if env else None
            if df is not None:
                return resolve_def(df, depth + 1)
        return ("path", name)
    if k == "Unary" and e["op"] == "*":
        return resolve(e["expr"], env, depth + 1)
    if k == "Unary":
        return ("un", e["op"], resolve(e["expr"], env, depth + 1))
    if k == "Ref":
        return resolve(e["expr"], env, depth + 1)
    if k == "MethodCall":
        if e["method"] in TRANSPARENT_METHODS and not e["args"]:
            return resolve(e["recv"], env, depth + 1)
        # `opt.map_or(d, |v| body)` is `match opt { Some(v) => body, None => d }`
        if e["method"] == "map_or" and len(e["args"]) == 2 and e["args"][1]["k"] == "Closure" and len(e["args"][1]["params"]) == 1:
            clo = e["args"][1]
            cenv = bind_pattern(env, {"k": "PTupleStruct", "path": "Some", "elems": [clo["params"][0]]}, e["recv"], env, "bind", clo)
            return mk_alt([resolve(clo["body"], cenv, depth + 1), resolve(e["args"][0], env, depth + 1)], ("match", resolve(e["recv"], env, depth + 1)))
        args = []
        for a in e["args"]:
            if a["k"] == "Closure":
                args.append(("closure", id(a)))
            else:
                args.append(resolve(a, env, depth + 1))
        return ("mcall", e["method"], resolve(e["recv"], env, depth + 1), tuple(args))
    if k == "Call":
        f = e["func"]
        if f["k"] == "Path":
            fname = f["path"]
        elif f["k"] == "Call":
            fname = show(resolve(f, env, depth + 1))  # curried combinator: char('@')(input)
        else:
            fname = "?"
        rargs = tuple(resolve(a, env, depth + 1) for a in e["args"])
        if fname in ("Some", "Ok") and len(rargs) == 1 and rargs[0][0] == "bind" and rargs[0][1] == fname and str(rargs[0][2]) == "0" and len(rargs[0]) > 3 and isinstance(rargs[0][3], tuple):
            # `Some(x)` where `Some(x) = E` was matched: the option E itself, put together again
            return rargs[0][3]
        return ("call", fname, rargs)
    if k == "Lit":
        return ("lit", e["v"])
    if k == "Field":
        return ("field", resolve(e["base"], env, depth + 1), e["member"])
    if k == "Index":
        return ("index", resolve(e["base"], env, depth + 1), resolve(e["index"], env, depth + 1))
    if k == "Cast":
        return ("cast", resolve(e["expr"], env, depth + 1), norm_ty(e["ty"]))
    if k == "Binary":
        return ("bin", e["op"], resolve(e["left"], env, depth + 1), resolve(e["right"], env, depth + 1))
    if k == "Tuple":
        return ("tuple", tuple(resolve(x, env, depth + 1) for x in e["elems"]))
    if k == "Array":
        return ("array", tuple(resolve(x, env, depth + 1) for x in e["elems"]))
    if k == "Struct":
        return (
            "ctor",
            e["path"],
            tuple((f["name"], resolve(f["expr"], env, depth + 1)) for f in e["fields"]),
        )
    if k == "Try":
        return ("try", resolve(e["expr"], env, depth + 1))
    if k == "Macro":
        return ("macro", e["name"], tuple(resolve(a, env, depth + 1) for a in (e.get("args") or [])))
    if k == "Block":
        # value of a block = its last expression without semicolon, in the block's own scope
        benv = env
        last = None
        for st in e["stmts"]:
            if st["k"] == "Local":
                benv = bind_pattern(benv, st["pat"], st.get("init"), benv, "let", st)
                last = None
            elif st["k"] == "ExprStmt":
                last = st if not st["semi"] else None
        if last is not None:
            return resolve(last["expr"], benv, depth + 1)
        return ("unit",)
    if k == "If":
        alts = []
        cenv = env
        c = e["cond"]
        if c["k"] == "Let":
            cenv = bind_pattern(env, c["pat"], c["expr"], env, "bind", c)
        if not diverges(e["then"]):
            alts.append(resolve(e["then"], cenv, depth + 1))
        if e["else"] is not None and not diverges(e["else"]):
            alts.append(resolve(e["else"], env, depth + 1))
        return mk_alt(alts, ("if", resolve(c["expr"] if c["k"] == "Let" else c, env, depth + 1)))
    if k == "Match":
        alts = []
        for arm in e["arms"]:
            if diverges(arm["body"]):
                continue
            aenv = bind_pattern(env, arm["pat"], e["scrut"], env, "bind", arm)
            alts.append(resolve(arm["body"], aenv, depth + 1))
        return mk_alt(alts, ("match", resolve(e["scrut"], env, depth + 1)))
    if k == "Closure":
        return ("closure", id(e))
    return ("expr", k)


DIVERGING_MACROS = {"unreachable", "panic", "todo", "unimplemented"}
DIVERGING_CALLS = {"exit", "std::process::exit", "process::exit"}


def diverges(e):
    """Syntactic 'this expression never yields a value' (return / break / continue / exit / panic)."""
    if e is None:
        return False
    k = e["k"]
    if k in ("Return", "Break", "Continue"):
        return True
    if k == "Macro":
        return e["name"].split("::")[-1] in DIVERGING_MACROS
    if k == "Call":
        return e["func"]["k"] == "Path" and e["func"]["path"] in DIVERGING_CALLS
    if k == "Block":
        for st in e["stmts"]:
            if st["k"] == "ExprStmt" and diverges(st["expr"]):
                return True
        return False
    return False


def mk_alt(alts, why):
    flat = []
    for a in alts:
        if a[0] == "alt":
            flat.extend(a[1])
        else:
            flat.append(a)
    if len(flat) == 1:
        return flat[0]
    return ("alt", tuple(flat), why)


FRESH = {"default", "new", "with_capacity"}


def is_fresh_container(p):
    if p[0] == "call" and p[1].split("::")[-1] in FRESH and all(a[0] in ("lit",) for a in p[2]):
        return True
    if p[0] == "macro" and p[1] == "vec" and not p[2]:
        return True
    return False


def apply_proj(p, proj):
    for i, step in enumerate(proj):
        if p[0] == "alt":
            return mk_alt([apply_proj(a, proj[i:]) for a in p[1]], p[2])
        if step[0] == "tuple" and p[0] == "tuple" and step[1] < len(p[1]):
            p = p[1][step[1]]
        elif step[0] == "variant":
            p = ("bind", step[1], step[2], p)
        elif step[0] == "tuple":
            p = ("proj", p, step[1])
        elif step[0] == "slice":
            p = ("slice", p, step[1])
    return p


def resolve_def(df, depth=0):
    if df.orprojs:
        outs = []
        for pr in [df.proj] + list(df.orprojs):
            d2 = Def(df.kind, df.name, node=df.node, init=df.init, env=df.env, proj=pr, extra=df.extra)
            outs.append(resolve_def(d2, depth))
        return mk_alt(outs, "or-pattern")
    if df.kind == "param":
        p = ("param", df.extra, df.name)
        return apply_proj(p, df.proj)
    if df.kind in ("let", "bind"):
        if df.init is None:
            return ("uninit", df.name)
        base = resolve(df.init, df.env, depth + 1)
        if df.kind == "let" and not df.proj and is_fresh_container(base):
            # a local that starts empty and is filled by mutation: keep its identity
            return ("local", df.name, df.node["l"] if df.node else 0, base)
        return apply_proj(base, df.proj)
    if df.kind == "elem":
        base = resolve(df.init, df.env, depth + 1)
        via = df.extra if df.extra else ("for", 0)
        p = ("elem", base, via)
        return apply_proj(p, df.proj)
    if df.kind == "closure":
        return apply_proj(("cparam", df.extra, df.name), df.proj)
    return ("unknown", df.kind)


def show(p):
    """Compact printable form of a provenance term."""
    if not isinstance(p, tuple):
        return str(p)
    t = p[0]
    if t == "path":
        return p[1]
    if t == "param":
        return f"param#{p[1]}({p[2]})"
    if t == "bind":
        inner = show(p[3])
        return f"{p[1]}.{p[2]}<-{inner}" if inner else f"{p[1]}.{p[2]}"
    if t == "elem":
        return f"elem[{show(p[1])}]"
    if t == "call":
        return f"{p[1]}({', '.join(show(a) for a in p[2])})"
    if t == "mcall":
        return f"{show(p[2])}.{p[1]}({', '.join(show(a) for a in p[3])})"
    if t == "lit":
        return repr(p[1])
    if t == "field":
        return f"{show(p[1])}.{p[2]}"
    if t == "index":
        return f"{show(p[1])}[{show(p[2])}]"
    if t == "cast":
        return f"({show(p[1])} as {p[2]})"
    if t == "bin":
        return f"({show(p[2])} {p[1]} {show(p[3])})"
    if t == "un":
        return f"{p[1]}{show(p[2])}"
    if t == "tuple":
        return "(" + ", ".join(show(a) for a in p[1]) + ")"
    if t == "array":
        return "[" + ", ".join(show(a) for a in p[1]) + "]"
    if t == "proj":
        return f"{show(p[1])}.{p[2]}"
    if t == "ctor":
        return p[1] + "{" + ", ".join(f"{n}: {show(v)}" for n, v in p[2]) + "}"
    if t == "try":
        return show(p[1]) + "?"
    if t == "macro":
        return f"{p[1]}!({', '.join(show(a) for a in p[2])})"
    if t == "closure":
        return "<closure>"
    if t == "cparam":
        return f"cparam#{p[1]}({p[2]})"
    if t == "alt":
        return "{" + " | ".join(show(a) for a in p[1]) + "}"
    if t == "local":
        return f"{p[1]}@L{p[2]}"
    return "<" + t + ">"


def subterms(p):
    """Direct sub-terms of a provenance term (by tag, so that names/strings are never mistaken
    for terms)."""
    if not isinstance(p, tuple) or not p:
        return []
    t = p[0]
    if t == "bind":
        return [p[3]]
    if t in ("elem", "field", "proj", "slice", "try"):
        return [p[1]]
    if t == "cast":
        return [p[1]]
    if t == "un":
        return [p[2]]
    if t == "call":
        return list(p[2])
    if t == "mcall":
        return [p[2]] + [a for a in p[3]]
    if t == "index":
        return [p[1], p[2]]
    if t == "bin":
        return [p[2], p[3]]
    if t in ("tuple", "array"):
        return list(p[1])
    if t == "ctor":
        return [v for _, v in p[2]]
    if t == "macro":
        return list(p[2])
    if t == "alt":
        return list(p[1])
    return []


def roots(p, out=None):
    """All leaf origins of a provenance term: binds (variant, field), params, paths."""
    if out is None:
        out = []
    if not isinstance(p, tuple) or not p:
        return out
    t = p[0]
    if t == "bind":
        out.append(("bind", p[1], p[2]))
    elif t == "param":
        out.append(("param", p[1], p[2]))
    elif t == "path":
        out.append(("path", p[1]))
    elif t == "cparam":
        out.append(("cparam", p[1], p[2]))
    for x in subterms(p):
        roots(x, out)
    return out


def contains(p, pred):
    if pred(p):
        return True
    return any(contains(x, pred) for x in subterms(p))


# ---------------------------------------------------------------------- structure queries
def parent_map(root):
    """id(node) -> (parent node, key under which it hangs)"""
    pm = {}
    stack = [(root, None, None)]
    while stack:
        x, par, key = stack.pop()
        if isinstance(x, dict):
            if "k" in x:
                if par is not None:
                    pm[id(x)] = (par, key)
                par2 = x
            else:
                par2 = par
            for kk, v in x.items():
                if isinstance(v, (dict, list)):
                    stack.append((v, par2, kk if "k" in x else key))
        elif isinstance(x, list):
            for v in x:
                if isinstance(v, (dict, list)):
                    stack.append((v, par, key))
    return pm


CONDITIONAL = {"If", "Arm", "Closure", "While", "ForLoop", "Loop"}


def guards_of(node, pm, stop=None):
    """Enclosing constructs that make `node`'s evaluation conditional or repeated, innermost first:
    list of (construct node, role) where role is the key under the construct (then/else/body/cond...)."""
    out = []
    cur = node
    while id(cur) in pm:
        par, key = pm[id(cur)]
        if stop is not None and par is stop:
            break
        if par["k"] in CONDITIONAL:
            if not (par["k"] in ("If", "While") and key == "cond") and not (par["k"] == "ForLoop" and key == "iter"):
                out.append((par, key))
        elif par["k"] == "Binary" and par["op"] in ("&&", "||") and key == "right":
            out.append((par, key))
        cur = par
    return out


def top_stmt_index(fn, node, pm):
    """Index of the top-level statement of fn's body that contains node."""
    cur = node
    while id(cur) in pm:
        par, key = pm[id(cur)]
        if par is fn.body:
            return fn.body["stmts"].index(cur)
        cur = par
    return None


def pos(n):
    """evaluation-order position: the source position, or for code of a helper that is read in place of its call (canon.
    inline_new_helpers) the end of that call followed by the node's rank inside the helper"""
    o = n.get("o")
    return tuple(o) if o else (n["l"], n["c"])


def before(a, b):
    """source order"""
    return pos(a) < pos(b)


ERR_ADAPTORS = {"map_err", "context", "with_context", "inspect_err"}


def propagates(node, pm):
    """the Result this call gives leaves the function on error: `call(..)?`, possibly through error-decorating adaptors
    (`.map_err(..)?`, `.context(..)?`), or the call is the function's own result (tail expression / `return call(..)`)"""
    cur = node
    while id(cur) in pm:
        par, key = pm[id(cur)]
        if par["k"] == "MethodCall" and key == "recv" and par["method"] in ERR_ADAPTORS:
            cur = par
            continue
        if par["k"] == "Try":
            return True
        if par["k"] == "Return":
            return True
        return False
    return False


def err_adaptors_above(node, pm):
    """the error-decorating method calls between a call and its `?`"""
    out, cur = [], node
    while id(cur) in pm:
        par, key = pm[id(cur)]
        if par["k"] == "MethodCall" and key == "recv" and par["method"] in ERR_ADAPTORS:
            out.append(par)
            cur = par
            continue
        break
    return out


def preceding_guards(node, pm):
    """Early-exit guards that dominate `node` syntactically: for every enclosing block, each earlier
    sibling statement of the form `if C { ..diverges.. }` (no else) or `let P = E else { diverges }`.
    Returns list of ('if', cond_node, stmt) / ('letelse', local_node, stmt), nearest first."""
    out = []
    cur = node
    while id(cur) in pm:
        par, key = pm[id(cur)]
        if par["k"] == "Block" and key == "stmts":
            stmts = par["stmts"]
            idx = None
            for i, s in enumerate(stmts):
                if s is cur:
                    idx = i
                    break
            if idx is not None:
                for s in reversed(stmts[:idx]):
                    if s["k"] == "ExprStmt" and s["expr"]["k"] == "If" and s["expr"]["else"] is None and diverges(s["expr"]["then"]):
                        out.append(("if", s["expr"]["cond"], s))
                    elif s["k"] == "Local" and s.get("else") is not None and diverges(s["else"]):
                        out.append(("letelse", s, s))
        cur = par
    return out


def stmt_of(node, pm):
    """nearest enclosing statement node (Local / ExprStmt)"""
    cur = node
    while id(cur) in pm:
        if cur["k"] in ("Local", "ExprStmt"):
            return cur
        cur = pm[id(cur)][0]
    return cur if cur["k"] in ("Local", "ExprStmt") else None


# ---- delegation: `fn f(a, b) { g(a, b, true) }` -------------------------------------------------
def delegate(repo, fn):
    """If fn's whole body is one call to a function g of the same module (arguments: fn's own parameters, possibly behind & / * / a
    transparent method, or literals), return (g, known) where known maps g's parameter names that receive a literal to that literal's
    value (True / False / the literal text).  Rules written for fn then read g under `known` (see live_walk)."""
    body = fn.body
    if body.get("k") != "Block" or len(body.get("stmts", [])) != 1:
        return None
    st = body["stmts"][0]
    e = st.get("expr") if st.get("k") == "ExprStmt" and not st.get("semi") else None
    if e is None and st.get("k") == "ExprStmt" and st.get("expr", {}).get("k") == "Return":
        e = st["expr"].get("expr")
    if e is None or e.get("k") != "Call" or e["func"].get("k") != "Path":
        return None
    name = e["func"]["path"].split("::")[-1]
    g = repo.fn(f"{fn.module}::{name}")
    if g is None and fn.self_ty:
        g = repo.fn(f"{fn.module}::{fn.self_ty}::{name}")
    if g is None or g is fn or len(g.params) != len(e["args"]):
        return None
    known = {}
    names = {p["name"] for p in fn.params if p.get("name")}
    for p, a in zip(g.params, e["args"]):
        x = a
        while x.get("k") in ("Ref", "Unary", "Paren") or (x.get("k") == "MethodCall" and x["method"] in TRANSPARENT_METHODS and not x["args"]):
            x = x.get("expr") or x.get("recv")
            if x is None:
                return None
        if x.get("k") == "Lit":
            v = x.get("v")
            known[p["name"]] = v
        elif x.get("k") == "Path" and x["path"] in names:
            pass
        else:
            return None
    return g, known


def decide(cond, known):
    """Truth value of a condition that is a parameter with a known literal value (or its negation); None when not decidable."""
    if cond.get("k") == "Paren":
        return decide(cond["expr"], known)
    if cond.get("k") == "Unary" and cond.get("op") == "!":
        v = decide(cond["expr"], known)
        return None if v is None else (not v)
    if cond.get("k") == "Path" and cond["path"] in known and isinstance(known[cond["path"]], bool):
        return known[cond["path"]]
    return None


def live_walk(n, known):
    """walk(), except that an `if` whose condition is decided by `known` contributes only its live branch."""
    stack = [n]
    while stack:
        x = stack.pop()
        if isinstance(x, dict):
            if x.get("k") == "If" and known:
                v = decide(x["cond"], known)
                if v is not None:
                    yield x
                    live = x["then"] if v else x.get("else")
                    if live is not None:
                        stack.append(live)
                    continue
            if "k" in x:
                yield x
            for v in reversed(list(x.values())):
                if isinstance(v, (dict, list)):
                    stack.append(v)
        elif isinstance(x, list):
            for v in reversed(x):
                if isinstance(v, (dict, list)):
                    stack.append(v)


def reach_fields(e, env, depth=6):
    """Names of all struct fields read on the way to the value of `e`: the expression itself and, transitively (bounded), the
    initialisers / scrutinees / iterables of the locals it mentions.  A coarse but pattern-proof dependency set: use it where the
    precise provenance is lost in a slice pattern or a collected vector."""
    out = set()
    seen = set()
    work = [(e, env, depth)]
    while work:
        x, en, d = work.pop()
        if x is None or id(x) in seen:
            continue
        seen.add(id(x))
        for n in walk(x):
            if n["k"] == "Field":
                out.add(str(n.get("member")))
            elif n["k"] == "Path" and "::" not in n["path"] and en is not None and d > 0:
                df = en.get(n["path"])
                if df is not None and df.init is not None:
                    work.append((df.init, df.env, d - 1))
    return out


def reach_calls(e, env, depth=6, fn=None, envs=None):
    """Names of all functions / methods called on the way to the value of `e` (closure bodies included), through the initialisers of
    the locals it mentions (bounded) and -- when fn / envs are given -- through what is pushed / inserted / extended into a local
    container it mentions (a vector filled by a loop depends on what the loop pushes)."""
    out = set()
    seen = set()
    fills = {}
    if fn is not None and envs is not None:
        for c in walk(fn.body):
            if c["k"] == "MethodCall" and c["method"] in ("push", "insert", "extend", "push_str", "push_back", "append") and c["recv"]["k"] in ("Path",):
                fills.setdefault(c["recv"]["path"], []).append(c)
    work = [(e, env, depth)]
    while work:
        x, en, d = work.pop()
        if x is None or id(x) in seen:
            continue
        seen.add(id(x))
        for n in walk(x):
            if n["k"] == "MethodCall":
                out.add(n["method"])
            elif n["k"] == "Call" and n["func"]["k"] == "Path":
                out.add(n["func"]["path"].split("::")[-1])
            elif n["k"] == "Path" and "::" not in n["path"] and en is not None and d > 0:
                df = en.get(n["path"])
                if df is not None and df.init is not None:
                    work.append((df.init, df.env, d - 1))
                for c in fills.get(n["path"], []):
                    for a in c["args"]:
                        work.append((a, envs.get(id(c)), d - 1))
    return out
