"""Engine W: type-level witnesses compiled by rustc itself (nightly through the shim) against /repo as a
path dependency.  Every witness (must compile) has a twin (must fail with a given error code) and vice versa."""
import glob
import json
import os
import re
import shutil
import subprocess

from . import core, mir as M

BINS = os.path.join(core.VERIF, "tools/witness/bins")
# name -> expected: None = must compile, "E0xxx" = must fail with that code
EXPECT = {
    "w_nospan_dfa": None,
    "t_nospan_regex": "E0277",
    "w_noexprid_regex_dfa": None,
    "t_noexprid_expr": "E0277",
    "t_exprid_ord": "E0369",
    "w_exprid_eq": None,
    "t_regexnodeid_ord": "E0369",
    "w_regexnodeid_eq": None,
}


def run_all():
    """returns {name: dict(ok=bool, compiled=bool, codes=[...], msg=str)}; cached per repo hash"""
    cache = os.path.join(core.cache_dir(), "witness.json")
    if os.path.exists(cache):
        with open(cache) as f:
            return json.load(f)
    d = os.path.join(core.WORK, "witness")
    if os.path.exists(d):
        shutil.rmtree(d)
    os.makedirs(os.path.join(d, "src", "bin"))
    with open(os.path.join(d, "Cargo.toml"), "w") as f:
        f.write('[package]\nname = "witness"\nversion = "0.1.0"\nedition = "2021"\n\n[dependencies]\ncomplgen = { path = "%s" }\n\n[workspace]\n' % core.REPO)
    shutil.copy(os.path.join(core.REPO, "Cargo.lock"), os.path.join(d, "Cargo.lock"))
    for b in glob.glob(os.path.join(BINS, "*.rs")):
        shutil.copy(b, os.path.join(d, "src", "bin"))
    env = dict(os.environ)
    env.update({"RUSTC": M.SHIM, "CARGO_TARGET_DIR": os.path.join(core.WORK, "witness_target"), "CARGO_NET_OFFLINE": "true", "RUSTFLAGS": "-Awarnings"})
    out = {}
    for name, want in sorted(EXPECT.items()):
        r = subprocess.run(["cargo", "+nightly", "check", "--offline", "--bin", name, "--message-format=short"], cwd=d, env=env, stdout=subprocess.PIPE, stderr=subprocess.PIPE, text=True)
        codes = sorted(set(re.findall(r"error\[(E\d+)\]", r.stderr)))
        compiled = r.returncode == 0
        # errors outside the witness itself (e.g. /repo does not compile) must not count as a 'failing twin'
        foreign = [l for l in r.stderr.splitlines() if "error" in l and "src/bin/" not in l and l.startswith(("error", "/", "src"))]
        dep_broken = (not compiled) and not any(f"src/bin/{name}.rs" in l for l in r.stderr.splitlines())
        if want is None:
            ok = compiled
        else:
            ok = (not compiled) and codes == [want] and not dep_broken
        msg = ""
        if not compiled:
            m = [l for l in r.stderr.splitlines() if l.startswith("src/bin") or "error" in l]
            msg = " | ".join(m[:3])[:400]
        out[name] = {"ok": ok, "compiled": compiled, "codes": codes, "want": want, "msg": msg, "dep_broken": dep_broken}
    with open(cache, "w") as f:
        json.dump(out, f)
    return out
