"""Engine K: a parser for the subset of bash/zsh that complgen's templates use, over assembled skeleton text
(holes are ASCII tokens H__name__H).  Produces a command tree with loop nesting, conditions and words, plus
helpers for def-use queries.  This is a parser, not an interpreter: nothing is executed."""
import re


class ParseError(Exception):
    pass


class Tok:
    __slots__ = ("kind", "text", "line")

    def __init__(self, kind, text, line):
        self.kind, self.text, self.line = kind, text, line

    def __repr__(self):
        return f"{self.kind}:{self.text!r}@{self.line}"


OPS = ["&&", "||", ";;", "<<<", ">>", "<(", ">(", "((", "))", ";", "|", "&", "(", ")", "<", ">"]
RESERVED = {"if", "then", "elif", "else", "fi", "while", "until", "do", "done", "for", "in", "{", "}", "function", "case", "esac", "[[", "]]", "!"}


def read_balanced(s, i, open_ch, close_ch):
    """s[i] is just after an opening delimiter; returns index after the matching close. Quotes are respected."""
    depth = 1
    n = len(s)
    while i < n:
        c = s[i]
        if c == "\\":
            i += 2
            continue
        if c == "'":
            j = s.find("'", i + 1)
            i = n if j < 0 else j + 1
            continue
        if c == '"':
            i = read_dquote(s, i + 1)
            continue
        if c == open_ch:
            depth += 1
        elif c == close_ch:
            depth -= 1
            if depth == 0:
                return i + 1
        i += 1
    raise ParseError(f"unbalanced {open_ch}{close_ch}")


def read_dquote(s, i):
    """s[i-1] was the opening double quote; returns index after the closing quote"""
    n = len(s)
    while i < n:
        c = s[i]
        if c == "\\":
            i += 2
            continue
        if c == '"':
            return i + 1
        if c == "$" and i + 1 < n and s[i + 1] == "(":
            i = read_balanced(s, i + 2, "(", ")")
            continue
        if c == "$" and i + 1 < n and s[i + 1] == "{":
            i = read_balanced(s, i + 2, "{", "}")
            continue
        if c == "`":
            j = s.find("`", i + 1)
            i = n if j < 0 else j + 1
            continue
        i += 1
    raise ParseError("unterminated double quote")


def read_word(s, i):
    """reads one shell word starting at s[i]; returns end index"""
    n = len(s)
    start = i
    while i < n:
        c = s[i]
        if c in " \t\n;&|":
            break
        if c in "()":
            break
        if c in "<>":
            if i + 1 < n and s[i + 1] == "(" and i == start:
                i = read_balanced(s, i + 2, "(", ")")
                continue
            break
        if c == "\\":
            i += 2
            continue
        if c == "'":
            j = s.find("'", i + 1)
            if j < 0:
                raise ParseError("unterminated single quote")
            i = j + 1
            continue
        if c == '"':
            i = read_dquote(s, i + 1)
            continue
        if c == "$" and i + 1 < n:
            d = s[i + 1]
            if d == "(":
                i = read_balanced(s, i + 2, "(", ")")
                continue
            if d == "{":
                i = read_balanced(s, i + 2, "{", "}")
                continue
            if d == "'":
                j = i + 2
                while j < n and s[j] != "'":
                    j += 2 if s[j] == "\\" else 1
                i = j + 1
                continue
        if c == "`":
            j = s.find("`", i + 1)
            i = n if j < 0 else j + 1
            continue
        if c == "=" and i + 1 < n and s[i + 1] == "(" and i > start:
            # array assignment name=( ... )
            i = read_balanced(s, i + 2, "(", ")")
            continue
        if c == "+" and s[i : i + 3] == "+=(":
            i = read_balanced(s, i + 3, "(", ")")
            continue
        if c == "[" and i > start and re.match(r"^[A-Za-z_][A-Za-z0-9_]*$", s[start:i]):
            # subscripted assignment target name[...]=
            i = read_balanced(s, i + 1, "[", "]")
            continue
        i += 1
    return i


def tokenize(s):
    toks = []
    i = 0
    n = len(s)
    line = 1
    at_cmd_start = True
    while i < n:
        c = s[i]
        if c == "\n":
            toks.append(Tok("nl", "\n", line))
            line += 1
            i += 1
            at_cmd_start = True
            continue
        if c in " \t":
            i += 1
            continue
        if c == "\\" and i + 1 < n and s[i + 1] == "\n":
            i += 2
            line += 1
            continue
        if c == "#" and (i == 0 or s[i - 1] in " \t\n;(") :
            j = s.find("\n", i)
            i = n if j < 0 else j
            continue
        # [[ ... ]]
        if s.startswith("[[", i) and (i + 2 < n and s[i + 2] in " \t"):
            j = i + 2
            while True:
                k = s.find("]]", j)
                if k < 0:
                    raise ParseError(f"line {line}: unterminated [[")
                # make sure we are not inside quotes: scan from i+2 to k respecting quotes
                p = i + 2
                okk = True
                while p < k:
                    ch = s[p]
                    if ch == "\\":
                        p += 2
                        continue
                    if ch == "'":
                        q = s.find("'", p + 1)
                        p = q + 1
                        continue
                    if ch == '"':
                        p = read_dquote(s, p + 1)
                        continue
                    if ch == "$" and p + 1 < n and s[p + 1] == "{":
                        p = read_balanced(s, p + 2, "{", "}")
                        continue
                    if ch == "$" and p + 1 < n and s[p + 1] == "(":
                        p = read_balanced(s, p + 2, "(", ")")
                        continue
                    p += 1
                if p > k:
                    j = p
                    continue
                break
            body = s[i + 2 : k]
            toks.append(Tok("cond", body.strip(), line))
            line += body.count("\n")
            i = k + 2
            at_cmd_start = False
            continue
        # (( ... )) arithmetic command / for header
        if s.startswith("((", i):
            j = s.find("))", i + 2)
            if j < 0:
                raise ParseError(f"line {line}: unterminated ((")
            toks.append(Tok("arith", s[i + 2 : j].strip(), line))
            i = j + 2
            at_cmd_start = False
            continue
        matched = None
        for op in OPS:
            if s.startswith(op, i):
                matched = op
                break
        if matched and matched not in ("<(", ">(", "((", "))"):
            toks.append(Tok("op", matched, line))
            i += len(matched)
            at_cmd_start = matched in ("&&", "||", ";", "|", "&", "(", ";;")
            continue
        j = read_word(s, i)
        if j == i:
            raise ParseError(f"line {line}: cannot lex at {s[i:i+20]!r}")
        w = s[i:j]
        toks.append(Tok("word", w, line))
        line += w.count("\n")
        i = j
        at_cmd_start = False
    toks.append(Tok("eof", "", line))
    return toks


class N:
    """tree node: kind in script|list|andor|pipeline|simple|if|while|for|forarith|group|subshell|func|cond|arith"""

    def __init__(self, kind, line, **kw):
        self.kind = kind
        self.line = line
        self.__dict__.update(kw)

    def children(self):
        out = []
        for k in ("items", "cmds", "body", "cond_list", "els", "clauses"):
            v = getattr(self, k, None)
            if v is None:
                continue
            if isinstance(v, N):
                out.append(v)
            elif isinstance(v, list):
                for x in v:
                    if isinstance(x, N):
                        out.append(x)
                    elif isinstance(x, tuple):
                        out.extend(y for y in x if isinstance(y, N))
        return out


class Parser:
    def __init__(self, toks):
        self.t = toks
        self.i = 0

    def peek(self):
        return self.t[self.i]

    def next(self):
        tok = self.t[self.i]
        self.i += 1
        return tok

    def skip_nl(self):
        while self.peek().kind == "nl" or (self.peek().kind == "op" and self.peek().text == ";"):
            self.i += 1

    def is_word(self, text):
        p = self.peek()
        return p.kind == "word" and p.text == text

    def expect_word(self, text):
        p = self.next()
        if not (p.kind == "word" and p.text == text):
            raise ParseError(f"line {p.line}: expected {text!r}, got {p!r}")
        return p

    def parse_list(self, stop):
        """commands until a word in `stop` (not consumed) or eof / ')' """
        items = []
        line = self.peek().line
        while True:
            self.skip_nl()
            p = self.peek()
            if p.kind == "eof":
                break
            if p.kind == "word" and p.text in stop:
                break
            if p.kind == "op" and p.text == ")":
                break
            items.append(self.parse_andor())
            p = self.peek()
            if p.kind == "op" and p.text in (";", "&"):
                self.i += 1
        return N("list", line, items=items)

    def parse_andor(self):
        line = self.peek().line
        first = self.parse_pipeline()
        rest = []
        while self.peek().kind == "op" and self.peek().text in ("&&", "||"):
            op = self.next().text
            while self.peek().kind == "nl":
                self.i += 1
            rest.append((op, self.parse_pipeline()))
        if not rest:
            return first
        return N("andor", line, first=first, rest=rest, items=[first] + [r[1] for r in rest])

    def parse_pipeline(self):
        line = self.peek().line
        neg = False
        if self.is_word("!"):
            self.i += 1
            neg = True
        cmds = [self.parse_command()]
        while self.peek().kind == "op" and self.peek().text == "|":
            self.i += 1
            while self.peek().kind == "nl":
                self.i += 1
            cmds.append(self.parse_command())
        if len(cmds) == 1 and not neg:
            return cmds[0]
        return N("pipeline", line, cmds=cmds, neg=neg)

    def parse_command(self):
        p = self.peek()
        line = p.line
        if p.kind == "cond":
            self.i += 1
            node = N("cond", line, text=p.text, tests=parse_cond(p.text))
            return self.trailing_redirs(node)
        if p.kind == "arith":
            self.i += 1
            c = arith_as_cond(p.text)
            if c is not None:
                # `(( a < b ))` used as a test is `[[ $a -lt $b ]]` written in arithmetic: read as the latter
                return self.trailing_redirs(N("cond", line, text=c, tests=parse_cond(c), arith=True))
            return N("arith", line, text=p.text)
        if p.kind == "op" and p.text == "(":
            self.i += 1
            body = self.parse_list(set())
            q = self.next()
            if not (q.kind == "op" and q.text == ")"):
                raise ParseError(f"line {q.line}: expected )")
            return N("subshell", line, body=body)
        if p.kind == "word":
            if p.text == "if":
                return self.parse_if()
            if p.text in ("while", "until"):
                self.i += 1
                cond = self.parse_list({"do"})
                self.expect_word("do")
                body = self.parse_list({"done"})
                self.expect_word("done")
                return self.trailing_redirs(N("while", line, cond_list=cond, body=body, until=p.text == "until"))
            if p.text == "for":
                return self.parse_for()
            if p.text == "{":
                self.i += 1
                body = self.parse_list({"}"})
                self.expect_word("}")
                return self.trailing_redirs(N("group", line, body=body))
            if p.text == "function":
                self.i += 1
                name = self.next().text
                if self.peek().kind == "op" and self.peek().text == "(":
                    self.i += 2
                self.skip_nl()
                body = self.parse_command()
                return N("func", line, name=name, body=body)
            # function definition: NAME ( ) compound
            if self.t[self.i + 1].kind == "op" and self.t[self.i + 1].text == "(" and self.t[self.i + 2].kind == "op" and self.t[self.i + 2].text == ")":
                name = p.text
                self.i += 3
                self.skip_nl()
                body = self.parse_command()
                return N("func", line, name=name, body=body)
        return self.parse_simple()

    def trailing_redirs(self, node):
        while self.peek().kind == "op" and self.peek().text in ("<", ">", ">>", "<<<"):
            self.i += 1
            if self.peek().kind == "word":
                w = self.next()
                node.__dict__.setdefault("redirs", []).append(w.text)
        return node

    def parse_if(self):
        line = self.peek().line
        self.expect_word("if")
        clauses = []
        cond = self.parse_list({"then"})
        self.expect_word("then")
        body = self.parse_list({"elif", "else", "fi"})
        clauses.append((cond, body))
        els = None
        while True:
            p = self.next()
            if p.text == "elif":
                c = self.parse_list({"then"})
                self.expect_word("then")
                b = self.parse_list({"elif", "else", "fi"})
                clauses.append((c, b))
            elif p.text == "else":
                els = self.parse_list({"fi"})
            elif p.text == "fi":
                break
            else:
                raise ParseError(f"line {p.line}: unexpected {p!r} in if")
        return N("if", line, clauses=clauses, els=els)

    def parse_for(self):
        line = self.peek().line
        self.expect_word("for")
        p = self.peek()
        if p.kind == "arith":
            self.i += 1
            header = p.text
            self.skip_nl()
            if self.is_word("do"):
                self.i += 1
                body = self.parse_list({"done"})
                self.expect_word("done")
            else:
                self.expect_word("{")
                body = self.parse_list({"}"})
                self.expect_word("}")
            parts = [x.strip() for x in header.split(";")]
            return N("forarith", line, header=header, parts=parts, body=body)
        var = self.next().text
        words = []
        if self.is_word("in"):
            self.i += 1
            while self.peek().kind == "word":
                words.append(self.next().text)
        self.skip_nl()
        if self.is_word("do"):
            self.i += 1
            body = self.parse_list({"done"})
            self.expect_word("done")
        else:
            self.expect_word("{")
            body = self.parse_list({"}"})
            self.expect_word("}")
        return N("for", line, var=var, words=words, body=body)

    def parse_simple(self):
        line = self.peek().line
        words = []
        redirs = []
        while True:
            p = self.peek()
            if p.kind == "word":
                if p.text in ("then", "do", "done", "fi", "elif", "else", "}") and not words:
                    raise ParseError(f"line {p.line}: unexpected reserved word {p.text!r}")
                words.append(self.next().text)
            elif p.kind == "op" and p.text in ("<", ">", ">>", "<<<"):
                self.i += 1
                if self.peek().kind == "word":
                    redirs.append((p.text, self.next().text))
            elif p.kind in ("cond", "arith") and words:
                # e.g. `return $((1 - matched))` handled in word; a stray token here is an error
                raise ParseError(f"line {p.line}: unexpected {p.kind} after words")
            else:
                break
        if not words and not redirs:
            p = self.peek()
            raise ParseError(f"line {p.line}: empty command at {p!r}")
        if len(words) == 2 and words[0] == "local" and re.fullmatch(r"[A-Za-z_]\w*=[A-Za-z_]\w*\$\{\w+\}", words[1]):
            # `local N=stem${v}` computes a variable NAME from name characters only: the same statement as `eval "local N=stem${v}"`
            # (the form the templates use for all by-name selections) -- read as that
            words = ["eval", '"local ' + words[1] + '"']
        return N("simple", line, words=words, redirs=redirs)


ARITH_CMP = {"<": "-lt", "<=": "-le", ">": "-gt", ">=": "-ge", "==": "-eq", "!=": "-ne"}
_AR_OPND = r"(?:\$?[A-Za-z_]\w*|\d+|\$\{[^{}]*\})"


def arith_as_cond(text):
    """`A op B` with one comparison between two plain operands (a name, a number, a ${..} expansion) -> the `[[ ]]` spelling"""
    m = re.fullmatch(r"\s*(%s)\s*(<=|>=|==|!=|<|>)\s*(%s)\s*" % (_AR_OPND, _AR_OPND), text)
    if not m:
        return None
    f = lambda o: ("$" + o) if re.fullmatch(r"[A-Za-z_]\w*", o) else o
    return f"{f(m.group(1))} {ARITH_CMP[m.group(2)]} {f(m.group(3))}"


COND_BINOPS = {"==", "=", "!=", "=~", "<", ">", "-eq", "-ne", "-lt", "-le", "-gt", "-ge"}
COND_UNOPS = {"-v", "-z", "-n", "-e", "-f", "-d"}


def split_cond_words(text):
    out = []
    i = 0
    n = len(text)
    while i < n:
        c = text[i]
        if c in " \t\n":
            i += 1
            continue
        if text.startswith("&&", i) or text.startswith("||", i):
            out.append(text[i : i + 2])
            i += 2
            continue
        if c in "()" :
            out.append(c)
            i += 1
            continue
        j = i
        while j < n and text[j] not in " \t\n":
            ch = text[j]
            if ch == "\\":
                j += 2
            elif ch == "'":
                j = text.find("'", j + 1) + 1
            elif ch == '"':
                j = read_dquote(text, j + 1)
            elif ch == "$" and j + 1 < n and text[j + 1] == "{":
                j = read_balanced(text, j + 2, "{", "}")
            elif ch == "$" and j + 1 < n and text[j + 1] == "(":
                j = read_balanced(text, j + 2, "(", ")")
            elif text.startswith("&&", j) or text.startswith("||", j):
                break
            else:
                j += 1
        out.append(text[i:j])
        i = j
    return out


def parse_cond(text):
    """-> list of tests: ('bin', lhs, op, rhs) | ('un', op, arg) | ('word', w), joined by connectives kept in order"""
    ws = split_cond_words(text)
    tests = []
    i = 0
    while i < len(ws):
        w = ws[i]
        if w in ("&&", "||", "(", ")", "!"):
            tests.append(("conn", w))
            i += 1
            continue
        if w in COND_UNOPS and i + 1 < len(ws):
            tests.append(("un", w, ws[i + 1]))
            i += 2
            continue
        if i + 2 < len(ws) and ws[i + 1] in COND_BINOPS:
            tests.append(("bin", w, ws[i + 1], ws[i + 2]))
            i += 3
            continue
        tests.append(("word", w))
        i += 1
    return tests


def parse(text):
    return Parser(tokenize(text)).parse_list(set())


# ------------------------------------------------------------------ queries
def walk(node, loops=(), conds=(), func=None):
    """yields (node, enclosing loops (outermost first), enclosing conditions (if-clause nodes), function name)"""
    yield node, loops, conds, func
    if node.kind == "func":
        yield from walk(node.body, (), (), node.name)
        return
    if node.kind in ("while", "for", "forarith"):
        if node.kind == "while":
            yield from walk(node.cond_list, loops, conds, func)
        yield from walk(node.body, loops + (node,), conds, func)
        return
    if node.kind == "if":
        for c, b in node.clauses:
            yield from walk(c, loops, conds, func)
            yield from walk(b, loops, conds + ((node, c),), func)
        if node.els is not None:
            yield from walk(node.els, loops, conds + ((node, None),), func)
        return
    if node.kind == "andor":
        prev = None
        yield from walk(node.first, loops, conds, func)
        guard = node.first
        for op, cmd in node.rest:
            yield from walk(cmd, loops, conds + ((node, guard),) if op == "&&" else conds, func)
        return
    for ch in node.children():
        yield from walk(ch, loops, conds, func)


def functions(tree):
    out = {}
    for n, *_ in walk(tree):
        if n.kind == "func":
            out.setdefault(n.name, []).append(n)
    return out


ASSIGN_RE = re.compile(r"^([A-Za-z_][A-Za-z0-9_]*)(\[[^\]]*\])?(\+?=)(.*)$", re.S)
DECL_CMDS = {"local", "declare", "typeset", "readonly", "export"}


def assignments(simple):
    """[(name, subscript or None, op, value text)] of a simple command"""
    out = []
    ws = simple.words
    i = 0
    if ws and ws[0] in DECL_CMDS:
        i = 1
        while i < len(ws) and ws[i].startswith("-"):
            i += 1
        for w in ws[i:]:
            m = ASSIGN_RE.match(w)
            if m:
                out.append((m.group(1), m.group(2), m.group(3), m.group(4)))
            elif re.match(r"^[A-Za-z_]\w*$", w):
                out.append((w, None, "decl", ""))
        return out
    if ws and ws[0] == "eval":
        return out
    for w in ws:
        m = ASSIGN_RE.match(w)
        if m:
            out.append((m.group(1), m.group(2), m.group(3), m.group(4)))
        else:
            break
    return out


VAR_RE = re.compile(r"\$\{?[#!]?([A-Za-z_][A-Za-z0-9_]*)")


def vars_in(text):
    return VAR_RE.findall(text)


def is_dquoted(word):
    """the whole word is one double-quoted string"""
    return len(word) >= 2 and word[0] == '"' and read_dquote(word, 1) == len(word)


def inner_scripts(word):
    """texts of $( ... ) and <( ... ) substitutions directly inside a word (one level)"""
    out = []
    i = 0
    n = len(word)
    while i < n:
        c = word[i]
        if c == "\\":
            i += 2
            continue
        if c == "'":
            j = word.find("'", i + 1)
            i = n if j < 0 else j + 1
            continue
        if (c in "$<>") and i + 1 < n and word[i + 1] == "(" and not word.startswith("$((", i):
            j = read_balanced(word, i + 2, "(", ")")
            out.append(word[i + 2 : j - 1])
            i = j
            continue
        i += 1
    return out
