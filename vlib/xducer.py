import re
"""Engine X: decides, for ALL strings s, whether  decode_target(prefix + encode(s) + suffix) = s  with the constant
closed exactly at its end and no live expansion, where `encode` is a chain of char->string replacements extracted from
/repo (a composition of homomorphisms, hence a homomorphism given by its action on single characters) and `decode` is a
deterministic transducer transcribing the target's quoted-string rules.  Product exploration with bounded delay."""
from . import ast as A
from . import prov as P

# class alphabet: the characters whose treatment differs in at least one target, plus a generic safe one
ALPHABET = ["\\", '"', "$", "`", "!", "\n", "\r", "'", "(", "a", "n", " "]


def extract_chain(fn):
    """-> (prefix, suffix, [(char, replacement), ...] in application order) or None.
    Recognises `format!("<p>{}<s>", s.replace(a,b).replace(c,d)...)`, `let e = s.replace(..)..; format!(..{e}..)` and a bare chain."""
    envs = A.collect_envs(fn)
    chains = []
    # any other way out of the function (early return, branch) is a second encoder the chain does not describe
    for n in A.walk(fn.body):
        if n["k"] in ("Return", "If", "Match", "While", "ForLoop", "Loop"):
            return None

    def chain_of(e, env):
        reps = []
        cur = e
        while True:
            if cur["k"] == "MethodCall" and cur["method"] == "replace" and len(cur["args"]) == 2:
                a, b = cur["args"]
                if a["k"] == "Lit" and b["k"] == "Lit":
                    reps.append((a["v"], b["v"]))
                    cur = cur["recv"]
                    continue
                return None
            if cur["k"] == "Path" and "::" not in cur["path"]:
                df = env.get(cur["path"]) if env else None
                if df is not None and df.kind == "let" and df.init is not None:
                    cur = df.init
                    env = df.env
                    continue
                if df is not None and df.kind == "param":
                    return list(reversed(reps))
            if cur["k"] in ("Ref", "Unary"):
                cur = cur["expr"]
                continue
            return None

    for n in A.walk(fn.body):
        if n["k"] == "Macro" and n["name"].split("::")[-1] == "format" and n.get("args"):
            t = n["args"][0]
            if t["k"] == "Lit" and t.get("lit") == "str" and t["v"].count("{") == 1 and len(n["args"]) <= 2:
                tpl = t["v"]
                i = tpl.index("{")
                j = tpl.index("}")
                name = tpl[i + 1 : j]
                arg = n["args"][1] if len(n["args"]) == 2 else {"k": "Path", "path": name}
                ch = chain_of(arg, envs.get(id(n)))
                if ch is not None:
                    chains.append((tpl[:i], tpl[j + 1 :], ch, n))
    if chains:
        return chains[0][:3]
    # bare chain as the function's value
    last = None
    for st in fn.body["stmts"]:
        if st["k"] == "ExprStmt" and not st["semi"]:
            last = st["expr"]
    if last is not None:
        ch = chain_of(last, envs.get(id(last)))
        if ch is not None:
            return ("", "", ch)
    return None


class CharMap:
    """an encoder written as a loop over the characters of its argument: image(c) is computed by running the loop body on c"""

    def __init__(self, body, cname, oname, descr):
        self.body, self.cname, self.oname, self.descr = body, cname, oname, descr

    def image(self, c):
        return _run_block(self.body, c, self.cname, self.oname)

    def __iter__(self):  # so that `" -> ".join(f"{a!r}=>{b!r}" for a, b in chain)` still prints something useful
        return iter([("<each char>", self.descr)])


class _Unsupported(Exception):
    pass


def _lit_text(e):
    if e["k"] == "Lit" and e.get("lit") in ("char", "str"):
        return e["v"]
    raise _Unsupported()


def _cond(e, c, cname):
    k = e["k"]
    if k == "Paren":
        return _cond(e["expr"], c, cname)
    if k == "Unary" and e.get("op") == "!":
        return not _cond(e["expr"], c, cname)
    if k == "Binary" and e["op"] in ("||", "&&"):
        a = _cond(e["left"], c, cname)
        if e["op"] == "||":
            return a or _cond(e["right"], c, cname)
        return a and _cond(e["right"], c, cname)
    if k == "Macro" and e.get("name", "").split("::")[-1] == "matches" and e.get("args") and e["args"][0].get("k") == "Path" and e["args"][0]["path"] == cname and isinstance(e.get("pat_tokens"), str):
        toks = [t.strip() for t in e["pat_tokens"].split("|")]
        chars = []
        for t in toks:
            m = re.fullmatch(r"'(\\.|[^'\\])'", t)
            if not m:
                raise _Unsupported()
            ch = m.group(1)
            if ch.startswith("\\"):
                ch = {"n": "\n", "t": "\t", "r": "\r", "0": "\0", "\\": "\\", "'": "'", '"': '"'}.get(ch[1])
                if ch is None:
                    raise _Unsupported()
            chars.append(ch)
        return c in chars
    if k == "Binary" and e["op"] in ("==", "!="):
        l, r = e["left"], e["right"]
        for x, y in ((l, r), (r, l)):
            while x["k"] in ("Unary", "Ref", "Paren") and x.get("op") in (None, "*", "&"):
                x = x["expr"]
            if x["k"] == "Path" and x["path"] == cname:
                v = _lit_text(y) == c
                return v if e["op"] == "==" else not v
    raise _Unsupported()


def _pat_matches(p, c):
    k = p["k"]
    if k in ("PWild", "PIdent"):
        return True
    if k == "PLit":
        return _lit_text(p["lit"]) == c
    if k == "POr":
        return any(_pat_matches(x, c) for x in p["cases"])
    raise _Unsupported()


def _run_expr(e, c, cname, oname):
    k = e["k"]
    if k == "Block":
        return _run_block(e, c, cname, oname)
    if k == "If":
        if e["cond"]["k"] == "Let":
            raise _Unsupported()
        if _cond(e["cond"], c, cname):
            return _run_block(e["then"], c, cname, oname)
        return _run_expr(e["else"], c, cname, oname) if e.get("else") is not None else ""
    if k == "Match":
        sc = e["scrut"]
        while sc["k"] in ("Unary", "Ref", "Paren"):
            sc = sc["expr"]
        if not (sc["k"] == "Path" and sc["path"] == cname):
            raise _Unsupported()
        for arm in e["arms"]:
            if arm.get("guard") is not None:
                raise _Unsupported()
            if _pat_matches(arm["pat"], c):
                return _run_expr(arm["body"], c, cname, oname)
        raise _Unsupported()
    if k == "MethodCall" and e["method"] in ("push", "push_str") and e["recv"]["k"] == "Path" and e["recv"]["path"] == oname and len(e["args"]) == 1:
        a = e["args"][0]
        while a["k"] in ("Unary", "Ref", "Paren"):
            a = a["expr"]
        if a["k"] == "Path" and a["path"] == cname:
            return c
        return _lit_text(a)
    if k == "Tuple" and not e.get("elems"):
        return ""
    raise _Unsupported()


def _run_block(b, c, cname, oname):
    out = ""
    for st in b["stmts"]:
        if st["k"] != "ExprStmt":
            raise _Unsupported()
        out += _run_expr(st["expr"], c, cname, oname)
    return out


def extract_charloop(fn):
    """-> (prefix, suffix, CharMap) for `let mut out = String::..; for c in s.chars() { .. out.push(..) .. } out` (optionally wrapped
    in one format!("<p>{}<s>", out)), the loop body made of if / match on c and pushes of c or of literals; None otherwise"""
    st = fn.body.get("stmts", [])
    if len(st) < 3 or len(fn.params) != 1:
        return None
    # `let mut out = ..; [out.push(lit);]* for c in s.chars() { .. } [out.push(lit);]* out` -- literal pushes around the loop are the
    # constant's opening / closing text
    loc, tail = st[0], st[-1]
    mid = st[1:-1]
    li = [i for i, x in enumerate(mid) if x["k"] == "ExprStmt" and x["expr"]["k"] == "ForLoop"]
    if len(li) != 1:
        return None
    loop = mid[li[0]]
    pre_s, post_s = mid[:li[0]], mid[li[0] + 1:]
    if loc["k"] != "Local" or tail["k"] != "ExprStmt" or tail.get("semi"):
        return None
    pat = loc["pat"]
    if pat["k"] == "PType":
        pat = pat["pat"]
    init = loc.get("init") or {}
    if pat["k"] != "PIdent" or not (init.get("k") == "Call" and init["func"]["k"] == "Path" and init["func"]["path"].split("::")[-1] in ("new", "with_capacity", "default")):
        return None
    oname = pat["name"]
    lp = loop["expr"]
    it = lp["iter"]
    if not (lp["pat"]["k"] == "PIdent" and it["k"] == "MethodCall" and it["method"] == "chars" and it["recv"]["k"] == "Path" and it["recv"]["path"] == fn.params[0]["name"]):
        return None
    cname = lp["pat"]["name"]
    prefix = suffix = ""

    def lit_pushes(stmts):
        out = ""
        for x in stmts:
            e = x.get("expr") if x["k"] == "ExprStmt" else None
            if not (e and e["k"] == "MethodCall" and e["method"] in ("push", "push_str") and e["recv"]["k"] == "Path" and e["recv"]["path"] == oname and len(e["args"]) == 1 and e["args"][0]["k"] == "Lit"):
                return None
            out += e["args"][0]["v"]
        return out

    pre, post = lit_pushes(pre_s), lit_pushes(post_s)
    if pre is None or post is None:
        return None
    t = tail["expr"]
    if t["k"] == "Macro" and t["name"].split("::")[-1] == "format" and t.get("args"):
        tp = t["args"][0]
        if not (tp["k"] == "Lit" and tp.get("lit") == "str" and tp["v"].count("{") == 1):
            return None
        i, j = tp["v"].index("{"), tp["v"].index("}")
        name = tp["v"][i + 1: j]
        arg = t["args"][1] if len(t["args"]) == 2 else {"k": "Path", "path": name}
        if not (arg["k"] == "Path" and arg["path"] == oname):
            return None
        prefix, suffix = tp["v"][:i], tp["v"][j + 1:]
    elif not (t["k"] == "Path" and t["path"] == oname):
        return None
    prefix, suffix = pre + prefix, suffix + post
    cm = CharMap(lp["body"], cname, oname, "loop body")
    try:
        imgs = {c: cm.image(c) for c in THOROUGH_ALPHABET}
    except _Unsupported:
        return None
    cm.descr = ", ".join(f"{c!r}=>{v!r}" for c, v in sorted(imgs.items()) if v != c) or "identity"
    return prefix, suffix, cm


def extract_encoder(fn):
    """a replace chain or a per-character loop"""
    return extract_chain(fn) or extract_charloop(fn)


def find_encoders(repo, mod):
    """the string-constant encoders of a module, found by SHAPE (a function String <- &str whose body is `format!("\"{}\"", <replace
    chain>)`), whatever they are called"""
    out = []
    for fn in repo.fns_in(mod):
        if len(fn.params) != 1:
            continue
        ch = extract_encoder(fn)
        if ch is not None and ch[0] == '"' and ch[1] == '"' and ch[2]:
            out.append(fn)
    return out


def encode_char(chain, c):
    if isinstance(chain, CharMap):
        return chain.image(c)
    s = c
    for a, b in chain:
        s = s.replace(a, b)
    return s


# ---------------------------------------------------------------- decoders
# A decoder is step(state, ch) -> (state', emitted text, event) ; event in (None, 'expand:<what>', 'close')
# states: 'N' normal inside the quotes, 'B' after an escape character, 'END' after the closing quote

def dec_posix_dq(escapable, expanders):
    def step(st, ch):
        if st == "N":
            if ch == "\\":
                return "B", "", None
            if ch == '"':
                return "END", "", "close"
            if ch in expanders:
                return "N", "", "expand:" + ch
            return "N", ch, None
        if st == "B":
            if ch == "\n":
                return "N", "", None  # line continuation: both characters vanish
            if ch in escapable:
                return "N", ch, None
            return "N", "\\" + ch, None
        return "END", "", "after-end"

    return step


def dec_pwsh_dq():
    special = {"n": "\n", "r": "\r", "t": "\t", "0": "\0", "a": "\a", "b": "\b", "e": "\x1b", "f": "\f", "v": "\v"}

    def step(st, ch):
        if st == "N":
            if ch == "`":
                return "B", "", None
            if ch == '"':
                return "Q", "", None  # either a doubled quote or the end
            if ch == "$":
                return "N", "", "expand:$"
            return "N", ch, None
        if st == "B":
            return "N", special.get(ch, ch), None
        if st == "Q":
            if ch == '"':
                return "N", '"', None
            return "END", "", "close-early"
        return "END", "", "after-end"

    return step


def dec_dot_q():
    """Graphviz lexer: inside quotes `\\"` is a quote, `\\\\` is kept as a pair, a bare quote closes (well-formedness only)"""
    def step(st, ch):
        if st == "N":
            if ch == "\\":
                return "B", "", None
            if ch == '"':
                return "END", "", "close"
            return "N", ch, None
        if st == "B":
            return "N", ch if ch in ('"', "\\") else "\\" + ch, None
        return "END", "", "after-end"

    return step


DECODERS = {
    "bash": (dec_posix_dq(escapable='$`"\\', expanders="$`"), "bash double quotes: backslash escapes only $ ` \" \\ and newline; $ and ` start expansions"),
    "zsh": (dec_posix_dq(escapable='$`"\\', expanders="$`"), "zsh double quotes: as POSIX"),
    "fish": (dec_posix_dq(escapable='$"\\', expanders="$"), "fish double quotes: backslash escapes \" $ \\ and newline; $ expands"),
    "pwsh": (dec_pwsh_dq(), "PowerShell double quotes: backtick escapes, $ expands, \"\" is a quote"),
    "dot": (dec_dot_q(), "Graphviz quoted string (lexer level)"),
}


THOROUGH_ALPHABET = [chr(c) for c in range(32, 127)] + ["\n", "\r", "\t", "\u00e9", "\u201d"]


def check(chain, prefix, suffix, target, identity=True, max_delay=4, alphabet=None):
    """Explores all strings over ALPHABET through encode then decode.  Returns (ok, counterexample or None, stats)."""
    step, _ = DECODERS[target]
    # open the constant
    st = "N"
    if prefix != '"':
        return False, {"why": f"constant does not open with a double quote but with {prefix!r}"}, {}
    ALPHABET_ = alphabet or ALPHABET
    images = {c: encode_char(chain, c) for c in ALPHABET_}
    # product state: (decoder state, pending expected text not yet emitted, emitted text not yet expected)
    start = ("N", "", "")
    seen = {start: ""}
    work = [start]
    n_edges = 0
    while work:
        cur = work.pop()
        dstate, exp_pend, out_pend = cur
        path = seen[cur]
        # end of string: the suffix must close the constant exactly
        s2, o2, ev = dstate, "", None
        closed = False
        dd, ep, op = dstate, exp_pend, out_pend
        bad = None
        for ch in suffix:
            dd, o, ev = step(dd, ch)
            op += o
            if ev and ev.startswith("expand"):
                bad = "expansion in suffix"
        # pwsh: the closing quote leaves state Q; end of input there means closed
        if target == "pwsh":
            closed = dd == "Q"
        else:
            closed = dd == "END"
        if not closed:
            return False, {"input": path, "encoded": prefix + "".join(images[c] for c in path) + suffix, "why": "the constant is not terminated by its closing quote (dangling escape)"}, {"states": len(seen)}
        if identity and (ep != op):
            return False, {"input": path, "encoded": prefix + "".join(images[c] for c in path) + suffix, "why": f"reads back as a different string (expected ...{ep!r}, got ...{op!r})"}, {"states": len(seen)}
        for c in ALPHABET_:
            dd, ep, op = dstate, exp_pend + c, out_pend
            fail = None
            for ch in images[c]:
                dd, o, ev = step(dd, ch)
                op += o
                if ev is not None:
                    if ev.startswith("expand"):
                        fail = f"live expansion: unescaped {ev.split(':')[1]!r} reaches the shell"
                    elif ev in ("close", "close-early"):
                        fail = "the constant is closed before its end"
                    elif ev == "after-end":
                        fail = "text after the closing quote"
                if fail:
                    break
            n_edges += 1
            if fail:
                return False, {"input": path + c, "encoded": prefix + "".join(images[x] for x in path + c) + suffix, "why": fail}, {"states": len(seen)}
            if dd == "Q":
                # pwsh: a lone quote at a character boundary: next char decides; keep exploring
                pass
            # cancel common prefix of expected / emitted
            k = 0
            while k < len(ep) and k < len(op) and ep[k] == op[k]:
                k += 1
            ep, op = ep[k:], op[k:]
            if identity and ep and op:
                return False, {"input": path + c, "encoded": prefix + "".join(images[x] for x in path + c) + suffix, "why": f"reads back as a different string (expected {ep!r}, got {op!r})"}, {"states": len(seen)}
            if len(ep) > max_delay or len(op) > max_delay:
                return False, {"input": path + c, "why": "unbounded delay between input and decoded output"}, {"states": len(seen)}
            if not identity:
                ep = op = ""
            nxt = (dd, ep, op)
            if nxt not in seen:
                seen[nxt] = path + c
                work.append(nxt)
    return True, None, {"states": len(seen), "edges": n_edges, "alphabet": len(ALPHABET_)}
