"""Engine X: decides, for ALL strings s, whether  decode_target(prefix + encode(s) + suffix) = s  with the constant
closed exactly at its end and no live expansion, where `encode` is a chain of char->string replacements extracted from
/repo (a composition of homomorphisms, hence a homomorphism given by its action on single characters) and `decode` is a
deterministic transducer transcribing the target's quoted-string rules.  Product exploration with bounded delay."""
from . import ast as A
from . import prov as P

# class alphabet: the characters whose treatment differs in at least one target, plus a generic safe one
ALPHABET = ["\\", '"', "$", "`", "!", "\n", "\r", "'", "(", "a", "n", " "]


def extract_chain(fn):
    """-> (prefix, suffix, [(char, replacement), ...] in application order) or None.
    Recognises `format!("<p>{}<s>", s.replace(a,b).replace(c,d)...)`, `let e = s.replace(..)..; format!(..{e}..)` and a bare chain."""
    envs = A.collect_envs(fn)
    chains = []
    # any other way out of the function (early return, branch) is a second encoder the chain does not describe
    for n in A.walk(fn.body):
        if n["k"] in ("Return", "If", "Match", "While", "ForLoop", "Loop"):
            return None

    def chain_of(e, env):
        reps = []
        cur = e
        while True:
            if cur["k"] == "MethodCall" and cur["method"] == "replace" and len(cur["args"]) == 2:
                a, b = cur["args"]
                if a["k"] == "Lit" and b["k"] == "Lit":
                    reps.append((a["v"], b["v"]))
                    cur = cur["recv"]
                    continue
                return None
            if cur["k"] == "Path" and "::" not in cur["path"]:
                df = env.get(cur["path"]) if env else None
                if df is not None and df.kind == "let" and df.init is not None:
                    cur = df.init
                    env = df.env
                    continue
                if df is not None and df.kind == "param":
                    return list(reversed(reps))
            if cur["k"] in ("Ref", "Unary"):
                cur = cur["expr"]
                continue
            return None

    for n in A.walk(fn.body):
        if n["k"] == "Macro" and n["name"].split("::")[-1] == "format" and n.get("args"):
            t = n["args"][0]
            if t["k"] == "Lit" and t.get("lit") == "str" and t["v"].count("{") == 1 and len(n["args"]) <= 2:
                tpl = t["v"]
                i = tpl.index("{")
                j = tpl.index("}")
                name = tpl[i + 1 : j]
                arg = n["args"][1] if len(n["args"]) == 2 else {"k": "Path", "path": name}
                ch = chain_of(arg, envs.get(id(n)))
                if ch is not None:
                    chains.append((tpl[:i], tpl[j + 1 :], ch, n))
    if chains:
        return chains[0][:3]
    # bare chain as the function's value
    last = None
    for st in fn.body["stmts"]:
        if st["k"] == "ExprStmt" and not st["semi"]:
            last = st["expr"]
    if last is not None:
        ch = chain_of(last, envs.get(id(last)))
        if ch is not None:
            return ("", "", ch)
    return None


def find_encoders(repo, mod):
    """the string-constant encoders of a module, found by SHAPE (a function String <- &str whose body is `format!("\"{}\"", <replace
    chain>)`), whatever they are called"""
    out = []
    for fn in repo.fns_in(mod):
        if len(fn.params) != 1:
            continue
        ch = extract_chain(fn)
        if ch is not None and ch[0] == '"' and ch[1] == '"' and ch[2]:
            out.append(fn)
    return out


def encode_char(chain, c):
    s = c
    for a, b in chain:
        s = s.replace(a, b)
    return s


# ---------------------------------------------------------------- decoders
# A decoder is step(state, ch) -> (state', emitted text, event) ; event in (None, 'expand:<what>', 'close')
# states: 'N' normal inside the quotes, 'B' after an escape character, 'END' after the closing quote

def dec_posix_dq(escapable, expanders):
    def step(st, ch):
        if st == "N":
            if ch == "\\":
                return "B", "", None
            if ch == '"':
                return "END", "", "close"
            if ch in expanders:
                return "N", "", "expand:" + ch
            return "N", ch, None
        if st == "B":
            if ch == "\n":
                return "N", "", None  # line continuation: both characters vanish
            if ch in escapable:
                return "N", ch, None
            return "N", "\\" + ch, None
        return "END", "", "after-end"

    return step


def dec_pwsh_dq():
    special = {"n": "\n", "r": "\r", "t": "\t", "0": "\0", "a": "\a", "b": "\b", "e": "\x1b", "f": "\f", "v": "\v"}

    def step(st, ch):
        if st == "N":
            if ch == "`":
                return "B", "", None
            if ch == '"':
                return "Q", "", None  # either a doubled quote or the end
            if ch == "$":
                return "N", "", "expand:$"
            return "N", ch, None
        if st == "B":
            return "N", special.get(ch, ch), None
        if st == "Q":
            if ch == '"':
                return "N", '"', None
            return "END", "", "close-early"
        return "END", "", "after-end"

    return step


def dec_dot_q():
    """Graphviz lexer: inside quotes `\\"` is a quote, `\\\\` is kept as a pair, a bare quote closes (well-formedness only)"""
    def step(st, ch):
        if st == "N":
            if ch == "\\":
                return "B", "", None
            if ch == '"':
                return "END", "", "close"
            return "N", ch, None
        if st == "B":
            return "N", ch if ch in ('"', "\\") else "\\" + ch, None
        return "END", "", "after-end"

    return step


DECODERS = {
    "bash": (dec_posix_dq(escapable='$`"\\', expanders="$`"), "bash double quotes: backslash escapes only $ ` \" \\ and newline; $ and ` start expansions"),
    "zsh": (dec_posix_dq(escapable='$`"\\', expanders="$`"), "zsh double quotes: as POSIX"),
    "fish": (dec_posix_dq(escapable='$"\\', expanders="$"), "fish double quotes: backslash escapes \" $ \\ and newline; $ expands"),
    "pwsh": (dec_pwsh_dq(), "PowerShell double quotes: backtick escapes, $ expands, \"\" is a quote"),
    "dot": (dec_dot_q(), "Graphviz quoted string (lexer level)"),
}


THOROUGH_ALPHABET = [chr(c) for c in range(32, 127)] + ["\n", "\r", "\t", "\u00e9", "\u201d"]


def check(chain, prefix, suffix, target, identity=True, max_delay=4, alphabet=None):
    """Explores all strings over ALPHABET through encode then decode.  Returns (ok, counterexample or None, stats)."""
    step, _ = DECODERS[target]
    # open the constant
    st = "N"
    if prefix != '"':
        return False, {"why": f"constant does not open with a double quote but with {prefix!r}"}, {}
    ALPHABET_ = alphabet or ALPHABET
    images = {c: encode_char(chain, c) for c in ALPHABET_}
    # product state: (decoder state, pending expected text not yet emitted, emitted text not yet expected)
    start = ("N", "", "")
    seen = {start: ""}
    work = [start]
    n_edges = 0
    while work:
        cur = work.pop()
        dstate, exp_pend, out_pend = cur
        path = seen[cur]
        # end of string: the suffix must close the constant exactly
        s2, o2, ev = dstate, "", None
        closed = False
        dd, ep, op = dstate, exp_pend, out_pend
        bad = None
        for ch in suffix:
            dd, o, ev = step(dd, ch)
            op += o
            if ev and ev.startswith("expand"):
                bad = "expansion in suffix"
        # pwsh: the closing quote leaves state Q; end of input there means closed
        if target == "pwsh":
            closed = dd == "Q"
        else:
            closed = dd == "END"
        if not closed:
            return False, {"input": path, "encoded": prefix + "".join(images[c] for c in path) + suffix, "why": "the constant is not terminated by its closing quote (dangling escape)"}, {"states": len(seen)}
        if identity and (ep != op):
            return False, {"input": path, "encoded": prefix + "".join(images[c] for c in path) + suffix, "why": f"reads back as a different string (expected ...{ep!r}, got ...{op!r})"}, {"states": len(seen)}
        for c in ALPHABET_:
            dd, ep, op = dstate, exp_pend + c, out_pend
            fail = None
            for ch in images[c]:
                dd, o, ev = step(dd, ch)
                op += o
                if ev is not None:
                    if ev.startswith("expand"):
                        fail = f"live expansion: unescaped {ev.split(':')[1]!r} reaches the shell"
                    elif ev in ("close", "close-early"):
                        fail = "the constant is closed before its end"
                    elif ev == "after-end":
                        fail = "text after the closing quote"
                if fail:
                    break
            n_edges += 1
            if fail:
                return False, {"input": path + c, "encoded": prefix + "".join(images[x] for x in path + c) + suffix, "why": fail}, {"states": len(seen)}
            if dd == "Q":
                # pwsh: a lone quote at a character boundary: next char decides; keep exploring
                pass
            # cancel common prefix of expected / emitted
            k = 0
            while k < len(ep) and k < len(op) and ep[k] == op[k]:
                k += 1
            ep, op = ep[k:], op[k:]
            if identity and ep and op:
                return False, {"input": path + c, "encoded": prefix + "".join(images[x] for x in path + c) + suffix, "why": f"reads back as a different string (expected {ep!r}, got {op!r})"}, {"states": len(seen)}
            if len(ep) > max_delay or len(op) > max_delay:
                return False, {"input": path + c, "why": "unbounded delay between input and decoded output"}, {"states": len(seen)}
            if not identity:
                ep = op = ""
            nxt = (dd, ep, op)
            if nxt not in seen:
                seen[nxt] = path + c
                work.append(nxt)
    return True, None, {"states": len(seen), "edges": n_edges, "alphabet": len(ALPHABET_)}
