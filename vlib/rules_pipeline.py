"""Rules about pass ordering and data lineage in straight-line pipeline functions
(check::ValidGrammar::from_grammar, main::aot, regex::Regex::from_expr ...) -- engine S.
TR (translation table of regex::do_from_expr), PHASE, lineage/MPT on the syntax tree."""
from . import ast as A
from . import prov as P
from .rules_tree import find_enum_matches, is_enum_path, child_fields


def call_nest(p, names, out=None):
    """Names (last segment) of pipeline calls nested in a provenance term, outermost first,
    following whichever sub-term contains further pipeline calls."""
    if out is None:
        out = []
    if not isinstance(p, tuple) or not p:
        return out
    if p[0] == "call" and P.last(p[1]) in names:
        out.append(P.last(p[1]))
    elif p[0] == "mcall" and p[1] in names:
        out.append(p[1])
    for x in A.subterms(p):
        call_nest(x, names, out)
    return out


def arm_for(repo, fn, enum, variant):
    """(arm, match) for the unguarded arm of fn's main match naming `variant`."""
    for m in find_enum_matches(repo, fn, enum):
        for arm in m["arms"]:
            for path, pn in A.pat_variants(arm["pat"]):
                if is_enum_path(path, enum, fn) and path.split("::")[-1] == variant:
                    return arm, m
    return None, None


def arm_value(fn, envs, arm, match):
    env = envs.get(id(match))
    aenv = A.bind_pattern(env, arm["pat"], match["scrut"], env, "bind", arm)
    if arm["guard"] is not None and arm["guard"]["k"] == "Let":
        g = arm["guard"]
        aenv = A.bind_pattern(aenv, g["pat"], g["expr"], aenv, "bind", g)
    val = A.resolve(arm["body"], aenv)
    # when the match is the function's result, a `return X` inside the arm (`let Some(d) = .. else { return expr_id };`) is one more
    # value the arm can give
    tail = fn.body
    while tail is not None and tail.get("k") == "Block" and tail.get("stmts") and tail["stmts"][-1].get("k") == "ExprStmt" and not tail["stmts"][-1].get("semi"):
        tail = tail["stmts"][-1]["expr"]
    if tail is match:
        rets = []
        stack = [arm["body"]]
        while stack:
            x = stack.pop()
            if isinstance(x, dict):
                if x.get("k") == "Closure":
                    continue
                if x.get("k") == "Return" and x.get("expr") is not None:
                    rets.append(A.resolve(x["expr"], envs.get(id(x)) or envs.get(id(x["expr"])) or aenv))
                stack.extend(v for v in x.values() if isinstance(v, (dict, list)))
            elif isinstance(x, list):
                stack.extend(v for v in x if isinstance(v, (dict, list)))
        if rets:
            alts = (val[1] if val[0] == "alt" else (val,)) + tuple(rets)
            val = ("alt", alts)
    return val, aenv


def unwrap_ok_alloc(p):
    """Ok(alloc(arena, X)) -> X ; also through let-bound ids."""
    p = P.peel(p)
    if p[0] == "call" and P.last(p[1]) == "Ok" and len(p[2]) == 1:
        p = p[2][0]
    if p[0] == "call" and P.last(p[1]) == "alloc" and len(p[2]) == 2:
        return p[2][1]
    return None


def bind_of(p, variant, field):
    """p is the binding of variant.field -- or, in an arm with an or-pattern, one of the same-named bindings of the listed variants"""
    alts = p[1] if p[0] == "alt" else (p,)
    return all(a[0] == "bind" and a[2] == field for a in alts) and any(P.last(a[1]) == variant for a in alts)


def is_rec_map(p, fname, variant, field):
    """p == <variant.field>.iter().map(|e| fname(.. e ..)).collect()[?]  (order preserving, complete)"""
    p = P.peel(p)
    if not (p[0] == "mcall" and p[1] == "collect"):
        return False, "not a collect()"
    m = p[2]
    if not (m[0] == "mcall" and m[1] == "map"):
        return False, "collect() not fed by map()"
    it = m[2]
    if not (it[0] == "mcall" and it[1] in ("iter", "into_iter")):
        return False, f"map() receiver is .{it[1] if it[0]=='mcall' else it[0]}(), expected .iter()"
    src = it[2]
    if not bind_of(src, variant, field):
        return False, f"iterates {A.show(src)}, expected {variant}.{field}"
    return True, ""


def is_rec_push_loop(fn, envs, pm, arm, p, fname, variant, field):
    """p is a local vector filled, in this arm, by exactly one `v.push(fname(.. child ..)[?])` standing directly in a `for` over
    variant.field (forward, no adaptor, no condition, no break / continue): the spelled-out `iter().map(rec).collect()`"""
    p = P.peel(p)
    if p[0] != "local":
        return False
    name = p[1]
    pushes = [c for c in P.find_calls(arm["body"], methods={"push"}) if c["recv"]["k"] == "Path" and c["recv"]["path"] == name]
    others = [c for c in P.find_calls(arm["body"], methods={"insert", "extend", "remove", "pop", "truncate", "clear", "retain", "reverse", "sort", "swap", "dedup"}) if c["recv"]["k"] == "Path" and c["recv"]["path"] == name]
    if len(pushes) != 1 or others:
        return False
    c = pushes[0]
    gs = A.guards_of(c, pm, stop=arm)
    if len(gs) != 1 or gs[0][0]["k"] != "ForLoop":
        return False
    lp = gs[0][0]
    if any(x["k"] in ("Break", "Continue") for x in A.walk(lp["body"])):
        return False
    it = A.resolve(lp["iter"], envs.get(id(lp)))
    while it[0] in ("ref", "deref") or (it[0] == "mcall" and it[1] in ("iter", "into_iter", "copied", "cloned")):
        it = it[1] if it[0] != "mcall" else it[2]
    if not bind_of(it, variant, field):
        return False
    a = P.peel(A.resolve(c["args"][0], envs.get(id(c))))
    return a[0] == "call" and P.last(a[1]) == fname and any(r[0] == "bind" and P.last(r[1]) == variant and r[2] == field for x in a[2] for r in A.roots(x))


def closure_calls(repo_fn, envs, closure_id, fname, variant, field):
    """does the closure body call fname with the iterated element?"""
    for n in A.walk(repo_fn.body):
        if id(n) == closure_id:
            for c in P.find_calls(n["body"], names={fname}):
                env = envs.get(id(c))
                for a in c["args"]:
                    pr = A.resolve(a, env)
                    if pr[0] == "elem" and any(
                        r[0] == "bind" and P.last(r[1]) == variant and r[2] == field for r in A.roots(pr)
                    ):
                        return True
    return False


def tr_check(repo, res, rule="TR"):
    """Translation table of regex::do_from_expr + the end-marker in Regex::from_expr."""
    fq = "regex::do_from_expr"
    fn = repo.fn(fq)
    if fn is None:
        res.undecided(rule, f"{rule}:{fq}", "function not found")
        return
    envs = A.collect_envs(fn)
    pm = A.parent_map(fn.body)
    me = fn.name

    def rec_of(p, variant, field):
        p = P.peel(p)
        return p[0] == "call" and P.last(p[1]) == me and any(bind_of(a, variant, field) for a in p[2])

    def key(v):
        return f"{rule}:{fq}:{v}"

    # --- n-ary: Sequence -> Cat, Alternative/Fallback -> Or
    for v, want in (("Sequence", "Cat"), ("Alternative", "Or"), ("Fallback", "Or")):
        arm, m = arm_for(repo, fn, "Expr", v)
        if arm is None:
            res.undecided(rule, key(v), f"no arm for Expr::{v}", fn.loc())
            continue
        loc = f"{fn.file}:{arm['l']}"
        val, _ = arm_value(fn, envs, arm, m)
        x = unwrap_ok_alloc(val)
        if x is None or x[0] != "call" or len(x[2]) != 1:
            res.bad(rule, key(v), f"arm value is {A.show(val)}, expected Ok(alloc(_, RegexNode::{want}(..)))", loc)
            continue
        if P.last(x[1]) != want:
            res.bad(rule, key(v), f"Expr::{v} is translated to RegexNode::{P.last(x[1])}, the grammar's meaning needs {want}", loc)
            continue
        ok, why = is_rec_map(x[2][0], me, v, "children")
        if not ok and is_rec_push_loop(fn, envs, pm, arm, x[2][0], me, v, "children"):
            res.ok(rule, key(v), f"{want}(children translated one by one, in order, by a loop that pushes rec(child)) ", loc)
            continue
        if ok:
            coll = P.peel(x[2][0])
            clo = [a for a in coll[2][3] if a[0] == "closure"]
            ok = bool(clo) and closure_calls(fn, envs, clo[0][1], me, v, "children")
            why = "map closure does not translate the element recursively"
        res.check(ok, rule, key(v), f"{want}(children.iter().map(rec).collect()) in order" if ok else why, loc)

    # --- Optional -> Or{x, eps}
    arm, m = arm_for(repo, fn, "Expr", "Optional")
    if arm is None:
        res.undecided(rule, key("Optional"), "no arm", fn.loc())
    else:
        loc = f"{fn.file}:{arm['l']}"
        val, _ = arm_value(fn, envs, arm, m)
        x = unwrap_ok_alloc(val)
        ok = False
        why = f"arm value is {A.show(val)}"
        if x is not None and x[0] == "call" and P.last(x[1]) == "Or" and len(x[2]) == 1:
            v = x[2][0]
            if v[0] == "macro" and P.last(v[1]) == "vec" and len(v[2]) == 2:
                a, b = v[2]

                def is_eps(t):
                    t = P.peel(t)
                    return t[0] == "call" and P.last(t[1]) == "alloc" and len(t[2]) == 2 and t[2][1][0] == "path" and t[2][1][1].endswith("RegexNode::Epsilon")

                ok = (rec_of(a, "Optional", "child") and is_eps(b)) or (rec_of(b, "Optional", "child") and is_eps(a))
                why = "Or{rec(child), Epsilon}" if ok else f"Or of {A.show(a)} and {A.show(b)}: expected the translated child and Epsilon"
            else:
                why = f"Or over {A.show(v)}: expected exactly two alternatives"
        elif x is not None and x[0] == "call":
            why = f"Expr::Optional is translated to RegexNode::{P.last(x[1])}"
        res.check(ok, rule, key("Optional"), why, loc)

    # --- Many1 -> Cat{x, Star(x)}
    arm, m = arm_for(repo, fn, "Expr", "Many1")
    if arm is None:
        res.undecided(rule, key("Many1"), "no arm", fn.loc())
    else:
        loc = f"{fn.file}:{arm['l']}"
        val, _ = arm_value(fn, envs, arm, m)
        x = unwrap_ok_alloc(val)
        ok = False
        why = f"arm value is {A.show(val)}"
        if x is not None and x[0] == "call" and P.last(x[1]) == "Cat" and len(x[2]) == 1:
            v = x[2][0]
            if v[0] == "macro" and P.last(v[1]) == "vec" and len(v[2]) == 2:
                a, b = v[2]

                def is_star_of(t, inner):
                    t = P.peel(t)
                    if not (t[0] == "call" and P.last(t[1]) == "alloc" and len(t[2]) == 2):
                        return False
                    s = t[2][1]
                    return s[0] == "call" and P.last(s[1]) == "Star" and len(s[2]) == 1 and P.peel(s[2][0]) == P.peel(inner)

                ok = (rec_of(a, "Many1", "child") and is_star_of(b, a)) or (rec_of(b, "Many1", "child") and is_star_of(a, b))
                why = "Cat{rec(child), Star(rec(child))}" if ok else f"Cat of {A.show(a)} and {A.show(b)}: expected x and Star(x)"
            else:
                why = f"Cat over {A.show(v)}"
        elif x is not None and x[0] == "call":
            why = f"Expr::Many1 is translated to RegexNode::{P.last(x[1])} (e.g. a bare Star accepts zero repetitions)"
        res.check(ok, rule, key("Many1"), why, loc)

    # --- leaves: node carries the position = input_from_position.len() taken BEFORE the push, and the
    # pushed input is the RegexInput built from this node
    leaves = (("Terminal", "Terminal", "Literal"), ("Subword", "Subword", "Subword"),
              ("NontermRef", "Nonterminal", "Nonterminal"), ("Command", "Command", "Command"))
    for v, node_ctor, input_ctor in leaves:
        arm, m = arm_for(repo, fn, "Expr", v)
        if arm is None:
            res.undecided(rule, key(v), "no arm", fn.loc())
            continue
        loc = f"{fn.file}:{arm['l']}"
        val, aenv = arm_value(fn, envs, arm, m)
        x = unwrap_ok_alloc(val)
        if not (x is not None and x[0] == "call" and P.last(x[1]) == node_ctor and len(x[2]) == 1):
            res.bad(rule, key(v), f"arm value {A.show(val)}; expected Ok(alloc(_, RegexNode::{node_ctor}(position)))", loc)
            continue
        pos = x[2][0]
        pos_ok = pos[0] == "cast" and pos[1][0] == "mcall" and pos[1][1] == "len" and pos[1][2][0] == "param"
        pushes = [c for c in P.find_calls(arm["body"], methods={"push"})]
        lens = [c for c in P.find_calls(arm["body"], methods={"len"})]
        order_ok = bool(pushes) and bool(lens) and all(A.before(l, p) for l in lens for p in pushes)
        pushed_ok = False
        pushed = None
        for pc in pushes:
            env = envs.get(id(pc))
            recv = A.resolve(pc["recv"], env)
            if recv[0] == "param" and pos_ok and recv == pos[1][2] and len(pc["args"]) == 1:
                pushed = A.resolve(pc["args"][0], env)
                pushed_ok = pushed[0] == "ctor" and pushed[1].endswith("RegexInput::" + input_ctor)
        res.check(
            pos_ok and order_ok and pushed_ok and len(pushes) == 1,
            rule,
            key(v),
            f"RegexNode::{node_ctor}(inputs.len()) then exactly one inputs.push(RegexInput::{input_ctor}{{..}})"
            if (pos_ok and order_ok and pushed_ok and len(pushes) == 1)
            else f"position={A.show(pos)} len-before-push={order_ok} pushes={len(pushes)} pushed={A.show(pushed) if pushed else None}",
            loc,
        )

    # --- Regex::from_expr: Cat[regex, EndMarker(inputs.len() after translation)] , end marker last
    fq2 = "regex::Regex::from_expr"
    f2 = repo.fn(fq2)
    if f2 is None:
        res.undecided(rule, f"{rule}:{fq2}", "function not found")
        return
    envs2 = A.collect_envs(f2)
    sites = list(P.ctor_sites(f2.body, "Self")) + list(P.ctor_sites(f2.body, "Regex"))
    sites = [s for s in sites if s["k"] == "Struct"]
    if len(sites) != 1:
        res.undecided(rule, f"{rule}:{fq2}:ctor", f"{len(sites)} Regex constructor sites found, expected 1", f2.loc())
        return
    site = sites[0]
    env = envs2.get(id(site))
    root = A.resolve(P.ctor_field(site, "root_id"), env)
    arena = A.resolve(P.ctor_field(site, "arena"), env)
    emp = A.resolve(P.ctor_field(site, "endmarker_position"), env)
    ifp = A.resolve(P.ctor_field(site, "input_from_position"), env)
    loc = f"{f2.file}:{site['l']}"
    ok = False
    why = f"root_id = {A.show(root)}"
    r = P.peel(root)
    if r[0] == "call" and P.last(r[1]) == "alloc" and len(r[2]) == 2:
        c = r[2][1]
        if c[0] == "call" and P.last(c[1]) == "Cat" and c[2] and c[2][0][0] == "macro" and len(c[2][0][2]) == 2:
            a, b = c[2][0][2]
            a_ok = P.peel(a)[0] == "call" and P.last(P.peel(a)[1]) == "do_from_expr"
            bb = P.peel(b)
            b_ok = (
                bb[0] == "call" and P.last(bb[1]) == "alloc" and len(bb[2]) == 2 and bb[2][1][0] == "call"
                and P.last(bb[2][1][1]) == "EndMarker" and bb[2][1][2] and bb[2][1][2][0] == emp
            )
            ok = a_ok and b_ok
            why = "root = Cat[do_from_expr(root_expr), EndMarker(endmarker_position)] (end marker last)" if ok else f"Cat[{A.show(a)}, {A.show(b)}]"
    res.check(ok, rule, f"{rule}:{fq2}:root", why, loc)
    # endmarker position is taken after the translation filled input_from_position
    lens = [c for c in P.find_calls(f2.body, methods={"len"})]
    trans = [c for c in P.find_calls(f2.body, names={"do_from_expr"})]
    ok2 = emp[0] == "cast" and emp[1][0] == "mcall" and emp[1][1] == "len" and len(trans) == 1 and all(A.before(trans[0], l) for l in lens)
    res.check(ok2, rule, f"{rule}:{fq2}:endmarker_position", f"endmarker_position = {A.show(emp)} computed after do_from_expr" if ok2 else f"endmarker_position = {A.show(emp)}; translations={len(trans)}", loc)
    # the expression translated is the one handed in
    if trans:
        env = envs2.get(id(trans[0]))
        a0 = A.resolve(trans[0]["args"][0], env)
        res.check(a0[0] == "param", rule, f"{rule}:{fq2}:root_expr", f"translates {A.show(a0)}", loc)


def phase_check(repo, res, rule="PHASE"):
    """DistributiveDescription is eliminated by distribute_descriptions before every pass that treats it
    as unreachable!()."""
    fq = "check::do_distribute_descriptions"
    fn = repo.fn(fq)
    if fn is None:
        res.undecided(rule, f"{rule}:{fq}", "function not found")
        return
    envs = A.collect_envs(fn)
    arm, m = arm_for(repo, fn, "Expr", "DistributiveDescription")
    if arm is None:
        res.undecided(rule, f"{rule}:{fq}:arm", "no DistributiveDescription arm", fn.loc())
        return
    val, _ = arm_value(fn, envs, arm, m)
    alts = val[1] if val[0] == "alt" else (val,)

    def fine(t):
        t = P.peel(t)
        if t[0] == "bind" and P.last(t[1]) == "DistributiveDescription" and t[2] == "child":
            return True
        return t[0] == "call" and P.last(t[1]) == fn.name

    res.check(all(fine(t) for t in alts), rule, f"{rule}:{fq}:returns-child",
              f"DistributiveDescription arm yields {A.show(val)} (never the node itself)", f"{fn.file}:{arm['l']}")
    # nobody but the parser and the two shape-preserving rebuilders constructs the variant
    builders = []
    for q, f in repo.fns.items():
        for s in P.ctor_sites(f.body, "Expr::DistributiveDescription"):
            if s["k"] == "Struct":
                builders.append(q)
    allowed = {"parse::subword_sequence_expr_opt_description", "parse::flatten_expr", "check::collapse_subwords"}
    extra = sorted(set(builders) - allowed)
    res.check(not extra, rule, f"{rule}:constructors", f"DistributiveDescription constructed in {sorted(set(builders))}" + (f"; unexpected: {extra}" if extra else ""), "")
    res.check("parse::subword_sequence_expr_opt_description" in builders, rule, f"{rule}:parser-anchor", "parser constructor site found", "")


def from_grammar_order(repo, res, rule="MPT"):
    """check::ValidGrammar::from_grammar: the expression handed on was produced by every pass in order,
    every plain definition went through the same passes, and the fallible checks sit unconditionally
    on the success path."""
    fq = "check::ValidGrammar::from_grammar"
    fn = repo.fn(fq)
    if fn is None:
        res.undecided(rule, f"{rule}:{fq}", "function not found")
        return None
    envs = A.collect_envs(fn)
    pm = A.parent_map(fn.body)
    sites = [s for s in P.ctor_sites(fn.body, "ValidGrammar") if s["k"] == "Struct"]
    if len(sites) != 1:
        res.undecided(rule, f"{rule}:{fq}:ctor", f"{len(sites)} ValidGrammar constructor sites", fn.loc())
        return None
    site = sites[0]
    env = envs.get(id(site))
    e = A.resolve(P.ctor_field(site, "expr"), env)
    passes = ["propagate_fallback_levels", "collapse_subwords", "resolve_nonterminals", "specialize_nonterminals", "distribute_descriptions"]
    # a pass may be called through its thin wrapper `X` or directly as its worker `do_X`
    nest = [n[3:] if n.startswith("do_") and n[3:] in passes else n for n in call_nest(e, set(passes) | {"do_" + x for x in passes})]
    res.check(nest == passes, rule, f"{rule}:{fq}:expr-lineage",
              "ValidGrammar.expr = " + " <- ".join(nest) + (" (as required)" if nest == passes else f"; required {' <- '.join(passes)}"),
              f"{fn.file}:{site['l']}")
    # arena handed on is the one the passes wrote into
    ar = A.resolve(P.ctor_field(site, "arena"), env)
    res.check(ar[0] == "field" and ar[2] == "arena" and ar[1][0] == "param", rule, f"{rule}:{fq}:arena", f"ValidGrammar.arena = {A.show(ar)}", f"{fn.file}:{site['l']}")

    # definitions: rhs_expr_id assignments, in order distribute < specialize < resolve, each unconditional
    assigns = []
    for n in A.walk(fn.body):
        if n["k"] == "Assign" and n["left"]["k"] == "Field" and n["left"]["member"] == "rhs_expr_id":
            env = envs.get(id(n))
            rp = A.resolve(n["right"], env)
            nm = call_nest(rp, set(passes))
            gs = [g for g in A.guards_of(n, pm) if g[0]["k"] != "ForLoop"]
            assigns.append((n, nm[0] if nm else A.show(rp), gs))
    # resolve writes through get_mut(..).unwrap().rhs_expr_id
    seq = [a[1] for a in assigns]
    want = ["distribute_descriptions", "specialize_nonterminals", "resolve_nonterminals"]
    res.check(seq == want, rule, f"{rule}:{fq}:definition-passes", f"definition bodies rewritten by {seq}" + ("" if seq == want else f", required {want}"), fn.loc())
    for n, nm, gs in assigns:
        res.check(not gs, rule, f"{rule}:{fq}:definition-pass-unconditional:{nm}", f"{nm} applied to every definition (loop body, no condition)" if not gs else f"{nm} is applied under {[g[0]['k'] for g in gs]}", f"{fn.file}:{n['l']}")
        # the loop runs over all plain definitions
        loops = [g for g in A.guards_of(n, pm) if g[0]["k"] == "ForLoop"]
        if loops:
            lp = loops[-1][0]
            it = A.resolve(lp["iter"], envs.get(id(lp)))
            names = call_nest(it, {"iter_mut", "values_mut", "get_nonterminals_resolution_order"})
            res.check(bool(names), rule, f"{rule}:{fq}:definition-loop:{nm}", f"loop over {A.show(it)[:120]}", f"{fn.file}:{lp['l']}")
        else:
            res.bad(rule, f"{rule}:{fq}:definition-loop:{nm}", "not inside a loop over the definitions", f"{fn.file}:{n['l']}")

    # fallible validations: unconditional top-level `?`
    order = {}
    for name in ("get_specializations", "get_nonterminals_resolution_order", "check_subword_spaces"):
        cs = list(P.find_calls(fn.body, names={name}, methods={name}))
        if len(cs) != 1:
            res.bad(rule, f"{rule}:{fq}:{name}", f"{len(cs)} call sites, expected 1", fn.loc())
            continue
        c = cs[0]
        par = pm.get(id(c))
        is_try = A.propagates(c, pm)
        gs = A.guards_of(c, pm)
        order[name] = c
        res.check(is_try and not gs, rule, f"{rule}:{fq}:{name}", f"{name}(..)? on every path" if is_try and not gs else f"try={is_try} guards={[g[0]['k'] for g in gs]}", f"{fn.file}:{c['l']}")
    # check_subword_spaces sees the specialised expression and follows definitions
    c = order.get("check_subword_spaces")
    if c is not None:
        env = envs.get(id(c))
        a = [A.resolve(x, env) for x in c["args"]]
        nest1 = call_nest(a[1], set(passes)) if len(a) > 1 else []
        res.check(nest1[:1] == ["specialize_nonterminals"], rule, f"{rule}:{fq}:check_subword_spaces:arg", f"checked expression lineage {nest1}", f"{fn.file}:{c['l']}")
        # ... and it runs on EXPANDED definitions: two literals are adjacent inside a word also when each is the whole body of a referenced
        # definition, which the check sees as literals only after the definitions were inlined into each other (the expansion loop)
        loops = [lp for lp in A.walk(fn.body) if lp["k"] == "ForLoop" and any(True for _ in P.find_calls(lp["body"], names={"resolve_nonterminals"}))]
        after = bool(loops) and all((lp["el"], lp["ec"]) <= (c["l"], c["c"]) for lp in loops)
        res.check(after, rule, f"{rule}:{fq}:check_subword_spaces:after-expansion", "check_subword_spaces runs after the loop that expands definitions into each other" if after else "check_subword_spaces runs BEFORE the definitions are expanded into each other: literals that come together only through references are not seen as adjacent", f"{fn.file}:{c['l']}")
    # definitions are collected before any use: the duplicate check + map fill precede the first pass
    return {"assigns": assigns, "order": order}


# ---- `Adjacent literals in a subword`: the check wherever its parts live ---------------------------------------------------------
def subword_spaces_core(repo):
    """The adjacency test behind Error::SubwordSpaces, located by what it does rather than by where it stands (it may be written in
    do_check_subword_spaces or in a helper of the module): a function of check.rs that calls BOTH expr_get_tail and expr_get_head,
    on the two members of each adjacent pair of one children list (windows(2), or zip with skip(1)), keeps the pairs whose tail and
    head are both `Expr::Terminal`, and hands out the left literal's span first and the right literal's span second; and the error
    is built from exactly those two, in that order.  Returns a dict of findings (each True / False) plus a text."""
    out = {"found": False}
    core = None
    for f in repo.fns_in("check"):
        names = {P.last(c["func"]["path"]) for c in A.walk(f.body) if c["k"] == "Call" and c["func"]["k"] == "Path"}
        if {"expr_get_tail", "expr_get_head"} <= names:
            core = f
            break
    if core is None:
        return out
    out["found"] = True
    out["core"] = core.qname
    envs = A.collect_envs(core)
    tails = [c for c in P.find_calls(core.body, names={"expr_get_tail"})]
    heads = [c for c in P.find_calls(core.body, names={"expr_get_head"})]
    if len(tails) != 1 or len(heads) != 1:
        out["why"] = f"{len(tails)} tail calls, {len(heads)} head calls"
        return out
    L = A.resolve(tails[0]["args"][-1], envs.get(id(tails[0])))
    R = A.resolve(heads[0]["args"][-1], envs.get(id(heads[0])))
    strip = lambda p: p[1] if p[0] in ("deref", "ref") else p
    L, R = strip(L), strip(R)

    def member(p):
        """(source list term, position 0/1) of a pair member, or None"""
        if p[0] == "slice" and p[1][0] == "elem":
            src = p[1][1]
            while src[0] == "mcall" and src[1] in ("map", "find_map", "filter", "iter"):
                src = src[2]
            if src[0] == "mcall" and src[1] == "windows" and src[3] and src[3][0] == ("lit", "2"):
                return ("windows", src[2]), p[2]
        if p[0] == "proj" and p[1][0] == "elem":
            src = p[1][1]
            while src[0] == "mcall" and src[1] in ("map", "find_map", "filter"):
                src = src[2]
            if src[0] == "mcall" and src[1] == "zip" and src[3]:
                a, b = src[2], src[3][0]
                while a[0] == "mcall" and a[1] in ("iter", "into_iter"):
                    a = a[2]
                skipped = False
                while b[0] == "mcall" and b[1] in ("iter", "into_iter", "skip"):
                    if b[1] == "skip":
                        skipped = b[3] and b[3][0] == ("lit", "1")
                    b = b[2]
                if skipped and a == b:
                    return ("zip", a), p[2]
        return None

    ml, mr = member(L), member(R)
    out["pairs"] = bool(ml and mr and ml[0] == mr[0] and ml[1] == 0 and mr[1] == 1)
    src = ml[0][1] if ml else ("none",)
    while src[0] in ("ref", "deref"):
        src = src[1]
    out["over_children"] = (src[0] == "bind" and P.last(src[1]) == "Sequence" and src[2] == "children") or src[0] == "param"
    # both Terminal: a 2-tuple pattern of Expr::Terminal over (tail .., head ..)
    both = False
    span_binds = None
    for n in A.walk(core.body):
        pat, scr = None, None
        if n["k"] == "If" and n["cond"]["k"] == "Let":
            pat, scr = n["cond"]["pat"], n["cond"]["expr"]
        elif n["k"] == "Local" and n.get("else") is not None:
            pat, scr = n["pat"], n.get("init")
        elif n["k"] == "Match":
            for arm in n["arms"]:
                if arm["pat"]["k"] == "PTuple":
                    pat, scr = arm["pat"], n["scrut"]
                    break
        if pat is None or pat["k"] != "PTuple" or len(pat["elems"]) != 2 or scr is None or scr["k"] != "Tuple" or len(scr["elems"]) != 2:
            continue
        kinds = [P.last(v[0]) for e in pat["elems"] for v in A.pat_variants(e)]
        s0 = A.show(A.resolve(scr["elems"][0], envs.get(id(scr)) or envs.get(id(n))))
        s1 = A.show(A.resolve(scr["elems"][1], envs.get(id(scr)) or envs.get(id(n))))
        if kinds == ["Terminal", "Terminal"] and "expr_get_tail" in s0 and "expr_get_head" not in s0 and "expr_get_head" in s1 and "expr_get_tail" not in s1:
            both = True
    out["both_terminal"] = both
    # where the error is built
    raiser = None
    for f in repo.fns_in("check"):
        if list(P.ctor_sites(f.body, "Error::SubwordSpaces")):
            raiser = f
    out["raiser"] = raiser.qname if raiser else None
    order = False
    if raiser is not None:
        renvs = A.collect_envs(raiser)
        s = list(P.ctor_sites(raiser.body, "Error::SubwordSpaces"))[0]
        if s["k"] == "Call" and len(s["args"]) >= 2:
            a0 = A.resolve(s["args"][0], renvs.get(id(s)))
            a1 = A.resolve(s["args"][1], renvs.get(id(s)))
            t0, t1 = A.show(a0), A.show(a1)
            direct = "expr_get_tail" in t0 and "expr_get_head" not in t0 and "expr_get_head" in t1 and "expr_get_tail" not in t1
            # or: components 0 and 1 of one pair value (what a helper returned / what a find_map found) ...
            q0, q1 = strip(a0), strip(a1)
            positional = q0[0] == "proj" and q1[0] == "proj" and q0[2] == 0 and q1[2] == 1 and q0[1] == q1[1] and (raiser is core or core.name in A.show(q0[1]))
            # ... where the pair is built, inside the core, as (left literal's span, right literal's span)
            inner = False
            for tp in A.walk(core.body):
                if tp["k"] == "Tuple" and len(tp["elems"]) == 2:
                    x0 = A.show(A.resolve(tp["elems"][0], envs.get(id(tp))))
                    x1 = A.show(A.resolve(tp["elems"][1], envs.get(id(tp))))
                    if "span" in x0 and "span" in x1 and "expr_get_tail" in x0 and "expr_get_head" not in x0 and "expr_get_head" in x1 and "expr_get_tail" not in x1:
                        inner = True
            order = (direct and raiser is core) or (positional and inner)
    out["order"] = order
    out["ok"] = bool(out.get("pairs") and out.get("over_children") and both and order)
    out["why"] = f"core in {core.qname}: adjacent pairs of one children list={out.get('pairs')} over a Sequence's children={out.get('over_children')} both Terminal={both}; error built in {out['raiser']} from (left tail span, right head span)={order}"
    return out
