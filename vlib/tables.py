import os
import tomllib

from .core import VERIF

_cache = {}


def load(name):
    if name not in _cache:
        with open(os.path.join(VERIF, "tables", name + ".toml"), "rb") as f:
            _cache[name] = tomllib.load(f)
    return _cache[name]


def tree_tables():
    t = load("tree")
    allow = {}
    for a in t.get("allow", []):
        allow.setdefault(a["fn"], {})[(a["variant"], a["field"])] = a["reason"]
    for ph in t.get("phase", []):
        for fn in ph["fns"]:
            allow.setdefault(fn, {})[(ph["variant"], ph["field"])] = (
                f"PHASE: eliminated by {ph['eliminated_by']} ({ph['reason']})"
            )
    return t, allow
