"""Engine M: MIR facts of the local crates, produced by tools/mirfacts (a rustc_private driver run as
RUSTC_WORKSPACE_WRAPPER under `cargo +nightly check`), plus CFG / call-graph helpers."""
import glob
import json
import os
import shutil
import subprocess
import sys
import time

from . import core

DRIVER = os.path.join(core.VERIF, "tools/mirfacts/target/debug/mirfacts")
SHIM = os.path.join(core.VERIF, "tools/shim/rustc")
TARGET = os.path.join(core.WORK, "target")


def nightly_sysroot():
    r = subprocess.run(["rustc", "+nightly", "--print", "sysroot"], stdout=subprocess.PIPE, text=True)
    return r.stdout.strip()


def run_driver(repo_dir, out_dir, crates="complgen", target=TARGET, extra_env=None, release_like=False):
    """cargo +nightly check with the driver as workspace wrapper. Returns (rc, stderr tail)."""
    os.makedirs(out_dir, exist_ok=True)
    os.makedirs(target, exist_ok=True)
    # cargo's freshness cache would skip the wrapper: forget the members' fingerprints
    for cr in crates.split(","):
        for fp in glob.glob(os.path.join(target, "debug", ".fingerprint", cr + "-*")):
            shutil.rmtree(fp, ignore_errors=True)
    nonce = f"{os.getpid()}-{time.time_ns()}"
    env = dict(os.environ)
    env.update(
        {
            "RUSTC": SHIM,
            "LD_LIBRARY_PATH": os.path.join(nightly_sysroot(), "lib") + ":" + env.get("LD_LIBRARY_PATH", ""),
            "RUSTFLAGS": "-Zmir-opt-level=0 -Awarnings" + (" -Coverflow-checks=off" if release_like else ""),
            "RUSTC_WORKSPACE_WRAPPER": DRIVER,
            "MIRFACTS_OUT": out_dir,
            "MIRFACTS_NONCE": nonce,
            "MIRFACTS_CRATES": crates,
            "CARGO_TARGET_DIR": target,
            "CARGO_NET_OFFLINE": "true",
        }
    )
    if extra_env:
        env.update(extra_env)
    r = subprocess.run(["cargo", "+nightly", "check", "--offline"], cwd=repo_dir, env=env, stdout=subprocess.PIPE, stderr=subprocess.PIPE, text=True)
    return r.returncode, r.stderr[-6000:], nonce


class MFn:
    __slots__ = ("path", "kind", "parent", "self_ty", "span", "argc", "locals", "names", "blocks", "crate", "raw_path")

    def loc(self):
        return f"{self.span['file']}:{self.span['line']}"


def norm_path(p, crate_kind):
    """lib items are keyed without the crate name, bin items under `main::` (same keys as engine S)."""
    if crate_kind == "bin":
        if p.startswith("complgen::"):
            return p[len("complgen::"):]
        if p.startswith("<complgen::"):
            return "<" + p[len("<complgen::"):]
        return p
    return p


class Mir:
    def __init__(self, files, renames=None):
        self.fns = {}
        self.crates = []
        from . import canon
        rn = lambda p: canon.rename_in_path(p, renames)
        for f in files:
            with open(f) as fh:
                d = json.load(fh)
            if renames:
                for fn in d["fns"]:
                    fn["path"] = rn(fn["path"])
                    fn["parent"] = rn(fn["parent"]) if fn["parent"] else fn["parent"]
                    for b in fn["blocks"]:
                        t = b["term"]
                        if t["k"] == "call":
                            t["callee"] = rn(t["callee"])
                            t["resolved"] = rn(t["resolved"]) if t["resolved"] else t["resolved"]
            kind = "bin" if "Executable" in d["crate_types"] else "lib"
            self.crates.append((d["crate"], kind, len(d["fns"])))
            for fn in d["fns"]:
                m = MFn()
                m.raw_path = fn["path"]
                m.crate = kind
                m.path = ("main::" + fn["path"]) if kind == "bin" else fn["path"]
                m.kind = fn["kind"]
                m.parent = (("main::" + fn["parent"]) if kind == "bin" else fn["parent"]) if fn["parent"] else ""
                m.self_ty = fn["self_ty"]
                m.span = fn["span"]
                m.argc = fn["argc"]
                m.locals = fn["locals"]
                m.names = fn["names"]
                m.blocks = fn["blocks"]
                # normalise callee names
                for b in m.blocks:
                    t = b["term"]
                    if t["k"] == "call":
                        t["callee_n"] = self._callee_key(t["callee"], kind)
                        t["resolved_n"] = self._callee_key(t["resolved"], kind) if t["resolved"] else ""
                self.fns[m.path] = m
        self._callgraph = None

    @staticmethod
    def _callee_key(p, kind):
        if kind == "bin":
            if p.startswith("complgen::") or p.startswith("<complgen::"):
                return norm_path(p, "bin")
            # a bin-local item
            return p
        return p

    def callee_of(self, fn, t):
        """best name for the callee of call terminator t inside fn (local fns resolved to our keys)"""
        n = t["resolved_n"] or t["callee_n"]
        if fn.crate == "bin" and ("main::" + n) in self.fns:
            return "main::" + n
        return n

    def callgraph(self):
        if self._callgraph is not None:
            return self._callgraph
        g = {}
        for p, fn in self.fns.items():
            out = set()
            for b in fn.blocks:
                t = b["term"]
                if t["k"] == "call":
                    out.add(self.callee_of(fn, t))
                    for a in t["args"]:
                        if a.get("k") == "const" and a.get("fn"):
                            k = a["fn"]
                            if fn.crate == "bin" and ("main::" + k) in self.fns:
                                k = "main::" + k
                            out.add(norm_path(k, fn.crate))
                for st in b["stmts"]:
                    rv = st["val"]["rv"]
                    if rv.startswith("aggregate:closure:"):
                        k = rv[len("aggregate:closure:"):]
                        if fn.crate == "bin":
                            k = "main::" + k
                        out.add(k)
                    for o in st["val"]["ops"]:
                        if o.get("k") == "const" and o.get("fn"):
                            k = o["fn"]
                            if fn.crate == "bin" and ("main::" + k) in self.fns:
                                k = "main::" + k
                            out.add(norm_path(k, fn.crate))
            g[p] = out
        self._callgraph = g
        return g

    def reachable(self, roots):
        g = self.callgraph()
        seen = set()
        stack = list(roots)
        while stack:
            x = stack.pop()
            if x in seen:
                continue
            seen.add(x)
            for y in g.get(x, ()):
                if y in self.fns and y not in seen:
                    stack.append(y)
        return seen

    def sccs(self, nodes=None):
        """Tarjan over local functions."""
        g = self.callgraph()
        nodes = list(nodes if nodes is not None else self.fns)
        index = {}
        low = {}
        onst = set()
        st = []
        out = []
        counter = [0]
        sys.setrecursionlimit(10000)

        def strong(v):
            index[v] = low[v] = counter[0]
            counter[0] += 1
            st.append(v)
            onst.add(v)
            for w in g.get(v, ()):
                if w not in self.fns:
                    continue
                if w not in index:
                    strong(w)
                    low[v] = min(low[v], low[w])
                elif w in onst:
                    low[v] = min(low[v], index[w])
            if low[v] == index[v]:
                comp = []
                while True:
                    w = st.pop()
                    onst.discard(w)
                    comp.append(w)
                    if w == v:
                        break
                out.append(comp)

        for v in nodes:
            if v not in index:
                strong(v)
        return out


# ------------------------------------------------------------------ CFG helpers
def succs(fn, i, include_cleanup=False):
    t = fn.blocks[i]["term"]
    return [s for s in t["succ"] if include_cleanup or not fn.blocks[s]["cleanup"]]


def dominators(fn):
    """immediate-dominator-free simple iterative dominator sets over non-cleanup blocks"""
    n = len(fn.blocks)
    preds = {i: [] for i in range(n)}
    for i in range(n):
        for s in succs(fn, i):
            preds[s].append(i)
    allb = set(i for i in range(n) if not fn.blocks[i]["cleanup"])
    dom = {i: set(allb) for i in allb}
    dom[0] = {0}
    changed = True
    order = sorted(allb)
    while changed:
        changed = False
        for i in order:
            if i == 0:
                continue
            ps = [p for p in preds[i] if p in dom]
            if not ps:
                new = {i}
            else:
                new = set.intersection(*[dom[p] for p in ps]) | {i}
            if new != dom[i]:
                dom[i] = new
                changed = True
    return dom


def reach_from(fn, start, avoid=()):
    """blocks reachable from block `start` (exclusive of start unless looped), not passing through `avoid`"""
    seen = set()
    stack = list(succs(fn, start))
    av = set(avoid)
    while stack:
        x = stack.pop()
        if x in seen or x in av:
            continue
        seen.add(x)
        stack.extend(succs(fn, x))
    return seen


def call_blocks(mir, fn, pred):
    out = []
    for i, b in enumerate(fn.blocks):
        t = b["term"]
        if t["k"] == "call" and pred(mir.callee_of(fn, t), t):
            out.append(i)
    return out


_mir = None


def get_mir(tier="quick"):
    """Extract (or load from the content-addressed cache) the MIR facts for /repo's working tree."""
    global _mir
    if _mir is not None:
        return _mir
    core.ensure_tool_nightly(DRIVER, os.path.join(core.VERIF, "tools/mirfacts"))
    d = os.path.join(core.cache_dir(), "mir")
    stamp = os.path.join(d, "ok")
    if not os.path.exists(stamp):
        if os.path.isdir(d):
            shutil.rmtree(d)
        tmp = d + f".{os.getpid()}.tmp"
        rc, err, nonce = run_driver(core.REPO, tmp)
        if rc != 0:
            print(err, file=sys.stderr)
            print("verif: /repo does not compile under the analysis driver; a tree that does not build has no properties", file=sys.stderr)
            sys.exit(2)
        files = sorted(glob.glob(os.path.join(tmp, "complgen-*.json")))
        if len(files) < 2:
            print(err, file=sys.stderr)
            print(f"verif: driver produced {len(files)} fact files, expected lib + bin (cargo freshness cache?)", file=sys.stderr)
            sys.exit(2)
        for f in files:
            with open(f) as fh:
                if json.load(fh)["nonce"] != nonce:
                    print("verif: stale fact file (nonce mismatch)", file=sys.stderr)
                    sys.exit(2)
        open(os.path.join(tmp, "ok"), "w").write(nonce)
        try:
            os.replace(tmp, d)
        except OSError:
            shutil.rmtree(tmp, ignore_errors=True)
    _mir = Mir(sorted(glob.glob(os.path.join(d, "complgen-*.json"))), renames=getattr(core.get_repo(), "renames", None))
    return _mir
