"""ARENA-IMMUT (engine M): nodes of the expression / regex arenas are never edited in place.

Expanded nonterminal bodies are shared: resolve_nonterminals substitutes the SAME ExprId at every reference, and every pass
rebuilds a node (alloc) only when something below it changed.  A pass that writes into `arena[id]` therefore changes every
occurrence of that node at once -- a level, a description or a command meant for one reference lands on all of them.  The rule:
no call that hands out a mutable reference into a `Vec<Expr>` / `[Expr]` / `Vec<RegexNode>` (IndexMut::index_mut, get_mut,
iter_mut, first_mut/last_mut, swap, as_mut_slice, DerefMut to a slice followed by any of these) in code reachable from main;
`push` (what alloc does) and reads are fine."""
import re

MUT = re.compile(r"(::index_mut$|IndexMut<.*>>::index_mut$|::get_mut$|::iter_mut$|::last_mut$|::first_mut$|::swap$|::as_mut_slice$|::get_unchecked_mut$|::split_at_mut$|::fill$|::reverse$|::sort\w*$|::rotate_\w+$)")
ARENA_TY = re.compile(r"(Vec<|\[)\s*(\w+::)*(Expr|RegexNode)\s*[\],>;]")


def scan(mir, reach):
    """[(fn path, callee, receiver type, file, line)]"""
    out = []
    n = 0
    for p in sorted(reach):
        fn = mir.fns[p]
        for b in fn.blocks:
            t = b["term"]
            if t["k"] != "call":
                continue
            c = t["resolved"] or t["callee"]
            if not MUT.search(c):
                continue
            n += 1
            ty = t["args"][0].get("ty", "") if t["args"] else ""
            if ARENA_TY.search(ty):
                sp = t.get("span") or {}
                out.append((fn.parent or p, c, ty, sp.get("file", fn.file if hasattr(fn, "file") else ""), sp.get("line", 0)))
    return out, n
