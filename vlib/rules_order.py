"""HASHORD / AMBIENT on MIR (engine M) and the dependency facts they rest on (engine D)."""
import glob
import json
import os
import re
import subprocess

from . import core

ITER_METHODS = re.compile(r"::(iter|iter_mut|into_iter|keys|into_keys|values|values_mut|into_values|drain|retain|extract_if|drain_filter|par_iter)$")
NONITER_OK = re.compile(r"::(get|get_mut|get_key_value|insert|contains|contains_key|remove|remove_entry|entry|len|is_empty|clear|reserve|shrink_to_fit|with_capacity|new|default|clone|with_hasher|with_capacity_and_hasher|take|replace|get_or_insert_with|capacity|hasher|eq|ne|fmt|deref|borrow|as_ref|branch|from_residual|unwrap|expect|unwrap_or|map|ok_or)$")
AMBIENT = [
    (re.compile(r"^std::time::(SystemTime|Instant)::now$"), "clock"),
    (re.compile(r"^std::env::(var|var_os|vars|vars_os|args|args_os|current_dir|current_exe|temp_dir|home_dir)$"), "environment"),
    (re.compile(r"^std::process::id$"), "pid"),
    (re.compile(r"^std::thread::(current|available_parallelism)$"), "thread"),
    (re.compile(r"(^|::)RandomState::new$"), "random hasher state"),
    (re.compile(r"^std::hash::RandomState::new$|^std::collections::hash_map::RandomState::new$"), "random hasher state"),
    (re.compile(r"^(rand|getrandom|fastrand|nanorand)::"), "rng"),
    (re.compile(r"^std::fs::read_dir$"), "directory order"),
    # results that arrive in the order threads happen to be scheduled: a channel's receive order, work spread over scoped threads or a
    # pool.  A single `thread::spawn(..).join()` (e.g. the whole compiler run on a bigger stack) hands back one value and is not listed.
    (re.compile(r"^std::thread::(scope$|Scope\b)|^std::sync::mpsc::|^(rayon|crossbeam|crossbeam_channel|tokio)::"), "thread scheduling order"),
    (re.compile(r"^std::(net|os::unix::net)::"), "network"),
]


def split_generics(ty):
    """('path', [args]) for `path<args>`; handles nesting."""
    ty = ty.strip()
    while ty.startswith("&"):
        ty = ty[1:].lstrip()
        if ty.startswith("mut "):
            ty = ty[4:]
        if ty.startswith("'"):
            ty = ty.split(" ", 1)[1] if " " in ty else ty
    i = ty.find("<")
    if i < 0 or not ty.endswith(">"):
        return ty, []
    head = ty[:i]
    body = ty[i + 1 : -1]
    args = []
    depth = 0
    cur = ""
    for ch in body:
        if ch in "<([":
            depth += 1
        elif ch in ">)]":
            depth -= 1
        if ch == "," and depth == 0:
            args.append(cur.strip())
            cur = ""
        else:
            cur += ch
    if cur.strip():
        args.append(cur.strip())
    return head, args


def classify_container(ty):
    """ORDERED | FIXED-HASH(reason) | RANDOM-HASH(reason) | None (not a container we care about)"""
    head, args = split_generics(ty)
    base = head.split("::")[-1]
    if base in ("HashMap", "HashSet"):
        n_payload = 2 if base == "HashMap" else 1
        hasher = args[n_payload] if len(args) > n_payload else None
        if head.startswith("hashbrown::"):
            if hasher is None:
                return ("FIXED-HASH", "hashbrown default hasher (see D: DefaultHashBuilder)")
            return classify_hasher(hasher)
        if hasher is None:
            return ("RANDOM-HASH", "std::collections default hasher is RandomState (per-process keys)")
        return classify_hasher(hasher)
    if base in ("IndexMap", "IndexSet", "BTreeMap", "BTreeSet", "Vec", "VecDeque", "RoaringBitmap"):
        return ("ORDERED", base)
    return None


def classify_hasher(h):
    if "RandomState" in h:
        return ("RANDOM-HASH", h)
    m = re.match(r"^(?:std|core)::hash::BuildHasherDefault<(.*)>$", h)
    if m:
        inner = m.group(1)
        # rustc prints a re-exported type under either its public or its defining path depending on the context
        if re.match(r"^ustr::(\w+::)*IdentityHasher$", inner) or re.match(r"^ahash::(\w+::)*AHasher$", inner) or re.match(r"^std::(hash|collections::hash_map)::(\w+::)*DefaultHasher$", inner):
            return ("FIXED-HASH", h)
        return ("RANDOM-HASH", f"unknown hasher {inner}: treated as process-seeded")
    return ("RANDOM-HASH", f"unknown BuildHasher {h}: treated as process-seeded")


def recv_container(t):
    """the hash container a call's receiver is, looking through iterator wrappers"""
    if not t["args"]:
        return None
    ty = t["args"][0].get("ty", "")
    return ty


def scan(mir, reach):
    """returns (iteration sites on hash containers, random-hash uses, ambient calls, ptr->int casts)"""
    it_sites = []
    random_uses = []
    ambient = []
    casts = []
    for p in sorted(reach):
        fn = mir.fns[p]
        owner = fn.parent or fn.path
        for b in fn.blocks:
            for st in b["stmts"]:
                rv = st["val"]["rv"]
                if rv.startswith("cast:PointerExposeProvenance") or rv.startswith("cast:PointerExposeAddress"):
                    if not st["sp"]["exp"]:
                        casts.append(dict(fn=owner, what=rv, line=st["sp"]["line"], file=st["sp"]["file"]))
            t = b["term"]
            if t["k"] != "call":
                continue
            name = t["resolved"] or t["callee"]
            sp = b["tsp"]
            for rx, what in AMBIENT:
                if rx.search(name):
                    ambient.append(dict(fn=owner, callee=name, what=what, line=sp["line"], file=sp["file"]))
            ty = recv_container(t)
            if ty is None:
                continue
            # strip iterator wrappers: hash_map::Iter<'_, K, V>, Keys<..> mention the map type only for std
            cls = None
            m = re.search(r"((?:hashbrown|std::collections)::Hash(?:Map|Set)<.*>)", ty)
            if m:
                inner = m.group(1)
                # cut to balanced
                depth = 0
                end = None
                for i, ch in enumerate(inner):
                    if ch == "<":
                        depth += 1
                    elif ch == ">":
                        depth -= 1
                        if depth == 0:
                            end = i + 1
                            break
                inner = inner[:end] if end else inner
                cls = classify_container(inner)
                direct = split_generics(ty)[0] == split_generics(inner)[0]
                if cls and cls[0] in ("FIXED-HASH", "RANDOM-HASH"):
                    is_iter = bool(ITER_METHODS.search(name)) or "IntoIterator>::into_iter" in name
                    if is_iter and direct:
                        it_sites.append(dict(fn=owner, callee=name, ty=inner, cls=cls, line=sp["line"], file=sp["file"]))
                    if cls[0] == "RANDOM-HASH" and not NONITER_OK.search(name) and not is_iter:
                        random_uses.append(dict(fn=owner, callee=name, ty=inner, cls=cls, line=sp["line"], file=sp["file"]))
    return it_sites, random_uses, ambient, casts


# ------------------------------------------------------------------ engine D
def cargo_metadata():
    r = subprocess.run(["cargo", "metadata", "--offline", "--format-version", "1"], cwd=core.REPO, stdout=subprocess.PIPE, stderr=subprocess.PIPE, text=True)
    if r.returncode != 0:
        return None
    return json.loads(r.stdout)


def dep_facts():
    md = cargo_metadata()
    if md is None:
        return None
    pk = {p["id"]: p for p in md["packages"]}
    nodes = {n["id"]: n for n in md["resolve"]["nodes"]}
    root = md["resolve"]["root"]
    out = {"root": pk[root]["name"], "deps": {}}

    def find_dep(node_id, name):
        for d in nodes[node_id]["deps"]:
            if d["name"] == name:
                return d["pkg"]
        return None

    for name in ("hashbrown", "ustr", "clap", "indexmap"):
        pid = find_dep(root, name)
        if pid:
            out["deps"][name] = {"id": pid, "version": pk[pid]["version"], "features": nodes[pid]["features"], "dir": os.path.dirname(pk[pid]["manifest_path"])}
    hb = out["deps"].get("hashbrown")
    if hb:
        aid = find_dep(hb["id"], "ahash")
        if aid:
            out["deps"]["hashbrown>ahash"] = {"id": aid, "version": pk[aid]["version"], "features": nodes[aid]["features"], "dir": os.path.dirname(pk[aid]["manifest_path"])}
    us = out["deps"].get("ustr")
    if us:
        aid = find_dep(us["id"], "ahash")
        if aid:
            out["deps"]["ustr>ahash"] = {"id": aid, "version": pk[aid]["version"], "features": nodes[aid]["features"], "dir": os.path.dirname(pk[aid]["manifest_path"])}
    return out


def read(path):
    try:
        with open(path, encoding="utf-8", errors="replace") as f:
            return f.read()
    except OSError:
        return ""
