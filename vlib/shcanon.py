"""α-renaming of the assembled bash skeleton to canonical variable names (engine K).

The SK-* rules are written against the names the templates use today (`state`, `word_index`, `literal_id`, `prefix` ...).  A maintainer
may rename any of them consistently; that changes nothing about the program.  To keep the rules about structure and not about
spelling, each variable is first identified by its ROLE, found structurally (which variable the walk loop compares with the cursor
index, which one is initialised from the automaton's start state, which one is returned as `1 - x` ...), and the skeleton is
rewritten to the canonical spelling before the rules look at it.  A role that cannot be found leaves the name alone (the rule that
needs it then reports "cannot decide").  Table names are canonicalised from the printers (who defines which table)."""
import re

from . import bashparse as B


def _stmts(lst):
    return lst.items if lst is not None and getattr(lst, "kind", None) == "list" else []


def _assigns(node):
    return B.assignments(node) if node.kind == "simple" else []


def discover(tree, main_name, sub_name, match_name):
    """-> {actual name: canonical name}"""
    funcs = B.functions(tree)
    m = {}

    def put(actual, canon):
        if actual and re.fullmatch(r"[A-Za-z_]\w*", actual) and actual != canon and actual not in m:
            m[actual] = canon

    mains = funcs.get(main_name, [])
    if len(mains) == 1 and mains[0].body.kind == "group":
        body = _stmts(mains[0].body.body)
        words = cword = None
        for s in body:
            if s.kind == "simple" and s.words and s.words[0] == "_get_comp_words_by_ref" and len(s.words) >= 3:
                words, cword = s.words[-2], s.words[-1]
        put(words, "words")
        put(cword, "cword")
        cw = cword or "cword"
        ws = words or "words"
        wl = None
        for s in body:
            if s.kind == "while":
                c = _stmts(s.cond_list)
                if len(c) == 1 and c[0].kind == "cond":
                    t = [x for x in c[0].tests if x[0] == "bin"]
                    if len(t) == 1 and t[0][3] == "$" + cw and t[0][1].startswith("$"):
                        wl = s
                        put(t[0][1][1:], "word_index")
        wi = next((k for k, v in m.items() if v == "word_index"), "word_index")
        for s in body:
            for a in _assigns(s):
                if a[3] == "H__starting_state__H":
                    put(a[0], "state")
                if a[3] in ('"${%s[$%s]}"' % (ws, cw), "${%s[$%s]}" % (ws, cw)):
                    put(a[0], "prefix")
                if re.fullmatch(r"\$\{#(\w+)\[@\]\}", a[3] or ""):
                    put(a[0], "nliterals")
        if wl is not None:
            wb = _stmts(wl.body)
            if wb and wb[0].kind == "simple":
                for a in _assigns(wb[0]):
                    if a[3] == "${%s[$%s]}" % (ws, wi):
                        put(a[0], "word")
        for s in body:
            if s.kind == "forarith" and len(s.parts) == 3:
                mm = re.fullmatch(r"\s*(\w+)\s*=\s*0\s*", s.parts[0])
                m2 = re.fullmatch(r"\s*(\w+)\s*<=?\s*(\w+)\s*", s.parts[1])
                if mm and m2 and mm.group(1) == m2.group(1):
                    put(mm.group(1), "fallback_level")
                    put(m2.group(2), "max_fallback_level")
                    for n, *_ in B.walk(s):
                        if n.kind == "simple" and n.words and n.words[0] == match_name and len(n.words) == 4:
                            put(n.words[2], "candidates")
                            put(n.words[3], "matches")
    subs = funcs.get(sub_name, [])
    if len(subs) == 1 and subs[0].body.kind == "group":
        body = _stmts(subs[0].body.body)
        sm = {}

        def sput(actual, canon):
            if actual and re.fullmatch(r"[A-Za-z_]\w*", actual) and actual != canon:
                sm.setdefault(actual, canon)

        for s in body:
            for a in _assigns(s):
                if a[3] == "$1":
                    sput(a[0], "mode")
                if a[3] == "$2":
                    sput(a[0], "word")
        wvar = next((k for k, v in sm.items() if v == "word"), "word")
        for s in body:
            if s.kind == "if":
                for b in _stmts(s.clauses[0][1]):
                    if b.kind == "simple" and b.words[:1] == ["return"] and len(b.words) == 2:
                        mm = re.fullmatch(r"\$\(\(\s*1\s*-\s*(\w+)\s*\)\)", b.words[1])
                        if mm:
                            sput(mm.group(1), "matched")
            if s.kind == "forarith" and len(s.parts) == 3:
                mm = re.fullmatch(r"\s*(\w+)\s*=\s*0\s*", s.parts[0])
                if mm:
                    sput(mm.group(1), "subword_fallback_level")
        wl = next((s for s in body if s.kind == "while"), None)
        if wl is not None:
            for n, loops, conds, f in B.walk(wl):
                for a in _assigns(n):
                    mm = re.fullmatch(r"\$\{%s:\$(\w+)\}" % re.escape(wvar), a[3] or "")
                    if mm:
                        sput(a[0], "subword")
                        sput(mm.group(1), "char_index")
                if n.kind == "cond":
                    for t in n.tests:
                        if t[0] == "un" and t[1] == "-v":
                            mm = re.fullmatch(r'"\w+\[\$(\w+)\]"', t[2])
                            if mm and not mm.group(1).endswith("_id") and "id" not in mm.group(1):
                                sput(mm.group(1), "subword_state")
        ci = next((k for k, v in sm.items() if v == "char_index"), "char_index")
        for s in body:
            for a in _assigns(s):
                if a[3] in ('"${%s:0:$%s}"' % (wvar, ci), "${%s:0:$%s}" % (wvar, ci)):
                    sput(a[0], "matched_prefix")
                if a[3] in ('"${%s:$%s}"' % (wvar, ci),):
                    sput(a[0], "completed_prefix")
        # names local to the within-word function may coincide with main's (e.g. `word`): only add the ones that do not clash
        for k, v in sm.items():
            if k not in m and v not in m.values():
                m[k] = v
            elif k not in m and v in m.values() and v in ("word",):
                pass
    return m


def rename(text, mapping):
    if not mapping:
        return text
    # a rename must not collide with a name already in use for something else
    used = set(re.findall(r"(?<![A-Za-z0-9_])([A-Za-z_]\w*)(?![A-Za-z0-9_])", text))
    safe = {k: v for k, v in mapping.items() if v not in used or v in mapping}
    if not safe:
        return text
    rx = re.compile(r"(?<![A-Za-z0-9_])(" + "|".join(sorted(map(re.escape, safe), key=len, reverse=True)) + r")(?![A-Za-z0-9_])")
    return rx.sub(lambda mo: safe[mo.group(1)], text)
