"""DIM (index base / key-value roles), TEXT (sanitiser coverage of grammar text), ARGBASE, NAMES -- rules over
the format holes of the four emitters and the two Graphviz dumpers (engine S + types)."""
import re

from . import ast as A
from . import prov as P
from . import templates as TM
from . import types as TY

ROARING_DIMS = {"literal": "LiteralId", "command": "CommandId", "accepting_states": "StateId", "get_all_states": "StateId"}
EMITTERS = ("bash", "fish", "zsh", "pwsh")


def module_base(repo, mod):
    c = repo.consts.get(f"{mod}::ARRAY_START")
    if c is None or c["expr"]["k"] != "Lit":
        return None
    return int(c["expr"]["v"])


def hole_text(repo, fn, e):
    if e is None:
        return "?"
    if e["k"] == "Path":
        return e["path"]
    try:
        return " ".join(repo.text(fn.file, e).split())[:60]
    except Exception:
        return e["k"]


def all_holes(repo, mod, typer):
    """(fn, site, piece idx, hole name, expr, type) for every format hole in a module"""
    out = []
    for fn in sorted(repo.fns_in(mod), key=lambda f: f.node["l"]):
        envs = A.collect_envs(fn)
        for s in TM.fmt_sites(fn, envs):
            for idx, nm, e in s.holes:
                env = (envs.get(id(e)) if e is not None else None) or s.env
                t = typer.of(e, env) if e is not None else "?"
                out.append((fn, s, idx, nm, e, t, env))
    return out


STATE_TYS = {"StateId"}
ID_TYS = {"LiteralId", "CommandId", "DFAId"}


def inner(t, wrapper):
    if t.startswith(wrapper + "<") and t.endswith(">"):
        return t[len(wrapper) + 1 : -1]
    return None


def dim_rule(repo, res, mod, typer, base, rule="DIM", fns=None, state_like=()):
    """BASE: a State hole carries the module's array base exactly once; id holes carry none."""
    n_state = n_id = 0
    seq = {}
    for fn, s, idx, nm, e, t, env in all_holes(repo, mod, typer):
        if fns is not None and fn.qname not in fns:
            continue
        loc = f"{fn.file}:{s.node['l']}"
        what = hole_text(repo, fn, e)
        k = (fn.qname, what)
        seq[k] = seq.get(k, 0) + 1
        key = f"{rule}:{fn.qname}:{what}#{seq[k]}"
        tt = t
        joined = inner(tt, "Joined")
        if joined is not None:
            tt = joined
        off = inner(tt, "Off")
        core_t = off if off is not None else tt
        double = off is not None and inner(off, "Off") is not None
        if core_t in STATE_TYS or (core_t in state_like) or (off is not None and off in ("?", "u32") and mod in ("dfa",)):
            n_state += 1
            if double:
                res.bad(rule, key, f"state index `{what}` carries the array base twice", loc)
            elif off is not None:
                res.ok(rule, key, f"state hole `{what}` : {t} (base added once)", loc)
            elif base == 0:
                res.ok(rule, key, f"state hole `{what}` : {t} (module base is 0: no offset needed)", loc)
            else:
                res.bad(rule, key, f"state hole `{what}` : {t} is printed without `+ ARRAY_START` although this shell's arrays start at {base}: the script would index the neighbouring state", loc)
        elif core_t in ID_TYS or (core_t == "usize" and nm in ("id", "subword_id", "shape_id", "cmd_id", "descr_id", "literal_id")):
            n_id += 1
            res.check(off is None, rule, key, f"id hole `{what}` : {t}" + ("" if off is None else " carries an array base although ids are already assigned in the shell's numbering"), loc)
    return n_state, n_id


def role_rule(repo, res, mod, typer, rule="ROLE"):
    """`[{k}]={v}` / `{k}={v}` cells: k is the key and v the value of the same iteration element"""
    n = 0
    for fn in sorted(repo.fns_in(mod), key=lambda f: f.node["l"]):
        envs = A.collect_envs(fn)
        for s in TM.fmt_sites(fn, envs):
            tpl = "".join("\x00" if p[0] == "hole" else p[1] for p in s.pieces)
            m = re.fullmatch(r'\[?\x00\]?=("?)\x00\1', tpl.strip())
            if not m or len(s.holes) != 2:
                continue
            (i0, n0, e0), (i1, n1, e1) = s.holes
            env0 = envs.get(id(e0)) or s.env
            env1 = envs.get(id(e1)) or s.env
            p0 = A.resolve(e0, env0)
            p1 = A.resolve(e1, env1)

            def projs(p, acc):
                if isinstance(p, tuple) and p:
                    if p[0] == "proj" and p[1][0] in ("elem",):
                        acc.append((p[1], p[2]))
                    for x in A.subterms(p):
                        projs(x, acc)
                return acc

            a0 = projs(p0, [])
            a1 = projs(p1, [])
            n += 1
            same = [1 for (e_a, i_a) in a0 for (e_b, i_b) in a1 if e_a == e_b and i_a == 0 and i_b == 1]
            seqn = sum(1 for i in res.instances if i.key.startswith(f"{rule}:{fn.qname}:")) + 1
            res.check(bool(same), rule, f"{rule}:{fn.qname}:cell#{seqn}", f"cell `{s.template}`: key <= {A.show(p0)[:60]} ; value <= {A.show(p1)[:60]}" + ("" if same else " -- key and value are not element .0 and .1 of the same iteration"), f"{fn.file}:{s.node['l']}")
    return n


TEXT_TYS = ("Ustr", "Text<Ustr>", "Option<Ustr>", "Joined<Ustr>", "Joined<Text<Ustr>>")


def text_rule(repo, res, mod, typer, allow, rule="TEXT"):
    """a hole of grammar-text type (Ustr and what is derived from it without a sanitiser) may only appear where tabled"""
    n = 0
    for fn, s, idx, nm, e, t, env in all_holes(repo, mod, typer):
        tt = t
        if tt.startswith("Off<"):
            continue
        if tt not in TEXT_TYS:
            continue
        n += 1
        what = hole_text(repo, fn, e)
        key = f"{rule}:{fn.qname}:{what}"
        loc = f"{fn.file}:{s.node['l']}"
        if (fn.qname, what) in allow:
            res.ok(rule, key, f"raw grammar text by design: {allow[(fn.qname, what)]}", loc)
        else:
            res.bad(rule, key, f"grammar text `{what}` : {t} is interpolated raw into `{s.template.strip()[:50]}` (no string-constant encoder on the way)", loc)
    return n


def encoder_calls(repo, res, mod, enc_name, rule="SINK"):
    """every call of the module's encoder takes grammar text, and each `literals`/`descriptions` table is fed through it"""
    n = 0
    for fn in repo.fns_in(mod):
        for c in P.find_calls(fn.body, names={enc_name}):
            n += 1
    return n


def argbase_rule(repo, res, mod, rule="ARGBASE"):
    """get_lookup_tables(.., ARRAY_START as usize, ..) and get_subwords(ARRAY_START as usize) use the module's own constant"""
    n = 0
    for fn in repo.fns_in(mod):
        envs = None
        for c in list(P.find_calls(fn.body, names={"get_lookup_tables"})) + list(P.find_calls(fn.body, methods={"get_subwords"})):
            if envs is None:
                envs = A.collect_envs(fn)
            idx = 2 if c["k"] == "Call" else 0
            name = "get_lookup_tables" if c["k"] == "Call" else "get_subwords"
            a = A.resolve(c["args"][idx], envs.get(id(c))) if len(c["args"]) > idx else ("none",)
            ok = a[0] == "cast" and a[1] == ("path", "ARRAY_START")
            n += 1
            seqn = sum(1 for i in res.instances if i.key.startswith(f"{rule}:{fn.qname}:{name}")) + 1
            res.check(ok, rule, f"{rule}:{fn.qname}:{name}#{seqn}", f"{name}(.. {A.show(a)} ..)" + ("" if ok else f": must be this module's ARRAY_START"), f"{fn.file}:{c['l']}")
    return n
