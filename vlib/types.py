"""A small syntactic type inferencer over the syn tree (engine S), enough to give every format hole of the emitters a
declared type ("dimension"): StateId / LiteralId / CommandId / DFAId / usize / Ustr / String ...
Types are normalised strings; unknown is '?'.  Alias names are kept (they are the dimension carriers)."""
import re

from . import ast as A
from .rules_order import split_generics

INT = {"u8", "u16", "u32", "u64", "usize", "i32", "i64", "isize"}


def strip(t):
    if t is None:
        return "?"
    t = A.norm_ty(t)
    while True:
        t = t.strip()
        if t.startswith("&"):
            t = t[1:].lstrip()
            if t.startswith("'"):
                t = t.split(" ", 1)[1] if " " in t else t
            if t.startswith("mut "):
                t = t[4:]
            continue
        if t.startswith("mut "):
            t = t[4:]
            continue
        m = re.match(r"^(Box|Rc|Arc)<(.*)>$", t)
        if m:
            t = m.group(2)
            continue
        return t


def tuple_parts(t):
    t = strip(t)
    if not (t.startswith("(") and t.endswith(")")):
        return None
    body = t[1:-1]
    parts = []
    depth = 0
    cur = ""
    for ch in body:
        if ch in "<([":
            depth += 1
        elif ch in ">)]":
            depth -= 1
        if ch == "," and depth == 0:
            parts.append(cur.strip())
            cur = ""
        else:
            cur += ch
    if cur.strip():
        parts.append(cur.strip())
    return parts


BASE_NAMES = {"ARRAY_START", "array_start"}


def is_base(e):
    while e["k"] in ("Cast", "Ref", "Unary"):
        e = e["expr"]
    return e["k"] == "Path" and e["path"].split("::")[-1] in BASE_NAMES


class Typer:
    def __init__(self, repo, roaring_dims=None):
        self.repo = repo
        self.roaring_dims = roaring_dims or {}
        self.fn_ret = {}
        for q, f in repo.fns.items():
            self.fn_ret.setdefault(f.name, []).append((q, f))
        self.base_nodes = set()
        self._base_params()

    # ---- which parameters carry a shell's array base: those that receive one at some call site (fixpoint over the crate), whatever
    # they are called
    def _base_params(self):
        envs_of = {}
        for _round in range(4):
            grew = False
            for q, f in self.repo.fns.items():
                if q not in envs_of:
                    envs_of[q] = A.collect_envs(f)
                envs = envs_of[q]
                for c in A.walk(f.body):
                    if c["k"] == "Call" and c["func"]["k"] == "Path":
                        name, args, shift = c["func"]["path"].split("::")[-1], c["args"], 0
                    elif c["k"] == "MethodCall":
                        name, args, shift = c["method"], c["args"], 1
                    else:
                        continue
                    cands = self.fn_ret.get(name)
                    if not cands:
                        continue
                    for i, a in enumerate(args):
                        if a["k"] == "Closure" or not self.is_base(a, envs.get(id(c))):
                            continue
                        for _, g in cands:
                            j = i + (shift if g.params and g.params[0].get("name") == "self" else 0)
                            if j < len(g.params) and id(g.params[j]) not in self.base_nodes and re.search(r"\b(u32|usize|u64)\b", g.params[j].get("ty") or ""):
                                self.base_nodes.add(id(g.params[j]))
                                grew = True
            if not grew:
                break

    def is_base(self, e, env, depth=0):
        while e is not None and e["k"] in ("Cast", "Ref", "Unary", "Paren"):
            e = e["expr"]
        if e is None or depth > 6:
            return False
        if e["k"] == "Match":
            return bool(e["arms"]) and all(self.is_base(a["body"], env, depth + 1) for a in e["arms"])
        if e["k"] == "Block" and e["stmts"] and e["stmts"][-1]["k"] == "ExprStmt" and not e["stmts"][-1].get("semi"):
            return self.is_base(e["stmts"][-1]["expr"], env, depth + 1)
        if e["k"] == "Call" and e["func"]["k"] == "Path" and not e["args"][1:]:
            # a helper that maps the shell to its base (`array_start(shell)`): every candidate's value is a base
            cands = self.fn_ret.get(e["func"]["path"].split("::")[-1]) or []
            return bool(cands) and all(self.is_base(g.body, A.fn_env(g), depth + 1) for _, g in cands)
        if e["k"] != "Path":
            return False
        last = e["path"].split("::")[-1]
        if last == "ARRAY_START":
            return True
        if "::" in e["path"] or env is None:
            return last in BASE_NAMES
        df = env.get(e["path"])
        if df is None:
            return last in BASE_NAMES
        if df.kind == "param":
            return id(df.node) in self.base_nodes or last in BASE_NAMES
        if df.kind == "let" and not df.proj and df.init is not None:
            return self.is_base(df.init, df.env, depth + 1)
        return last in BASE_NAMES

    # ---- structure of types
    def elem(self, t, hint=None):
        """element type when iterating a value of type t"""
        t = strip(t)
        if t.startswith("Iter<") and t.endswith(">"):
            return t[5:-1]
        head, args = split_generics(t)
        base = head.split("::")[-1]
        if base in ("BTreeMap", "HashMap", "IndexMap", "UstrMap") and len(args) >= 1:
            if base == "UstrMap":
                return f"(Ustr, {args[0]})"
            if len(args) >= 2:
                return f"({args[0]}, {args[1]})"
        if base in ("Vec", "IndexSet", "BTreeSet", "HashSet", "VecDeque", "Option") and args:
            return args[0]
        if base == "UstrSet":
            return "Ustr"
        if t.startswith("[") and t.endswith("]"):
            inner = t[1:-1]
            return inner.split(";")[0].strip()
        if base == "RoaringBitmap":
            return hint or "u32"
        if base == "Box" and args:
            return self.elem(args[0])
        return "?"

    def field(self, t, name):
        t = strip(t)
        parts = tuple_parts(t)
        if parts is not None and name.isdigit() and int(name) < len(parts):
            return parts[int(name)]
        head, args = split_generics(t)
        st = self.repo.struct(head.split("::")[-1])
        if st:
            for f in st["fields"]:
                if f["name"] == name:
                    ty = A.norm_ty(f["ty"])
                    return ty
        return "?"

    def variant_field(self, path, name, scrut_ty):
        last = path.split("::")[-1]
        if last in ("Some",) and name == "0":
            h, a = split_generics(strip(scrut_ty))
            return a[0] if h.split("::")[-1] == "Option" and a else "?"
        if last in ("Ok",) and name == "0":
            h, a = split_generics(strip(scrut_ty))
            return a[0] if h.split("::")[-1] == "Result" and a else "?"
        segs = path.split("::")
        if len(segs) >= 2:
            en = segs[-2]
            if en == "Self":
                en = strip(scrut_ty).split("<")[0].split("::")[-1]
            fs = self.repo.variant_fields(en, last)
            if fs:
                for n, t in fs:
                    if n == name:
                        return t
        st = self.repo.struct(last)
        if st:
            for f in st["fields"]:
                if f["name"] == name:
                    return A.norm_ty(f["ty"])
        return "?"

    def apply_proj(self, t, proj, scrut_ty=None):
        for step in proj:
            if t == "?":
                return "?"
            if step[0] == "tuple":
                parts = tuple_parts(t)
                t = parts[step[1]] if parts and step[1] < len(parts) else "?"
            elif step[0] == "variant":
                t = self.variant_field(step[1], step[2], t)
            elif step[0] == "slice":
                t = self.elem(t)
        return t

    # ---- expressions
    def of_def(self, df, depth=0):
        if depth > 30:
            return "?"
        if df.kind == "param":
            t = A.norm_ty(df.node["ty"]) if df.node and df.node.get("ty") else "?"
            return self.apply_proj(strip(t), df.proj)
        if df.kind in ("let", "bind"):
            # declared type wins
            node = df.node
            if df.kind == "let" and node is not None and node.get("pat", {}).get("k") == "PType":
                return self.apply_proj(strip(node["pat"]["ty"]), df.proj)
            if df.init is None:
                return "?"
            t = self.of(df.init, df.env, depth + 1)
            return self.apply_proj(strip(t), df.proj)
        if df.kind == "elem":
            it = self.of(df.init, df.env, depth + 1)
            hint = self.roaring_hint(df.init, df.env)
            t = self.iter_elem(it, hint)
            via = df.extra
            if isinstance(via, tuple) and via[0] in ("filter", "filter_map", "map", "any", "all", "find", "for_each", "flat_map", "retain", "sort_by_key", "chunk_by", "dedup_by_key", "sort_unstable_by_key", "sort_by", "sort_unstable_by", "position", "take_while", "skip_while", "inspect"):
                pass
            return self.apply_proj(strip(t), df.proj)
        return "?"

    def roaring_hint(self, e, env):
        # RoaringBitmap element dimension from the field / function it came from
        txt = None
        cur = e
        for _ in range(14):
            if cur is None:
                break
            if cur["k"] == "Field":
                if cur["member"] in self.roaring_dims:
                    return self.roaring_dims[cur["member"]]
                cur = cur["base"]
            elif cur["k"] == "MethodCall":
                if cur["method"] in self.roaring_dims:
                    return self.roaring_dims[cur["method"]]
                cur = cur["recv"]
            elif cur["k"] in ("Ref", "Unary"):
                cur = cur["expr"]
            elif cur["k"] == "Path" and "::" not in cur["path"]:
                df = env.get(cur["path"]) if env else None
                if df is not None and df.kind in ("let", "bind", "elem") and df.init is not None:
                    if df.kind == "elem" or df.proj:
                        # element of a map whose values are bitmaps: look at the map's origin
                        cur = df.init
                        env = df.env
                        continue
                    cur = df.init
                    env = df.env
                else:
                    break
            else:
                break
        return None

    def iter_elem(self, t, hint=None):
        t = strip(t)
        if t.startswith("Iter<"):
            return t[5:-1]
        return self.elem(t, hint)

    def of(self, e, env, depth=0):
        if e is None or depth > 40:
            return "?"
        k = e["k"]
        if k == "Path":
            name = e["path"]
            if "::" not in name:
                df = env.get(name) if env else None
                if df is not None:
                    return self.of_def(df, depth + 1)
                c = [v for q, v in self.repo.consts.items() if q.split("::")[-1] == name]
                if c:
                    return A.norm_ty(c[0]["ty"])
                return "?"
            c = [v for q, v in self.repo.consts.items() if name.endswith(q.split("::", 1)[-1]) and q.split("::")[-1] == name.split("::")[-1]]
            if c:
                return A.norm_ty(c[0]["ty"])
            return "?"
        if k in ("Ref",):
            return self.of(e["expr"], env, depth + 1)
        if k == "Unary":
            return self.of(e["expr"], env, depth + 1)
        if k == "Lit":
            return {"str": "&str", "int": "int", "bool": "bool", "char": "char"}.get(e["lit"], "?")
        if k == "Field":
            return self.field(self.of(e["base"], env, depth + 1), e["member"])
        if k == "Index":
            bt = self.of(e["base"], env, depth + 1)
            return self.elem(bt)
        if k == "Cast":
            src = strip(self.of(e["expr"], env, depth + 1))
            dst = A.norm_ty(e["ty"])
            # integer casts keep the dimension of an id alias
            if dst in INT and src not in INT and src not in ("?", "int") and re.match(r"^[A-Z]\w*Id$", src):
                return src
            if dst in INT and src in ("?",):
                return dst
            return dst if src in INT or src == "int" else (src if dst in INT else dst)
        if k == "Binary":
            if e["op"] in ("+", "-", "*"):
                l = strip(self.of(e["left"], env, depth + 1))
                r = strip(self.of(e["right"], env, depth + 1))
                if e["op"] == "+":
                    # adding the shell's array base turns an automaton id into a script index: Off<T>
                    if self.is_base(e["right"], env):
                        return f"Off<{l}>"
                    if self.is_base(e["left"], env):
                        return f"Off<{r}>"
                return l if l not in ("?", "int") else r
            return "bool"
        if k == "Tuple":
            return "(" + ", ".join(self.of(x, env, depth + 1) for x in e["elems"]) + ")"
        if k == "Macro":
            n = e["name"].split("::")[-1]
            if n == "format":
                return "String"
            if n == "vec":
                a = e.get("args") or []
                return f"Vec<{self.of(a[0], env, depth + 1)}>" if a else "Vec<?>"
            return "?"
        if k == "Block":
            benv = env
            last = None
            for st in e["stmts"]:
                if st["k"] == "Local":
                    benv = A.bind_pattern(benv, st["pat"], st.get("init"), benv, "let", st)
                    last = None
                elif st["k"] == "ExprStmt":
                    last = st if not st["semi"] else None
            return self.of(last["expr"], benv, depth + 1) if last else "()"
        if k == "If":
            cenv = env
            c = e["cond"]
            if c["k"] == "Let":
                cenv = A.bind_pattern(env, c["pat"], c["expr"], env, "bind", c)
            t = self.of(e["then"], cenv, depth + 1)
            if t == "?" and e["else"] is not None:
                t = self.of(e["else"], env, depth + 1)
            return t
        if k == "Match":
            for arm in e["arms"]:
                if A.diverges(arm["body"]):
                    continue
                aenv = A.bind_pattern(env, arm["pat"], e["scrut"], env, "bind", arm)
                t = self.of(arm["body"], aenv, depth + 1)
                if t != "?":
                    return t
            return "?"
        if k == "Try":
            t = strip(self.of(e["expr"], env, depth + 1))
            h, a = split_generics(t)
            if h.split("::")[-1] in ("Result", "Option") and a:
                return a[0]
            return "?"
        if k == "Call":
            f = e["func"]
            if f["k"] != "Path":
                return "?"
            name = f["path"]
            last = name.split("::")[-1]
            if last in ("Some", "Ok") and e["args"]:
                return ("Option<" if last == "Some" else "Result<") + self.of(e["args"][0], env, depth + 1) + ">"
            if last == "ustr":
                return "Ustr"
            cands = self.fn_ret.get(last, [])
            if len(cands) > 1 and "::" in name:
                mod = name.split("::")[-2]
                c2 = [c for c in cands if c[0].split("::")[-2] == mod or c[1].module == mod]
                cands = c2 or cands
            if len(cands) > 1:
                # prefer a function of the calling module (unknown here): fall back to agreeing return types
                rets = {A.norm_ty(c[1].node.get("ret")) for c in cands}
                if len(rets) == 1:
                    cands = cands[:1]
            if len(cands) == 1:
                return A.norm_ty(cands[0][1].node.get("ret")) or "()"
            # tuple-struct / enum-variant constructor
            st = self.repo.struct(last)
            if st:
                return last
            return "?"
        if k == "Struct":
            return e["path"].split("::")[0] if "::" in e["path"] else e["path"]
        if k == "MethodCall":
            m = e["method"]
            if m in A.TRANSPARENT_METHODS or m in ("as_ref", "as_mut", "borrow", "deref", "by_ref", "rev", "skip", "take", "peekable", "sorted", "dedup", "unique", "filter", "inspect", "skip_while", "take_while", "copied_", "iter_mut"):
                t = self.of(e["recv"], env, depth + 1)
                if m in ("iter_mut",):
                    return "Iter<" + self.elem(t, self.roaring_hint(e["recv"], env)) + ">"
                return t
            rt = strip(self.of(e["recv"], env, depth + 1))
            if m in ("iter", "into_iter", "drain"):
                if rt.startswith("Iter<"):
                    return rt
                return "Iter<" + self.elem(rt, self.roaring_hint(e["recv"], env)) + ">"
            if m == "keys":
                el = self.elem(rt)
                p = tuple_parts(el)
                return "Iter<" + (p[0] if p else "?") + ">"
            if m == "values":
                el = self.elem(rt)
                p = tuple_parts(el)
                return "Iter<" + (p[1] if p and len(p) > 1 else "?") + ">"
            if m == "enumerate":
                return "Iter<(usize, " + self.iter_elem(rt) + ")>"
            if m in ("map", "filter_map", "flat_map"):
                # closure result type
                clo = [a for a in e["args"] if a["k"] == "Closure"]
                if clo:
                    cenv = env
                    for i, p in enumerate(clo[0]["params"]):
                        for name, proj in A.pat_bindings(p):
                            cenv = cenv.bind(name, A.Def("elem", name, node=e, init=e["recv"], env=env, proj=proj, extra=(m, i)))
                    bt = self.of(clo[0]["body"], cenv, depth + 1)
                    if m == "filter_map":
                        h, a = split_generics(strip(bt))
                        bt = a[0] if h.split("::")[-1] == "Option" and a else "?"
                    if rt.startswith("Option<") and m == "map":
                        return f"Option<{bt}>"
                    return f"Iter<{bt}>"
                return "Iter<?>"
            if m == "join":
                return "Joined<" + self.iter_elem(rt) + ">"
            if m == "collect":
                tf = e.get("turbofish")
                if tf:
                    t = A.norm_ty(tf).lstrip(":").strip()
                    t = t[1:-1] if t.startswith("<") else t
                    if "_" not in t:
                        return t
                return "Vec<" + self.iter_elem(rt) + ">" if rt.startswith("Iter<") else "?"
            if m in ("unwrap", "expect", "unwrap_or", "unwrap_or_default", "unwrap_or_else"):
                h, a = split_generics(rt)
                if h.split("::")[-1] in ("Option", "Result") and a:
                    return a[0]
                return "?"
            if m in ("len", "count", "get_index_of_"):
                return "usize"
            if m == "get_index_of":
                return "Option<usize>"
            if m in ("get", "get_mut", "first", "last", "next", "min", "max", "pop", "get_index", "nth", "find", "peek"):
                if rt.startswith("Iter<"):
                    return "Option<" + rt[5:-1] + ">"
                el = self.elem(rt, self.roaring_hint(e["recv"], env))
                if m in ("get", "get_mut"):
                    p = tuple_parts(el)
                    h, _ = split_generics(rt)
                    if p and h.split("::")[-1] in ("BTreeMap", "HashMap", "IndexMap", "UstrMap"):
                        return "Option<" + p[1] + ">"
                return "Option<" + el + ">"
            if m in ("trim", "as_str", "trim_end", "trim_start"):
                return "Text<" + rt + ">" if rt in ("Ustr",) or rt.startswith("Text<") else "&str"
            if m in ("to_string", "to_owned_", "replace", "into_string"):
                return "Text<" + rt + ">" if rt in ("Ustr",) or rt.startswith("Text<") else "String"
            if m in ("is_empty", "contains", "contains_key", "starts_with", "any", "all", "is_some", "is_none"):
                return "bool"
            # a method of a repo type
            head = rt.split("<")[0].split("::")[-1]
            cands = [c for c in self.fn_ret.get(m, []) if c[1].self_ty and c[1].self_ty.split("<")[0] == head]
            if len(cands) == 1:
                return A.norm_ty(cands[0][1].node.get("ret")) or "()"
            cands = self.fn_ret.get(m, [])
            if len(cands) == 1 and cands[0][1].self_ty:
                return A.norm_ty(cands[0][1].node.get("ret")) or "()"
            return "?"
        if k == "Closure":
            return "closure"
        return "?"
