"""Emission trees: the ordered structure of write!/writeln! templates (and the conditions, loops and local emitter calls
around them) of a function that prints into a `W: Write` buffer, and their assembly into the skeleton text of the second
program (bash / fish / zsh / PowerShell / DOT) for a given assignment of the guard flags.  Engine S only."""
import re

from . import ast as A
from . import templates as TM

L, R = "H__", "__H"  # hole delimiters in assembled skeletons (ASCII so that the text stays lexable by a shell)


def buffer_name(fn):
    for p in fn.params:
        if p["ty"] and ("W" == A.norm_ty(p["ty"]).replace("&mut ", "").strip() or "Write" in p["ty"]):
            return p["name"]
    return fn.params[0]["name"] if fn.params else None


def is_write(node, buf):
    if node["k"] != "Macro":
        return False
    n = node["name"].split("::")[-1]
    if n not in ("write", "writeln"):
        return False
    a = node.get("args") or []
    return bool(a) and a[0]["k"] == "Path" and a[0]["path"] == buf


class Node:
    def __init__(self, kind, **kw):
        self.kind = kind
        self.__dict__.update(kw)


def build(repo, fn, envs=None):
    """emission tree of fn: list of Node(kind in emit|cond|loop|call|match)"""
    buf = buffer_name(fn)
    if envs is None:
        envs = A.collect_envs(fn)

    def stmts(block):
        out = []
        for st in block["stmts"]:
            if st["k"] == "ExprStmt":
                out.extend(expr(st["expr"]))
            elif st["k"] == "Local":
                if st.get("init") is not None:
                    out.extend(expr(st["init"], value_pos=True))
        return out

    def expr(e, value_pos=False):
        k = e["k"]
        if k == "Try":
            return expr(e["expr"], value_pos)
        if k == "Macro":
            if is_write(e, buf):
                s = TM.fmt_site(e, envs.get(id(e)))
                if s is None:
                    return [Node("opaque", node=e)]
                return [Node("emit", site=s, node=e)]
            return []
        if k == "Block":
            return stmts(e)
        if k == "If":
            then = stmts(e["then"])
            els = expr(e["else"]) if e["else"] is not None else []
            if not then and not els:
                return []
            return [Node("cond", cond=e["cond"], then=then, els=els, node=e)]
        if k == "ForLoop":
            body = stmts(e["body"])
            return [Node("loop", body=body, node=e)] if body else []
        if k in ("While", "Loop"):
            body = stmts(e["body"])
            return [Node("loop", body=body, node=e)] if body else []
        if k == "Match":
            arms = []
            for a in e["arms"]:
                arms.append((a["pat"], expr(a["body"])))
            if any(b for _, b in arms):
                return [Node("match", arms=arms, node=e)]
            return []
        if k == "Call" and e["func"]["k"] == "Path":
            a = e["args"]
            if a and a[0]["k"] in ("Path", "Ref") and (a[0].get("path") == buf or (a[0]["k"] == "Ref" and a[0]["expr"].get("path") == buf)):
                name = e["func"]["path"].split("::")[-1]
                cands = [f for q, f in repo.fns.items() if f.name == name and f.module == fn.module]
                if len(cands) == 1:
                    return [Node("call", callee=cands[0], args=a, node=e)]
                return [Node("opaque", node=e)]
            return []
        if k == "MethodCall":
            out = []
            out.extend(expr(e["recv"]))
            return out
        return []

    return stmts(fn.body)


def norm_cond(repo, fn, c):
    return "".join(repo.text(fn.file, c).split())


def holetok(repo, fn, e, nm):
    if nm is not None and not nm.isdigit():
        t = nm
    elif e is None:
        t = "x"
    elif e["k"] == "Path":
        t = e["path"]
    else:
        t = "".join(repo.text(fn.file, e).split())
    t = re.sub(r"[^A-Za-z0-9_]", "_", t)[:40]
    return L + t + R


class Assembler:
    """Renders an emission tree to text.  `flags` maps a flag name (a local/param whose value is a dfa.needs_*() call, or a
    parameter bound to one at the call site) to True/False; conditions that are not flags emit both branches, loops once."""

    def __init__(self, repo):
        self.repo = repo
        self.trees = {}
        self.origin = []  # (start offset, fn qname, rust line)
        self.unknown_conds = []
        self.holes = {}  # hole token -> [(fn, expression node)] : every Rust expression printed under that token

    def tree(self, fn):
        if fn.qname not in self.trees:
            self.trees[fn.qname] = build(self.repo, fn)
        return self.trees[fn.qname]

    def render(self, fn, flags, binding=None, out=None, depth=0):
        if out is None:
            out = []
        binding = binding or {}
        self._render(self.tree(fn), fn, flags, binding, out, depth)
        return out

    def flag_value(self, fn, c, flags, binding):
        """value of a condition if it is a (possibly negated) flag"""
        neg = False
        while c["k"] == "Unary" and c["op"] == "!":
            neg = not neg
            c = c["expr"]
        if c["k"] == "Field" and c["base"]["k"] == "Path" and "::" not in c["base"]["path"]:
            # a flag that travels as a field of a small struct built at the call site (`parts.commands`)
            name = binding.get(f"{c['base']['path']}.{c['member']}")
            if name in flags:
                return flags[name] != neg
            if name in ("true", "false"):
                return (name == "true") != neg
        if c["k"] == "Path" and "::" not in c["path"]:
            name = binding.get(c["path"], c["path"])
            if name in flags:
                return flags[name] != neg
            if name in ("true", "false"):
                return (name == "true") != neg
        if c["k"] == "Lit" and c.get("lit") == "bool":
            return c["v"] != neg
        return None

    def _render(self, nodes, fn, flags, binding, out, depth):
        for n in nodes:
            if n.kind == "emit":
                s = n.site
                text = ""
                hole_i = 0
                for idx, p in enumerate(s.pieces):
                    if p[0] == "lit":
                        text += p[1]
                    else:
                        h = [x for x in s.holes if x[0] == idx][0]
                        tok = holetok(self.repo, fn, h[2], h[1])
                        self.holes.setdefault(tok, []).append((fn, h[2], s.env))
                        text += tok
                if s.newline:
                    text += "\n"
                out.append((text, fn.qname, s.node["l"]))
            elif n.kind == "cond":
                v = self.flag_value(fn, n.cond, flags, binding)
                if v is True:
                    self._render(n.then, fn, flags, binding, out, depth)
                elif v is False:
                    self._render(n.els, fn, flags, binding, out, depth)
                else:
                    self.unknown_conds.append((fn.qname, norm_cond(self.repo, fn, n.cond)))
                    self._render(n.then, fn, flags, binding, out, depth)
                    self._render(n.els, fn, flags, binding, out, depth)
            elif n.kind == "loop":
                self._render(n.body, fn, flags, binding, out, depth)
            elif n.kind == "match":
                for pat, body in n.arms:
                    self._render(body, fn, flags, binding, out, depth)
            elif n.kind == "call":
                if depth > 6:
                    continue
                callee = n.callee
                nb = {}
                for p, a in zip(callee.params, n.args):
                    if a["k"] == "Path" and "::" not in a["path"]:
                        nb[p["name"]] = binding.get(a["path"], a["path"])
                    elif a["k"] == "Lit" and a.get("lit") == "bool":
                        nb[p["name"]] = "true" if a["v"] else "false"
                    # flags bundled in a struct: the literal given directly, or bound to a local of the caller just for this call
                    lit = a if a["k"] == "Struct" else None
                    if lit is None and a["k"] == "Path" and "::" not in a["path"]:
                        inits = [x["init"] for x in A.walk(fn.body) if x["k"] == "Local" and x["pat"].get("k") == "PIdent" and x["pat"]["name"] == a["path"] and x.get("init") is not None]
                        if len(inits) == 1 and inits[0]["k"] == "Struct":
                            lit = inits[0]
                    if lit is not None:
                        for fi in lit["fields"]:
                            v = fi["expr"]
                            if v["k"] == "Path" and "::" not in v["path"]:
                                nb[f"{p['name']}.{fi['name']}"] = binding.get(v["path"], v["path"])
                            elif v["k"] == "Lit" and v.get("lit") == "bool":
                                nb[f"{p['name']}.{fi['name']}"] = "true" if v["v"] else "false"
                # .. and taken apart again in the callee: `let Parts { commands, star } = parts;`
                for x in A.walk(callee.body):
                    if x["k"] == "Local" and x["pat"].get("k") == "PStruct" and x.get("init") is not None and x["init"]["k"] == "Path":
                        for fl_ in x["pat"]["fields"]:
                            src = nb.get(f"{x['init']['path']}.{fl_['name']}")
                            if src is not None and fl_["pat"].get("k") == "PIdent":
                                nb[fl_["pat"]["name"]] = src
                self._render(self.tree(callee), callee, flags, nb, out, depth + 1)
            elif n.kind == "opaque":
                out.append((L + "OPAQUE" + R, fn.qname, n.node["l"]))


def flag_names(repo, fn):
    """locals of fn initialised from dfa.needs_*() calls: the guard flags of that emitter"""
    out = []
    for st in fn.body["stmts"]:
        if st["k"] == "Local" and st.get("init") is not None and st["pat"]["k"] == "PIdent":
            i = st["init"]
            if i["k"] == "MethodCall" and i["method"].startswith("needs_"):
                out.append((st["pat"]["name"], i["method"]))
    return out


def assemble(repo, fn_q, flags):
    fn = repo.fn(fn_q)
    asm = Assembler(repo)
    segs = asm.render(fn, flags)
    text = "".join(s[0] for s in segs)
    # line -> origin
    origin = []
    pos = 0
    for s, q, l in segs:
        origin.append((pos, q, l))
        pos += len(s)
    return text, origin, asm
