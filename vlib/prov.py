"""Predicates and small queries over provenance terms (see ast.resolve)."""
from . import ast as A


def last(path):
    return path.split("::")[-1]


def is_bind(variant, field):
    """exactly the value bound from `variant.field` (through refs/derefs/clones only)"""

    def pred(p):
        return p[0] == "bind" and last(p[1]) == variant and p[2] == field

    pred.text = f"{variant}.{field}"
    return pred


def is_bind_of(variant, field, inner):
    def pred(p):
        return p[0] == "bind" and last(p[1]) == variant and p[2] == field and inner(p[3])

    pred.text = f"{variant}.{field}<-{getattr(inner, 'text', '?')}"
    return pred


def is_param(name):
    def pred(p):
        return p[0] == "param" and p[2] == name

    pred.text = f"param {name}"
    return pred


def is_lit(v):
    def pred(p):
        return p[0] == "lit" and p[1] == v

    pred.text = f"literal {v!r}"
    return pred


def is_path(name):
    def pred(p):
        return p[0] == "path" and last(p[1]) == last(name) and (("::" not in name) or p[1].endswith(name))

    pred.text = name
    return pred


def any_of(*preds):
    def pred(p):
        return any(q(p) for q in preds)

    pred.text = " | ".join(getattr(q, "text", "?") for q in preds)
    return pred


def is_field(base_pred, name):
    def pred(p):
        return p[0] == "field" and p[2] == name and base_pred(p[1])

    pred.text = f"{getattr(base_pred, 'text', '?')}.{name}"
    return pred


def is_call(fname, *arg_preds):
    def pred(p):
        if p[0] != "call" or last(p[1]) != last(fname):
            return False
        if "::" in fname and not p[1].endswith(fname):
            return False
        if arg_preds and len(arg_preds) != len(p[2]):
            return False
        return all(q is None or q(a) for q, a in zip(arg_preds, p[2]))

    pred.text = f"{fname}(..)"
    return pred


def is_mcall(method, recv_pred=None, *arg_preds):
    def pred(p):
        if p[0] != "mcall" or p[1] != method:
            return False
        if recv_pred is not None and not recv_pred(p[2]):
            return False
        return all(q is None or q(a) for q, a in zip(arg_preds, p[3]))

    pred.text = f"{getattr(recv_pred, 'text', '_')}.{method}(..)"
    return pred


def anything(p):
    return True


anything.text = "_"


def has_bind_root(variant, field):
    def pred(p):
        return any(r[0] == "bind" and last(r[1]) == variant and r[2] == field for r in A.roots(p))

    pred.text = f"derived from {variant}.{field}"
    return pred


def peel(p):
    """strip Ok.0 / Some.0 binds and `?` (value-preserving unwrapping)"""
    while True:
        if p[0] == "bind" and last(p[1]) in ("Ok", "Some") and p[2] == "0":
            p = p[3]
        elif p[0] == "try":
            p = p[1]
            if p[0] == "alt":
                # `(match x { V { f, .. } => Some(f), _ => None })?`: on the path that goes on, the value is the payload of the
                # alternatives that are not None / Err
                keep = [a for a in p[1] if not (a == ("path", "None") or (a[0] == "call" and last(a[1]) == "Err"))]
                keep = [a[2][0] if a[0] == "call" and last(a[1]) in ("Some", "Ok") and len(a[2]) == 1 else a for a in keep]
                if len(keep) == 1 and len(keep) < len(p[1]):
                    p = keep[0]
        elif p[0] == "mcall" and p[1] in ("unwrap", "expect", "as_ref", "as_mut", "as_str", "as_slice", "borrow"):
            p = p[2]
        elif p[0] == "mcall" and p[1] in ("map_err", "context", "with_context", "or_else", "inspect_err"):
            p = p[2]  # error-side adaptors: the success value passes through untouched
        else:
            return p


def deep_peel(p):
    """peel() applied at every level of a term: the value with all success-path wrappers (`?`, Ok(..) patterns, error adaptors,
    borrows) taken off, so that `f(g(x)?)?`, `match f(..) { Ok(v) => v, Err(e) => .. }` and `f(..).or_else(..)?` read alike"""
    if not isinstance(p, tuple) or not p:
        return p
    if isinstance(p[0], str):
        p = peel(p)
    return tuple(deep_peel(x) if isinstance(x, tuple) else x for x in p)


def spine(p, limit=30):
    """Names of calls along the main data dependency (receiver / first argument)."""
    out = []
    while limit > 0:
        limit -= 1
        p = peel(p)
        if p[0] == "call":
            out.append(p[1])
            if not p[2]:
                break
            p = p[2][0]
        elif p[0] == "mcall":
            out.append("." + p[1])
            p = p[2]
        elif p[0] == "field":
            out.append("field:" + p[2])
            p = p[1]
        elif p[0] == "proj":
            p = p[1]
        elif p[0] == "bind":
            out.append(f"bind:{last(p[1])}.{p[2]}")
            p = p[3]
        elif p[0] == "elem":
            out.append("elem")
            p = p[1]
        elif p[0] == "cast":
            p = p[1]
        else:
            if p[0] == "param":
                out.append("param:" + p[2])
            elif p[0] == "path":
                out.append("path:" + p[1])
            break
    return out


def find_calls(root, names=None, methods=None):
    """Call / MethodCall nodes under `root` by callee last segment / method name."""
    for n in A.walk(root):
        if n["k"] == "Call" and n["func"]["k"] == "Path":
            if names is None and methods is None:
                yield n
            elif names and last(n["func"]["path"]) in names:
                yield n
        elif n["k"] == "MethodCall":
            if names is None and methods is None:
                yield n
            elif methods and n["method"] in methods:
                yield n


def ctor_sites(root, path_suffix):
    """Struct-literal and tuple-call constructor sites of a type/variant path ending in suffix."""
    segs = path_suffix.split("::")
    funcs = set()
    for n in A.walk(root):
        if n["k"] == "Call":
            funcs.add(id(n["func"]))
    for n in A.walk(root):
        if n["k"] == "Path" and id(n) not in funcs:
            ps = n["path"].split("::")
            if len(ps) >= len(segs) and ps[-len(segs):] == segs and len(segs) >= 2:
                yield n  # unit variant / unit struct used as a value
        if n["k"] == "Struct":
            ps = n["path"].split("::")
            if ps[-len(segs):] == segs or (len(segs) == 2 and ps[-1] == segs[-1] and ps[-2] == "Self"):
                yield n
        elif n["k"] == "Call" and n["func"]["k"] == "Path":
            ps = n["func"]["path"].split("::")
            if ps[-len(segs):] == segs or (len(segs) == 2 and len(ps) >= 2 and ps[-1] == segs[-1] and ps[-2] in ("Self", "crate")):
                yield n


def ctor_field(node, name):
    """expression initialising field `name` (struct literal) or positional index (tuple call)"""
    if node["k"] == "Struct":
        for f in node["fields"]:
            if f["name"] == name:
                return f["expr"]
        return None
    idx = int(name)
    return node["args"][idx] if idx < len(node["args"]) else None
