"""PANIC / REC / EXIT inventories on MIR (engine M)."""
import re

from . import mir as M

PANIC_CALLEES = [
    # (regex on resolved callee, kind)
    (r"^(core|std)::panicking::", "panic"),
    (r"^std::rt::(begin_panic|panic_fmt)", "panic"),
    (r"^(core|std)::option::Option::<T>::(unwrap|expect)$", "unwrap"),
    (r"^(core|std)::result::Result::<T, E>::(unwrap|expect|unwrap_err|expect_err)$", "unwrap"),
    (r"^(core|std)::option::(unwrap_failed|expect_failed)", "unwrap"),
    (r"::index$", "index"),
    (r"::index_mut$", "index"),
    (r"^(core|std)::slice::<impl \[T\]>::(split_at|split_at_mut|copy_from_slice|clone_from_slice|swap|chunks|chunks_exact|windows|rotate_left|rotate_right|select_nth_unstable\w*)$", "slice-contract"),
    (r"^(alloc|std)::vec::Vec::<T, A>::(remove|swap_remove|insert|drain|split_off|truncate_front)$", "vec-contract"),
    (r"^(alloc|std)::string::String::(remove|insert|insert_str|drain|split_off|truncate|replace_range)$", "string-contract"),
    (r"^(core|std)::str::<impl str>::(split_at|split_at_mut)$", "str-contract"),
    (r"^(core|std)::cell::RefCell::<T>::(borrow|borrow_mut)$", "refcell"),
    (r"^(core|std)::iter::Iterator::step_by$", "iter-contract"),
    (r"^(core|std)::iter::Iterator::(sum|product)$", "iter-arith"),
    # arithmetic through the operator traits of the primitive integers (`&u32 + u32` is a call, and the callee inherits the
    # caller's overflow checks): same failure as the inline Assert(overflow) of `u32 + u32`
    (r"^<&?(u|i)(8|16|32|64|128|size) as (core|std)::ops::(Add|Sub|Mul|Div|Rem|Shl|Shr|Neg)(Assign)?(<[^>]*>)?>::\w+$", "arith-call"),
    (r"^std::process::exit$", "exit"),
    (r"^std::process::abort$", "abort"),
    (r"^chic::(Error|Warning)::(error|warning)$", "dep-contract:chic"),
    (r"^(core|std)::unreachable", "panic"),
    (r"^(core|std)::intrinsics::(unreachable|abort)", "abort"),
]
PANIC_RE = [(re.compile(r), k) for r, k in PANIC_CALLEES]


def classify_callee(name):
    for r, k in PANIC_RE:
        if r.search(name):
            return k
    return None


def producer_of(fn, block_idx, local):
    """Which call (or rvalue) defined `local` before block `block_idx`'s terminator: walks back over
    single-predecessor moves. Returns a short description."""
    # search all blocks for a call whose dest is this local (MIR temps are single-assignment at opt-level 0)
    seen = set()
    cur = local
    for _ in range(12):
        if cur in seen:
            break
        seen.add(cur)
        found = None
        for i, b in enumerate(fn.blocks):
            t = b["term"]
            if t["k"] == "call" and t["dest"]["l"] == cur and t["dest"]["proj"] == 0:
                return "call:" + (t["resolved"] or t["callee"])
            for st in b["stmts"]:
                if st["dst"]["l"] == cur and st["dst"]["proj"] == 0:
                    found = st
        if found is None:
            break
        rv = found["val"]["rv"]
        ops = found["val"]["ops"]
        if rv in ("use",) or rv.startswith("ref:") or rv == "copyderef" or rv.startswith("cast:"):
            if ops and ops[0].get("k") == "place":
                cur = ops[0]["l"]
                continue
        return "rv:" + rv.split(":")[0]
    if cur <= fn.argc and cur != 0:
        return f"arg#{cur}"
    for n, l, pr in fn.names:
        if l == cur:
            return f"var:{n}"
    return "?"


WIDE = ("u32", "usize")
SMALL_CONST = 1 << 16


def _strip_ref(ty):
    return (ty or "").lstrip("&").replace("mut ", "").strip()


def add_discharge(ops):
    """ARITH, mechanical part: an addition is discharged by the magnitude argument only when both operands are u32 or both
    usize (nothing narrower) and a constant operand is below 2^16. Returns (ok, text)."""
    tys = [_strip_ref(o.get("ty")) for o in ops]
    if len(tys) != 2 or tys[0] != tys[1] or tys[0] not in WIDE:
        return False, f"operand types {tys}"
    for o in ops:
        if o.get("k") == "const":
            if not o.get("val") or int(o["val"]) >= SMALL_CONST:
                return False, f"constant operand {o.get('val')}"
    return True, f"{tys[0]} + {tys[1]}"


def short(name):
    name = re.sub(r"<impl [^>]*>::", "", name)
    name = re.sub(r"::<[^>]*>", "", name)
    name = re.sub(r"<(.*) as (.*)>::", r"\1::", name)
    return name


def inventory(mir, reach):
    """List of panic-capable sites in reachable local functions:
    dict(fn, kind, what, producer, line, mac)"""
    out = []
    for p in sorted(reach):
        fn = mir.fns[p]
        owner = fn.parent or fn.path
        for i, b in enumerate(fn.blocks):
            if b["cleanup"]:
                continue
            t = b["term"]
            sp = b["tsp"]
            if t["k"] == "assert":
                if t["msg"] in ("misaligned", "nullptr"):
                    continue  # compiler-inserted debug pointer checks on references: cannot fail in safe code
                site = dict(fn=p, owner=owner, kind="assert:" + t["msg"], what=t["msg"], producer="", line=sp["line"], mac=sp["mac"], file=sp["file"])
                if t["msg"] == "overflow:Add":
                    defs = [st for st in b["stmts"] if st["val"]["rv"] == "binop:AddWithOverflow" and st["dst"]["l"] == t["cond"].get("l")]
                    if len(defs) == 1:
                        site["mech"], site["mech_text"] = add_discharge(defs[0]["val"]["ops"])
                elif t["msg"] == "overflow:Mul":
                    # `k * xs.len()` with a literal k <= 16: a length (bounded by the memory the process has) scaled once by a small
                    # constant -- the same magnitude argument as for additions; a product that feeds itself (x = x * k) has no
                    # `len()` call as its operand and keeps its row
                    defs = [st for st in b["stmts"] if st["val"]["rv"] == "binop:MulWithOverflow" and st["dst"]["l"] == t["cond"].get("l")]
                    if len(defs) == 1:
                        ops = defs[0]["val"]["ops"]
                        consts = [o for o in ops if o.get("k") == "const"]
                        others = [o for o in ops if o.get("k") == "place"]
                        if len(ops) == 2 and len(consts) == 1 and len(others) == 1 and all(_strip_ref(o.get("ty")) == "usize" for o in ops) \
                                and (consts[0].get("val") or "").isdigit() and int(consts[0]["val"]) <= 16 \
                                and re.search(r"^call:.*::len$", producer_of(fn, i, others[0]["l"])):
                            site["mech"], site["mech_text"] = True, f"{consts[0]['val']} * len()"
                out.append(site)
            elif t["k"] == "call":
                name = mir.callee_of(fn, t)
                k = classify_callee(name)
                if k is None:
                    continue
                if name in mir.fns:
                    continue  # a local function: its own body is inventoried
                prod = ""
                if k in ("unwrap",) and t["args"] and t["args"][0].get("k") == "place":
                    prod = producer_of(fn, i, t["args"][0]["l"])
                elif k == "index" and t["args"]:
                    if len(t["args"]) > 1 and t["args"][1].get("ty", "").endswith("ops::RangeFull"):
                        continue  # `v[..]`: the whole slice, total for every length
                    prod = t["args"][0].get("ty", "") + "[" + (t["args"][1].get("ty", "") if len(t["args"]) > 1 else "") + "]"
                elif k == "exit" and t["args"]:
                    prod = "status=" + (t["args"][0].get("val") or "?")
                site = dict(fn=p, owner=owner, kind=k, what=short(name), producer=short(prod), line=sp["line"], mac=sp["mac"], file=sp["file"])
                if k == "arith-call":
                    site["what"] = name  # keep the operand types: `<&u32 as Add<u32>>::add`
                    if re.search(r"::ops::Add(Assign)?(<[^>]*>)?>::add(_assign)?$", name):
                        site["mech"], site["mech_text"] = add_discharge(t["args"])
                out.append(site)
    return out


INT_TY = re.compile(r"^(u|i)(8|16|32|64|128|size)$")
NARROW_OK = ("u8", "u16", "u32", "usize", "bool", "char")
LARGE_CALLS = re.compile(
    r"::(wrapping_\w+|overflowing_\w+|unchecked_\w+|saturating_\w+|from_str_radix|pow|checked_pow|next_power_of_two|rotate_left|rotate_right|swap_bytes|reverse_bits|"
    r"from_(le|be|ne)_bytes|to_bits|abs_diff|max_value|next_multiple_of|isqrt)$"
)
INT_PARSE = re.compile(r"<(u|i)(8|16|32|64|128|size) as (core|std)::str::FromStr>::from_str$|str>::parse$")


def _std_macro(sp):
    return bool(sp.get("exp")) and re.match(r"^(std|core|alloc)::", sp.get("mac") or "") is not None


def magnitude_sources(mir, reach):
    """Premise of the ARITH discharge, as far as it is visible in the MIR of the local crates: nothing reachable from main
    manufactures a u32/usize that is large for a reason other than the size of the input. Returns
    {rule: (scanned, [offender strings])}."""
    r = {"CONST": [0, []], "UNOP": [0, []], "CAST": [0, []], "BINOP": [0, []], "CALL": [0, []]}

    def where(p, sp):
        return f"{p} at {sp['file']}:{sp['line']}"

    for p in sorted(reach):
        fn = mir.fns[p]
        for b in fn.blocks:
            if b["cleanup"]:
                continue
            t = b["term"]
            operands = [(st["sp"], o) for st in b["stmts"] for o in st["val"]["ops"]]
            if t["k"] == "call":
                operands += [(b["tsp"], o) for o in t["args"]]
            for sp, o in operands:
                if o.get("k") == "const" and o.get("ty") in WIDE:
                    r["CONST"][0] += 1
                    if not o.get("val") or int(o["val"]) >= SMALL_CONST:
                        if not _std_macro(sp):
                            r["CONST"][1].append(f"{o['ty']} constant {o.get('val')} in {where(p, sp)}")
            for st in b["stmts"]:
                rv = st["val"]["rv"]
                ops = st["val"]["ops"]
                tys = [o.get("ty") for o in ops]
                if rv in ("unop:Not", "unop:Neg") and tys and INT_TY.match(tys[0] or ""):
                    r["UNOP"][0] += 1
                    if tys[0] in WIDE and not _std_macro(st["sp"]):
                        r["UNOP"][1].append(f"{rv} on {tys[0]} in {where(p, st['sp'])}")
                elif rv.startswith("cast:") and rv.split(":")[1] in ("IntToInt", "FloatToInt"):
                    to = rv.split(":", 2)[2]
                    if to in WIDE:
                        r["CAST"][0] += 1
                        if (tys[0] or "") not in NARROW_OK and not _std_macro(st["sp"]):
                            r["CAST"][1].append(f"{tys[0]} as {to} in {where(p, st['sp'])}")
                elif rv in ("binop:Sub", "binop:Mul", "binop:Shl", "binop:SubUnchecked", "binop:MulUnchecked", "binop:ShlUnchecked") and tys and tys[0] in WIDE:
                    r["BINOP"][0] += 1
                    small_shift = rv.startswith("binop:Shl") and all(o.get("k") == "const" and o.get("val") and int(o["val"]) < 16 for o in ops)
                    if not _std_macro(st["sp"]) and not small_shift:
                        r["BINOP"][1].append(f"unchecked {rv[6:]} on {tys[0]} in {where(p, st['sp'])}")
            if t["k"] == "call":
                name = t["resolved"] or t["callee"]
                r["CALL"][0] += 1
                if (LARGE_CALLS.search(name) or INT_PARSE.search(name)) and not _std_macro(b["tsp"]):
                    dest_ty = fn.locals[t["dest"]["l"]] if t["dest"]["proj"] == 0 else ""
                    if re.search(r"\b(u32|usize)\b", dest_ty) or not dest_ty:
                        r["CALL"][1].append(f"{name} -> {dest_ty} in {where(p, b['tsp'])}")
    return r
