"""PANIC / REC / EXIT inventories on MIR (engine M)."""
import re

from . import mir as M

PANIC_CALLEES = [
    # (regex on resolved callee, kind)
    (r"^(core|std)::panicking::", "panic"),
    (r"^std::rt::(begin_panic|panic_fmt)", "panic"),
    (r"^(core|std)::option::Option::<T>::(unwrap|expect)$", "unwrap"),
    (r"^(core|std)::result::Result::<T, E>::(unwrap|expect|unwrap_err|expect_err)$", "unwrap"),
    (r"^(core|std)::option::(unwrap_failed|expect_failed)", "unwrap"),
    (r"::index$", "index"),
    (r"::index_mut$", "index"),
    (r"^(core|std)::slice::<impl \[T\]>::(split_at|split_at_mut|copy_from_slice|clone_from_slice|swap|chunks|chunks_exact|windows|rotate_left|rotate_right|select_nth_unstable\w*)$", "slice-contract"),
    (r"^(alloc|std)::vec::Vec::<T, A>::(remove|swap_remove|insert|drain|split_off|truncate_front)$", "vec-contract"),
    (r"^(alloc|std)::string::String::(remove|insert|insert_str|drain|split_off|truncate|replace_range)$", "string-contract"),
    (r"^(core|std)::str::<impl str>::(split_at|split_at_mut)$", "str-contract"),
    (r"^(core|std)::cell::RefCell::<T>::(borrow|borrow_mut)$", "refcell"),
    (r"^(core|std)::iter::Iterator::step_by$", "iter-contract"),
    (r"^std::process::exit$", "exit"),
    (r"^std::process::abort$", "abort"),
    (r"^chic::(Error|Warning)::(error|warning)$", "dep-contract:chic"),
    (r"^(core|std)::unreachable", "panic"),
    (r"^(core|std)::intrinsics::(unreachable|abort)", "abort"),
]
PANIC_RE = [(re.compile(r), k) for r, k in PANIC_CALLEES]


def classify_callee(name):
    for r, k in PANIC_RE:
        if r.search(name):
            return k
    return None


def producer_of(fn, block_idx, local):
    """Which call (or rvalue) defined `local` before block `block_idx`'s terminator: walks back over
    single-predecessor moves. Returns a short description."""
    # search all blocks for a call whose dest is this local (MIR temps are single-assignment at opt-level 0)
    seen = set()
    cur = local
    for _ in range(12):
        if cur in seen:
            break
        seen.add(cur)
        found = None
        for i, b in enumerate(fn.blocks):
            t = b["term"]
            if t["k"] == "call" and t["dest"]["l"] == cur and t["dest"]["proj"] == 0:
                return "call:" + (t["resolved"] or t["callee"])
            for st in b["stmts"]:
                if st["dst"]["l"] == cur and st["dst"]["proj"] == 0:
                    found = st
        if found is None:
            break
        rv = found["val"]["rv"]
        ops = found["val"]["ops"]
        if rv in ("use",) or rv.startswith("ref:") or rv == "copyderef" or rv.startswith("cast:"):
            if ops and ops[0].get("k") == "place":
                cur = ops[0]["l"]
                continue
        return "rv:" + rv.split(":")[0]
    if cur <= fn.argc and cur != 0:
        return f"arg#{cur}"
    for n, l, pr in fn.names:
        if l == cur:
            return f"var:{n}"
    return "?"


def short(name):
    name = re.sub(r"<impl [^>]*>::", "", name)
    name = re.sub(r"::<[^>]*>", "", name)
    name = re.sub(r"<(.*) as (.*)>::", r"\1::", name)
    return name


def inventory(mir, reach):
    """List of panic-capable sites in reachable local functions:
    dict(fn, kind, what, producer, line, mac)"""
    out = []
    for p in sorted(reach):
        fn = mir.fns[p]
        owner = fn.parent or fn.path
        for i, b in enumerate(fn.blocks):
            if b["cleanup"]:
                continue
            t = b["term"]
            sp = b["tsp"]
            if t["k"] == "assert":
                if t["msg"] in ("misaligned", "nullptr"):
                    continue  # compiler-inserted debug pointer checks on references: cannot fail in safe code
                out.append(dict(fn=p, owner=owner, kind="assert:" + t["msg"], what=t["msg"], producer="", line=sp["line"], mac=sp["mac"], file=sp["file"]))
            elif t["k"] == "call":
                name = mir.callee_of(fn, t)
                k = classify_callee(name)
                if k is None:
                    continue
                if name in mir.fns:
                    continue  # a local function: its own body is inventoried
                prod = ""
                if k in ("unwrap",) and t["args"] and t["args"][0].get("k") == "place":
                    prod = producer_of(fn, i, t["args"][0]["l"])
                elif k == "index" and t["args"]:
                    prod = t["args"][0].get("ty", "") + "[" + (t["args"][1].get("ty", "") if len(t["args"]) > 1 else "") + "]"
                elif k == "exit" and t["args"]:
                    prod = "status=" + (t["args"][0].get("val") or "?")
                out.append(dict(fn=p, owner=owner, kind=k, what=short(name), producer=short(prod), line=sp["line"], mac=sp["mac"], file=sp["file"]))
    return out
