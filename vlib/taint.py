"""Raw-grammar-text taint over the syn tree (engine S): for an expression that feeds a format hole, the set of
*raw text leaves* it is built from -- values whose static type is grammar text (`Ustr` and what `trim/as_str/to_string`
make of it) that reach the hole without passing through one of the named encoder functions.

The analysis is structural and conservative in the direction that matters for SINK rules: it follows `let` initialisers,
iterator chains and their closures, `format!` arguments, block/if/match values, `String` buffers that are filled through
`write!`/`push_str`/a callee's `&mut` parameter, and `&str`/`String` parameters back to the call sites in the same module.
A value of a scalar type (integers, ids, bool) is clean by its type; an encoder call is clean by definition (the encoder's
own correctness is ENC's job)."""
import re

from . import ast as A
from . import templates as TM
from . import types as TY

SCALARS = TY.INT | {"int", "bool", "char", "usize", "()", "closure"}
WRITE_MACROS = {"write", "writeln"}
MAPPERS = {"map", "filter_map", "flat_map", "and_then", "map_or", "map_or_else", "fold"}
STRING_MUTATORS = {"push_str", "push", "extend", "write_str", "insert_str", "write_fmt"}


def is_texty(t):
    t = TY.strip(t)
    if t in ("Ustr",):
        return True
    m = re.match(r"^(Text|Option)<(.*)>$", t)
    return bool(m) and is_texty(m.group(2))


def is_scalar(t):
    t = TY.strip(t)
    if t in SCALARS:
        return True
    if re.match(r"^[A-Z]\w*Id$", t):
        return True
    m = re.match(r"^(Off|Option)<(.*)>$", t)
    if m:
        return is_scalar(m.group(2))
    return False


class Taint:
    def __init__(self, repo, typer, encoders, max_depth=60, scalars_clean=True, probe=None):
        """scalars_clean=False + probe: an *origin* query -- probe(fn, node) is called for every expression node on the value
        path of the queried expression, scalars included (used to ask "is this id computed by that lookup?")."""
        self.scalars_clean = scalars_clean
        self.probe = probe
        self.repo = repo
        self.ty = typer
        self.encoders = set(encoders)
        self.max_depth = max_depth
        self._envs = {}
        self._callers = {}
        self.visited_fns = set()

    def envs(self, fn):
        if fn.qname not in self._envs:
            self._envs[fn.qname] = A.collect_envs(fn)
        return self._envs[fn.qname]

    def desc(self, fn, e):
        try:
            return " ".join(self.repo.text(fn.file, e).split())[:50] + f" @{fn.qname}:{e['l']}"
        except Exception:
            return f"{e['k']} @{fn.qname}"

    # ------------------------------------------------------------------ entry
    def raw(self, fn, e, env=None, depth=0, stack=()):
        """list of descriptions of raw text leaves that reach expression e of function fn"""
        if e is None or depth > self.max_depth:
            return []
        envs = self.envs(fn)
        env = envs.get(id(e)) or env
        k = e["k"]
        if k == "Lit":
            return []
        if k == "Call" and e["func"]["k"] == "Path":
            last = e["func"]["path"].split("::")[-1]
            if last in self.encoders:
                return []
        if self.probe is not None:
            self.probe(fn, e)
        t = TY.strip(self.ty.of(e, env)) if env is not None else "?"
        if is_scalar(t) and self.scalars_clean:
            return []
        if is_texty(t):
            return [self.desc(fn, e)]
        d = depth + 1
        if k == "Path":
            name = e["path"]
            if "::" in name:
                return []
            df = env.get(name) if env else None
            if df is None:
                return []
            return self.raw_def(fn, name, df, d, stack)
        if k in ("Ref", "Unary", "Cast", "Try", "Paren", "Return"):
            return self.raw(fn, e.get("expr"), env, d, stack)
        if k == "Macro":
            n = e["name"].split("::")[-1]
            if n in TM.FMT_MACROS:
                s = TM.fmt_site(e, env)
                out = []
                if s is not None:
                    for idx, nm, he in s.holes:
                        out += self.raw(fn, he, envs.get(id(he)) or env, d, stack)
                return out
            out = []
            for a in e.get("args") or []:
                out += self.raw(fn, a, env, d, stack)
            return out
        if k == "MethodCall":
            clo = [a for a in e["args"] if a["k"] == "Closure"]
            if e["method"] in MAPPERS and clo and self.probe is None:
                # the closure's value replaces the element: only what the closure builds reaches the result
                out = []
            elif e["method"] in MAPPERS and clo:
                # origin query: the adaptors in front of the map are part of how the value was obtained
                self.raw(fn, e["recv"], env, d, stack)
                out = []
            else:
                out = self.raw(fn, e["recv"], env, d, stack)
            for a in e["args"]:
                if a["k"] == "Closure":
                    out += self.raw(fn, a["body"], envs.get(id(a["body"])) or env, d, stack)
                elif a["k"] != "Lit":
                    out += self.raw(fn, a, env, d, stack)
            return out
        if k == "Call":
            out = []
            for a in e["args"]:
                out += self.raw(fn, a, env, d, stack)
            # a local function that builds a string from its own raw sources
            if e["func"]["k"] == "Path":
                last = e["func"]["path"].split("::")[-1]
                for cal in self.local_fns(fn, last):
                    out += self.ret_raw(cal, d, stack)
            return out
        if k in ("Field", "Index"):
            if "Ustr" in t:
                return [self.desc(fn, e)]
            if t == "?" or "String" in t or "str" in t:
                return self.raw(fn, e["base"], env, d, stack)
            return []
        if k == "Block":
            last = None
            for st in e["stmts"]:
                if st["k"] == "ExprStmt" and not st["semi"]:
                    last = st["expr"]
                else:
                    last = None
            return self.raw(fn, last, env, d, stack) if last is not None else []
        if k == "If":
            out = self.raw(fn, e["then"], env, d, stack)
            if e["else"] is not None:
                out += self.raw(fn, e["else"], env, d, stack)
            return out
        if k == "Match":
            out = []
            for arm in e["arms"]:
                out += self.raw(fn, arm["body"], env, d, stack)
            return out
        if k in ("Tuple", "Array"):
            out = []
            for x in e.get("elems") or []:
                out += self.raw(fn, x, env, d, stack)
            return out
        if k == "Closure":
            return self.raw(fn, e["body"], envs.get(id(e["body"])) or env, d, stack)
        if k == "Struct":
            out = []
            for f in e["fields"]:
                out += self.raw(fn, f["expr"], env, d, stack)
            return out
        if k == "Binary":
            return self.raw(fn, e["left"], env, d, stack) + self.raw(fn, e["right"], env, d, stack)
        return []

    # ------------------------------------------------------------------ definitions
    def raw_def(self, fn, name, df, depth, stack):
        if df.kind in ("let", "bind"):
            out = self.raw(fn, df.init, df.env, depth, stack) if df.init is not None else []
            node = df.node
            mutable = bool(node and node.get("pat", {}).get("k") == "PIdent" and node["pat"].get("mut"))
            if node and node.get("pat", {}).get("k") == "PType":
                inner = node["pat"].get("pat") or {}
                mutable = inner.get("k") == "PIdent" and bool(inner.get("mut"))
            if mutable:
                out += self.buffer_writes(fn, name, depth, stack)
            return out
        if df.kind == "elem":
            return self.raw(fn, df.init, df.env, depth, stack)
        if df.kind == "param":
            return self.param_raw(fn, name, depth, stack)
        return []

    def buffer_writes(self, fn, name, depth, stack):
        """raw text written into the local String `name` of fn through write!/push_str/a callee's &mut parameter"""
        out = []
        envs = self.envs(fn)

        def is_name(a):
            while a["k"] in ("Ref", "Unary", "Paren"):
                a = a["expr"]
            return a["k"] == "Path" and a["path"] == name

        for n in A.walk(fn.body):
            if n["k"] == "Macro" and n["name"].split("::")[-1] in WRITE_MACROS:
                a = n.get("args") or []
                if a and is_name(a[0]):
                    s = TM.fmt_site(n, envs.get(id(n)))
                    if s is not None:
                        for idx, nm, he in s.holes:
                            out += self.raw(fn, he, envs.get(id(he)) or envs.get(id(n)), depth + 1, stack)
            elif n["k"] == "MethodCall" and n["method"] in STRING_MUTATORS and is_name(n["recv"]):
                for a in n["args"]:
                    out += self.raw(fn, a, envs.get(id(a)) or envs.get(id(n)), depth + 1, stack)
            elif n["k"] == "Call" and n["func"]["k"] == "Path":
                for i, a in enumerate(n["args"]):
                    if is_name(a) and a["k"] == "Ref":
                        last = n["func"]["path"].split("::")[-1]
                        for cal in self.local_fns(fn, last, anywhere=True):
                            out += self.callee_writes(cal, i, depth + 1, stack)
        return out

    def callee_writes(self, cal, idx, depth, stack):
        """raw text that function `cal` writes into its parameter number idx"""
        key = ("cw", cal.qname, idx)
        if key in stack or depth > self.max_depth or idx >= len(cal.params):
            return []
        stack = stack + (key,)
        self.visited_fns.add(cal.qname)
        p = cal.params[idx]["name"]
        out = []
        envs = self.envs(cal)
        for n in A.walk(cal.body):
            if n["k"] == "Macro" and n["name"].split("::")[-1] in WRITE_MACROS:
                a = n.get("args") or []
                if a and a[0]["k"] == "Path" and a[0]["path"] == p:
                    s = TM.fmt_site(n, envs.get(id(n)))
                    if s is not None:
                        for i2, nm, he in s.holes:
                            out += self.raw(cal, he, envs.get(id(he)) or envs.get(id(n)), depth + 1, stack)
            elif n["k"] == "Call" and n["func"]["k"] == "Path":
                for i, a in enumerate(n["args"]):
                    b = a
                    while b["k"] in ("Ref", "Unary"):
                        b = b["expr"]
                    if b["k"] == "Path" and b["path"] == p:
                        for c2 in self.local_fns(cal, n["func"]["path"].split("::")[-1], anywhere=True):
                            out += self.callee_writes(c2, i, depth + 1, stack)
        return out

    def local_fns(self, fn, name, anywhere=False):
        c = [f for q, f in self.repo.fns.items() if f.name == name and (f.module == fn.module)]
        if not c and anywhere:
            c = [f for q, f in self.repo.fns.items() if f.name == name and not f.self_ty]
        return c

    def ret_raw(self, cal, depth, stack):
        """raw leaves in the value a local function returns (its own sources, not its parameters' callers)"""
        key = ("ret", cal.qname)
        if key in stack or depth > self.max_depth:
            return []
        if cal.name in self.encoders:
            return []
        stack = stack + (key,)
        out = []
        envs = self.envs(cal)
        last = None
        for st in cal.body["stmts"]:
            last = st["expr"] if st["k"] == "ExprStmt" and not st["semi"] else None
        if last is not None:
            # parameters are cut off here: the caller's arguments were already examined at the call
            out += [x for x in self.raw(cal, last, envs.get(id(last)), depth + 1, stack + (("noparams", cal.qname),))]
        return out

    def param_raw(self, fn, name, depth, stack):
        """a &str / String-like parameter: raw text handed in by callers in the same module"""
        if ("noparams", fn.qname) in stack:
            return []
        key = ("param", fn.qname, name)
        if key in stack or depth > self.max_depth:
            return []
        stack = stack + (key,)
        idx = None
        for i, p in enumerate(fn.params):
            if p["name"] == name:
                idx = i
        if idx is None:
            return []
        out = []
        for q, caller in self.repo.fns.items():
            if caller.module != fn.module:
                continue
            for n in A.walk(caller.body):
                if n["k"] == "Call" and n["func"]["k"] == "Path" and n["func"]["path"].split("::")[-1] == fn.name and not fn.self_ty:
                    if idx < len(n["args"]):
                        out += self.raw(caller, n["args"][idx], self.envs(caller).get(id(n["args"][idx])) or self.envs(caller).get(id(n)), depth + 1, stack)
                elif n["k"] == "MethodCall" and fn.self_ty and n["method"] == fn.name:
                    j = idx - 1  # self is parameter 0
                    if 0 <= j < len(n["args"]):
                        out += self.raw(caller, n["args"][j], self.envs(caller).get(id(n["args"][j])) or self.envs(caller).get(id(n)), depth + 1, stack)
        return out


def quote_state(text, quote='"', escape="\\"):
    """True when `text` (template text preceding a hole) ends inside a double-quoted region"""
    inside = False
    i = 0
    n = len(text)
    while i < n:
        c = text[i]
        if c == escape and inside and i + 1 < n:
            i += 2
            continue
        if c == quote:
            inside = not inside
        i += 1
    return inside
