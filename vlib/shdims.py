"""Dimension inference for the variables of an assembled bash skeleton (engine K): which shell variables can hold *text*
(grammar literals/descriptions, typed words, output of user commands, environment text) and which are *clean* (numbers,
ids, names assembled from constants and numbers).  Two-point lattice clean < text, least fixpoint over every assignment
in the skeleton, names merged across functions (bash scoping is dynamic, and merging is the conservative direction).

Sources of text: positional parameters, `words` (set by _get_comp_words_by_ref), COMP_WORDBREAKS, format holes whose Rust
expression derives from grammar text (asked from vlib.taint with no encoder exempted), `read` fed by a pipeline whose
producer is not clean, `readarray`, `$( )` substitutions other than the listed clean builtins, namerefs.
Trusted clean: `cword` (COMP_CWORD, an integer, set by _get_comp_words_by_ref), BASH_VERSINFO / BASH_VERSION, `$#`,
`${#x}`, `$(( ))`, output of `bind -v` (readline's own variable listing), `type -t`.
Nothing is executed."""
import re

from . import bashparse as B

TEXT_VARS = {"words", "COMP_WORDBREAKS", "COMP_WORDS", "COMP_LINE", "1", "2", "3", "4", "@", "*"}
CLEAN_VARS = {"cword": "COMP_CWORD as delivered by _get_comp_words_by_ref: an integer", "BASH_VERSINFO": "bash's own version array", "BASH_VERSION": "bash's own version string", "#": "argument count", "COMP_CWORD": "integer"}
CLEAN_PRODUCERS = {"bind": "readline's own variable listing", "type": "builtin type -t: a fixed word"}
HOLE_RE = re.compile(r"H__(\w+?)__H")


def dq_parts(word):
    """contents of the double-quoted regions of a word (substitutions inside quotes are still substitutions)"""
    out = []
    i = 0
    n = len(word)
    while i < n:
        c = word[i]
        if c == "\\":
            i += 2
            continue
        if c == "'":
            j = word.find("'", i + 1)
            i = n if j < 0 else j + 1
            continue
        if c == '"':
            j = B.read_dquote(word, i + 1)
            out.append(word[i + 1 : j - 1])
            i = j
            continue
        i += 1
    return out


class Dims:
    def __init__(self, tree, hole_is_text):
        """hole_is_text: token name (without delimiters) -> bool"""
        self.tree = tree
        self.trees = [tree]
        self._collect_inner(tree, 0)
        self.hole_is_text = hole_is_text
        self.text = set(TEXT_VARS)  # variables that may hold text (scalar value or array elements)
        self.keys_text = set()  # associative arrays whose KEYS may hold text
        self.assigned = set(CLEAN_VARS)
        self.why = {}
        self.namerefs = {}
        self.collecting = False
        self._fix()

    def _collect_inner(self, tree, depth):
        """command / process substitutions are programs too: parse them so that their assignments and reads are seen"""
        if depth > 4:
            return
        for n, *_ in B.walk(tree):
            ws = []
            if n.kind == "simple":
                ws = list(n.words) + [w for _, w in n.redirs]
            elif n.kind == "for":
                ws = list(n.words)
            for w in ws:
                for inner in B.inner_scripts(w) + [x for q in dq_parts(w) for x in B.inner_scripts(q)]:
                    try:
                        t = B.parse(inner)
                    except B.ParseError:
                        continue
                    self.trees.append(t)
                    self._collect_inner(t, depth + 1)

    def walk_all(self):
        for t in self.trees:
            yield from B.walk(t)

    # ---------------------------------------------------------------- classification of a piece of shell text
    def is_text_value(self, s, depth=0):
        """may the expansion of shell text s contain text?  (conservative)"""
        i = 0
        n = len(s)
        while i < n:
            c = s[i]
            if c == "\\":
                i += 2
                continue
            if c == "'":
                j = s.find("'", i + 1)
                i = n if j < 0 else j + 1
                continue
            if c == "$":
                if s.startswith("$((", i):
                    j = s.find("))", i)
                    i = n if j < 0 else j + 2
                    continue
                if s.startswith("$(", i):
                    j = B.read_balanced(s, i + 2, "(", ")")
                    inner = s[i + 2 : j - 1]
                    if self.producer_is_text(inner):
                        return True
                    i = j
                    continue
                if s.startswith("${", i):
                    j = B.read_balanced(s, i + 2, "{", "}")
                    if self.param_exp_is_text(s[i + 2 : j - 1]):
                        return True
                    i = j
                    continue
                if s.startswith("$'", i):
                    j = i + 2
                    while j < n and s[j] != "'":
                        j += 2 if s[j] == "\\" else 1
                    i = j + 1
                    continue
                m = re.match(r"\$([A-Za-z_][A-Za-z0-9_]*|[0-9#@*?!$-])", s[i:])
                if m:
                    if self.var_is_text(m.group(1)):
                        return True
                    i += m.end()
                    continue
            if c == "`":
                return True
            if c == "<" and s.startswith("<(", i):
                return True
            m = HOLE_RE.match(s, i)
            if m:
                if self.hole_is_text.get(m.group(1), True):
                    return True
                i = m.end()
                continue
            i += 1
        return False

    def var_is_text(self, v):
        if v in CLEAN_VARS:
            return False
        if v in self.text:
            return True
        if v not in self.assigned:
            return True  # never assigned in the skeleton: unknown, fail closed
        return False

    def param_exp_is_text(self, body):
        """body of ${...}"""
        if body.startswith("#"):
            return False  # length
        m = re.match(r"^(!?)([A-Za-z_][A-Za-z0-9_]*|[0-9@*#])(.*)$", body, re.S)
        if not m:
            # ${$name[...]} inside an eval string (second-level): the name is assembled: judged by the caller
            return True
        bang, v, rest = m.group(1), m.group(2), m.group(3)
        if bang and rest.startswith("["):
            return v in self.keys_text or (v not in self.assigned and v not in CLEAN_VARS)
        if self.var_is_text(v):
            return True
        # operators whose word part is itself expanded into the result: ${v:-w} ${v:=w} ${v:+w} ${v/p/r}
        m2 = re.match(r"^(\[[^\]]*\])?(:?[-=+?]|//?)(.*)$", rest, re.S)
        if m2 and m2.group(2)[-1] in "-=+/":
            return self.is_text_value(m2.group(3))
        return False

    def producer_is_text(self, script):
        """may the output of this command list contain text?"""
        try:
            t = B.parse(script)
        except B.ParseError:
            return True
        # idiom: `... printf '%s <more>' A B C ... | sort .. | cut -f1 -d' '` yields only the first printf argument
        top = t.items[0] if t.kind == "list" and len(t.items) == 1 else None
        if top is not None and top.kind == "pipeline" and top.cmds[-1].kind == "simple" and top.cmds[-1].words[:1] == ["cut"] and "-f1" in top.cmds[-1].words and "-d' '" in top.cmds[-1].words:
            firsts = []
            other = False
            for n, *_ in B.walk(top.cmds[0]):
                if n.kind == "simple" and n.words:
                    if n.words[0] == "printf" and len(n.words) >= 3 and n.words[1].startswith("'%s "):
                        firsts.append(n.words[2])
                    elif n.words[0] not in ("do", "done"):
                        other = True
            if firsts and not other and all(c.kind == "simple" and c.words[0] in ("sort", "cut") for c in top.cmds[1:]):
                return any(self.is_text_value(x) for x in firsts)
        for n, *_ in B.walk(t):
            if n.kind == "simple" and n.words:
                w0 = n.words[0]
                if w0 in CLEAN_PRODUCERS:
                    continue
                if w0 in ("printf", "echo"):
                    if any(self.is_text_value(w) for w in n.words[1:]):
                        return True
                    continue
                if w0 in ("sort", "cut", "read", "do", "done", "for", "while", "[[", "local"):
                    continue
                if B.ASSIGN_RE.match(w0):
                    continue
                return True
        return False

    # ---------------------------------------------------------------- fixpoint
    def mark(self, v, why):
        if self.collecting:
            return False
        if v not in self.text and v not in CLEAN_VARS:
            self.text.add(v)
            self.why[v] = why
            return True
        return False

    def _array_elems(self, val):
        """words of an array initialiser `( ... )` -> list of (key text or None, value text)"""
        inner = val.strip()
        if inner.startswith('"') and inner.endswith('"'):
            inner = inner[1:-1]
        if not (inner.startswith("(") and inner.endswith(")")):
            return None
        out = []
        for w in B.split_cond_words(inner[1:-1]):
            m = re.match(r"^\[(.*?)\]=(.*)$", w, re.S)
            if m:
                out.append((m.group(1), m.group(2)))
            else:
                out.append((None, w))
        return out

    def _assign(self, name, sub, val, line):
        ch = False
        self.assigned.add(name)
        elems = self._array_elems(val)
        if elems is not None:
            for k, v in elems:
                if k is not None and self.is_text_value(k):
                    if name not in self.keys_text and not self.collecting:
                        self.keys_text.add(name)
                        ch = True
                if self.is_text_value(v):
                    ch |= self.mark(name, f"line {line}: element {v[:40]}")
            return ch
        if sub and self.is_text_value(sub[1:-1]) and not self.collecting:
            if name not in self.keys_text:
                self.keys_text.add(name)
                ch = True
        if self.is_text_value(val):
            ch |= self.mark(name, f"line {line}: {name}={val[:40]}")
        return ch

    def _pass(self):
        ch = False
        for n, loops, conds, f in self.walk_all():
            if n.kind == "simple" and n.words:
                w = n.words
                if w[0] == "eval":
                    # first-level expansion happens before the text is evaluated: classify the evaluated assignment
                    arg = " ".join(w[1:])
                    if arg.startswith('"') and arg.endswith('"'):
                        arg = arg[1:-1]
                    m = re.match(r"^local(?:\s+-\w+)*\s+([A-Za-z_]\w*)=(.*)$", arg, re.S)
                    if m:
                        name, val = m.group(1), m.group(2)
                        self.assigned.add(name)
                        m2 = re.match(r"^\(\\\$\{\$(\w+)\[\$(\w+)\]\}\)$", val)
                        if m2:
                            # elements of the cell of the table whose NAME is held by $1: text iff that family is text
                            namevar = m2.group(1)
                            fam = self.why.get(("family", namevar))
                            if fam and any(t == fam or t.startswith(fam) for t in self.text):
                                ch |= self.mark(name, f"line {n.line}: cell of table family {fam}")
                        else:
                            mm = re.match(r"^([A-Za-z_]\w*?)\$\{?(\w+)\}?$", val)
                            if mm:
                                self.why[("family", name)] = mm.group(1)
                            if self.is_text_value(val.replace("\\$", "")):
                                ch |= self.mark(name, f"line {n.line}: eval {val[:40]}")
                    else:
                        ch |= self.mark("<eval>", f"line {n.line}: unrecognised eval")
                    continue
                if w[0] in ("readarray", "mapfile"):
                    tgt = [x for x in w[1:] if not x.startswith("-")]
                    for op, rw in n.redirs:
                        txt = any(self.producer_is_text(s) for s in B.inner_scripts(rw)) or not B.inner_scripts(rw)
                        if tgt:
                            self.assigned.add(tgt[-1])
                            if txt:
                                ch |= self.mark(tgt[-1], f"line {n.line}: readarray from a text producer")
                    continue
                if w[0] == "read" or (len(w) > 1 and w[0].startswith("IFS=") and w[1] == "read"):
                    names = [x for x in w[w.index("read") + 1 :] if not x.startswith("-")]
                    txt = self.read_source_is_text(n)
                    for v in names:
                        self.assigned.add(v)
                        if txt:
                            ch |= self.mark(v, f"line {n.line}: read from a text producer")
                    continue
                if w[0] in ("declare", "local", "typeset") and "-n" in w[1:3]:
                    for a in B.assignments(n):
                        self.assigned.add(a[0])
                        m = re.match(r'^"?\$\{?(\d)\}?"?$', a[3])
                        if m and f:
                            # an alias of the variable NAMED by that argument: tied to it at every call site below
                            self.namerefs.setdefault(f, {})[int(m.group(1))] = a[0]
                        else:
                            ch |= self.mark(a[0], f"line {n.line}: nameref to an unknown name")
                    continue
                if w[0] in self.namerefs:
                    for k, alias in self.namerefs[w[0]].items():
                        if k < len(w) and re.match(r"^[A-Za-z_]\w*$", w[k]):
                            self.assigned.add(w[k])
                            if alias in self.text:
                                ch |= self.mark(w[k], f"line {n.line}: filled through nameref {alias} of {w[0]}")
                            if w[k] in self.text:
                                ch |= self.mark(alias, f"line {n.line}: nameref {alias} of {w[0]} bound to {w[k]}")
                        elif k < len(w):
                            ch |= self.mark(alias, f"line {n.line}: nameref bound to a computed name")
                if w[0] == "_get_comp_words_by_ref":
                    for v in w[1:]:
                        if re.match(r"^[a-z_]\w*$", v):
                            self.assigned.add(v)
                    continue
                for a in B.assignments(n):
                    if a[2] == "decl":
                        self.assigned.add(a[0])
                        continue
                    ch |= self._assign(a[0], a[1], a[3], n.line)
            elif n.kind == "for":
                self.assigned.add(n.var)
                if any(self.is_text_value(x) for x in n.words):
                    ch |= self.mark(n.var, f"line {n.line}: loop over {' '.join(n.words)[:40]}")
            elif n.kind == "forarith":
                m = re.match(r"^\s*(\w+)\s*=", n.parts[0] if n.parts else "")
                if m:
                    self.assigned.add(m.group(1))
        return ch

    def read_source_is_text(self, read_node):
        """the pipeline / redirection that feeds this `read`"""
        for n, *_ in self.walk_all():
            if n.kind == "pipeline":
                for i, c in enumerate(n.cmds):
                    if i > 0 and any(x is read_node for x, *_ in B.walk(c)):
                        prod = n.cmds[i - 1]
                        return self.node_is_text_producer(prod)
        return True

    def node_is_text_producer(self, node):
        for n, *_ in B.walk(node):
            if n.kind == "simple" and n.words:
                w0 = n.words[0]
                if w0 in CLEAN_PRODUCERS:
                    continue
                if w0 in ("printf", "echo"):
                    if any(self.is_text_value(x) for x in n.words[1:]):
                        return True
                    continue
                if w0 in ("sort", "cut", "do", "done"):
                    continue
                return True
        return False

    def _fix(self):
        # first learn which names are assigned anywhere (a name never assigned is unknown = text), then propagate
        self.collecting = True
        self._pass()
        self.collecting = False
        for _ in range(50):
            if not self._pass():
                return
        raise RuntimeError("shdims: no fixpoint")
