"""Re-identification of renamed functions (engine S, applied before any rule runs).

Every rule names the functions it reasons about (tables/*.toml, the rule layer).  A private function that is merely RENAMED keeps its
meaning, so its rules must keep applying: tables/anchors.json records, for every non-test function of the reference tree, its
signature (parameter and return types) and a feature set (names of the functions / methods / macros it calls other than itself, the
enum-variant and associated paths it mentions, its string literals).  When a recorded function is missing from the current tree, the
unrecorded function of the same module (and the same impl type) that matches it best -- same signature, feature overlap above a
threshold and clearly ahead of the runner-up -- is taken to be the same function under a new name, and the syntax trees (and the MIR
facts, see vlib/mir.py) are read with the OLD name: definitions, call sites and method calls are renamed back.  Nothing is guessed
when the match is not clear: the function stays missing and its rules report `function not found`."""
import json
import os
import re

from . import ast as A

HERE = os.path.dirname(os.path.dirname(os.path.abspath(__file__)))
TABLE = os.path.join(HERE, "tables", "anchors.json")


def _ty(t):
    return "".join((t or "").split())


def features(fn):
    sig = "(" + ",".join(_ty(p.get("ty")) or p.get("name") or "?" for p in fn.params) + ")->" + _ty(fn.node.get("ret"))
    feats = set()
    for n in A.walk(fn.body):
        k = n["k"]
        if k == "MethodCall":
            feats.add("m:" + n["method"])
        elif k == "Call" and n["func"]["k"] == "Path":
            last = n["func"]["path"].split("::")[-1]
            if last != fn.name:
                feats.add("f:" + last)
        elif k == "Macro":
            feats.add("mac:" + n["name"].split("::")[-1])
        elif k in ("Path", "PPath", "PStruct", "PTupleStruct", "Struct") and "::" in (n.get("path") or ""):
            feats.add("p:" + "::".join(n["path"].split("::")[-2:]))
        elif k == "Lit" and n.get("lit") == "str" and 0 < len(n.get("v") or "") <= 60:
            feats.add("s:" + n["v"])
        elif k == "Field":
            feats.add("fld:" + str(n.get("member")))
    return sig, feats


def snapshot(repo):
    out = {}
    for q, f in repo.fns.items():
        if "@" in q:
            continue
        sig, feats = features(f)
        out[q] = {"module": f.module, "self_ty": f.self_ty or "", "trait": f.trait or "", "name": f.name, "sig": sig, "feats": sorted(feats)}
    return out


def snapshot_types(repo):
    """struct name -> module + field signature (names and types with the struct's own name blanked), for private-type renames"""
    out = {}
    for q, s in repo.structs.items():
        nm = s["name"]
        sig = [(f.get("name") or "", re.sub(r"\b%s\b" % re.escape(nm), "Self", _ty(f.get("ty")))) for f in s.get("fields", [])]
        out[q] = {"module": s["_module"], "name": nm, "fields": sig}
    return out


def compute_type_renames(repo, types):
    """a recorded struct that is missing = the unrecorded struct of the same module with the same field names and types"""
    cur = snapshot_types(repo)
    known = {t["name"] for t in types.values()}
    out = {}
    for strict in (True, False):
        for q, t in types.items():
            if q in cur or t["name"] in out.values() or not t["fields"]:
                continue
            # field types are compared with the renames found so far mapped back (a renamed type may mention another renamed type);
            # second pass: field names alone, when that still singles out one struct
            def sig(x):
                fs = []
                for f in x["fields"]:
                    ty = f[1]
                    for new, old in out.items():
                        ty = re.sub(r"\b%s\b" % re.escape(new), old, ty)
                    fs.append((f[0], ty) if strict else (f[0],))
                return fs
            want = [(f[0], f[1]) if strict else (f[0],) for f in t["fields"]]
            c = [x for k, x in cur.items() if k not in types and x["module"] == t["module"] and x["name"] not in known and x["name"] not in out and sig(x) == want]
            if len(c) == 1:
                out[c[0]["name"]] = t["name"]
    return out


def apply_type_renames(data, renames):
    if not renames:
        return
    rx = re.compile(r"(?<![A-Za-z0-9_])(" + "|".join(sorted(map(re.escape, renames), key=len, reverse=True)) + r")(?![A-Za-z0-9_])")
    sub = lambda s: rx.sub(lambda m: renames[m.group(1)], s)
    stack = [data]
    while stack:
        x = stack.pop()
        if isinstance(x, dict):
            for key in ("ty", "self_ty", "ret", "path", "trait", "generics"):
                if isinstance(x.get(key), str) and x[key]:
                    x[key] = sub(x[key])
            if x.get("k") in ("StructDef", "EnumDef", "TypeAlias") and x.get("name") in renames:
                x["name"] = renames[x["name"]]
            stack.extend(v for v in x.values() if isinstance(v, (dict, list)))
        elif isinstance(x, list):
            stack.extend(v for v in x if isinstance(v, (dict, list)))


def compute_renames(repo, table=None):
    """-> {new simple name: old simple name}, [(old qname, new qname, score)]"""
    if table is None:
        if not os.path.exists(TABLE):
            return {}, []
        table = json.load(open(TABLE))
    table = {k: v for k, v in table.items() if not k.startswith("__")}
    cur = {q: f for q, f in repo.fns.items() if "@" not in q}
    missing = [q for q in table if q not in cur]
    fresh = [q for q in cur if q not in table]
    if not missing:
        return {}, []
    # functions whose name is recorded but whose signature is not the recorded one are candidates too (see below)
    fresh += [q for q in cur if q in table and features(cur[q])[0] != table[q]["sig"]]
    if not fresh:
        return {}, []
    known_names = {r["name"] for r in table.values()}
    cur_names = {f.name for f in cur.values()}
    cf = {q: features(cur[q]) for q in fresh}
    renames, log = {}, []
    for _round in range(2):
        # names already mapped make the callers' features comparable again
        def canon(feats):
            return {("f:" + renames.get(x[2:], x[2:])) if x.startswith("f:") else (("m:" + renames.get(x[2:], x[2:])) if x.startswith("m:") else x) for x in feats}

        taken = {n for _, n, _ in log}
        for q in missing:
            if any(o == q for o, _, _ in log):
                continue
            r = table[q]
            if r["name"] in cur_names and r["trait"] == "":
                # the old name still exists somewhere (moved between impls / modules): not a rename
                pass
            want = set(r["feats"])
            scored = []
            for c in fresh:
                f = cur[c]
                if c in taken or f.module != r["module"] or (f.self_ty or "") != r["self_ty"] or (f.trait or "") != r["trait"]:
                    continue
                if f.name in known_names:
                    # an existing name of the reference tree is reinterpreted only when the function that bears it now is clearly not
                    # the recorded one (a wrapper was deleted and its worker took over the name)
                    own = table.get(c)
                    if own is None:
                        continue
                    osig, ofe = cf.get(c) or features(f)
                    ow = set(own["feats"])
                    oj = len(ow & ofe) / len(ow | ofe) if (ow | ofe) else 1.0
                    if osig == own["sig"] or oj >= 0.5:
                        continue
                sig, feats = cf[c]
                feats = canon(feats)
                union = want | feats
                j = len(want & feats) / len(union) if union else 1.0
                score = j + (0.25 if sig == r["sig"] else 0.0)
                scored.append((score, c, j, sig == r["sig"]))
            scored.sort(reverse=True)
            if not scored:
                continue
            best = scored[0]
            second = scored[1][0] if len(scored) > 1 else 0.0
            small = len(want) < 4
            ok = (best[3] and best[2] >= (0.8 if small else 0.6) and best[0] - second >= 0.1) or (not best[3] and best[2] >= 0.85 and best[0] - second >= 0.15)
            if ok:
                newname = cur[best[1]].name
                if newname in renames and renames[newname] != r["name"]:
                    continue
                renames[newname] = r["name"]
                log.append((q, best[1], round(best[0], 2)))
    return renames, log


def apply_to_ast(data, renames):
    """rename definitions, calls, method calls and function-valued paths back to the reference names (in place)"""
    if not renames:
        return
    stack = [data]
    while stack:
        x = stack.pop()
        if isinstance(x, dict):
            k = x.get("k")
            if k == "Fn" and x.get("name") in renames:
                x["name"] = renames[x["name"]]
            elif k == "MethodCall" and x.get("method") in renames:
                x["method"] = renames[x["method"]]
            elif k == "Path" and isinstance(x.get("path"), str):
                segs = x["path"].split("::")
                if segs[-1] in renames:
                    segs[-1] = renames[segs[-1]]
                    x["path"] = "::".join(segs)
            stack.extend(v for v in x.values() if isinstance(v, (dict, list)))
        elif isinstance(x, list):
            stack.extend(v for v in x if isinstance(v, (dict, list)))


def rename_in_path(p, renames, _cache={}):
    """MIR item paths and callee strings: `module::new_name` / `Type::new_name` / `new_name::{closure#0}` -> old names"""
    if not renames or not p:
        return p
    key = id(renames)
    if key not in _cache:
        _cache[key] = re.compile(r"(?<![A-Za-z0-9_])(" + "|".join(sorted(map(re.escape, renames), key=len, reverse=True)) + r")(?![A-Za-z0-9_])")
    return _cache[key].sub(lambda m: renames[m.group(1)], p)


# ---- desugaring: `it.for_each(|p| body);` and `it.try_for_each(|p| body)?;` read as `for p in it { body }` ----------------------
def _has_return(n):
    for x in A.walk(n):
        if x["k"] == "Return":
            return True
    return False


def _as_block(e):
    if e["k"] == "Block":
        return e
    return {"k": "Block", "l": e["l"], "c": e["c"], "el": e["el"], "ec": e["ec"], "stmts": [{"k": "ExprStmt", "expr": e, "semi": True, "l": e["l"], "c": e["c"], "el": e["el"], "ec": e["ec"]}]}


def _retarget_returns(body, try_form):
    """inside the closure body (not inside nested closures): `return` (for_each) / `return Ok(..)` (try_for_each) ends this element
    only = `continue`; a `return Err(..)` of a try_for_each closure leaves the function through the `?`, as a `return` in the loop does"""
    ok = True
    stack = [body]
    while stack:
        x = stack.pop()
        if isinstance(x, dict):
            if x.get("k") == "Closure":
                continue
            if x.get("k") == "Return":
                e = x.get("expr")
                is_ok = e is not None and e.get("k") == "Call" and e["func"].get("k") == "Path" and e["func"]["path"].split("::")[-1] == "Ok"
                if not try_form or is_ok:
                    pos = {k: x[k] for k in ("l", "c", "el", "ec")}
                    x.clear()
                    x.update({"k": "Continue", "label": None, **pos})
                    continue
            stack.extend(v for v in x.values() if isinstance(v, (dict, list)))
        elif isinstance(x, list):
            stack.extend(v for v in x if isinstance(v, (dict, list)))
    return ok


def _loop_of(e, tr):
    clo = e["args"][0]
    body = clo["body"]
    _retarget_returns(body, bool(tr))
    if tr:
        inner = {"k": "Try", "expr": body, "l": body["l"], "c": body["c"], "el": body["el"], "ec": body["ec"]}
        blk = {"k": "Block", "l": body["l"], "c": body["c"], "el": body["el"], "ec": body["ec"],
               "stmts": [{"k": "ExprStmt", "expr": inner, "semi": True, "l": body["l"], "c": body["c"], "el": body["el"], "ec": body["ec"]}]}
    else:
        blk = _as_block(body)
        if blk["stmts"] and blk["stmts"][-1].get("k") == "ExprStmt":
            blk["stmts"][-1]["semi"] = True
    return {"k": "ForLoop", "pat": clo["params"][0], "iter": e["recv"], "body": blk, "label": None, "l": e["l"], "c": e["c"], "el": e["el"], "ec": e["ec"]}


def _is_each(e, name):
    return isinstance(e, dict) and e.get("k") == "MethodCall" and e.get("method") == name and len(e.get("args", [])) == 1 and e["args"][0].get("k") == "Closure" and len(e["args"][0].get("params", [])) == 1


def desugar_loops(data):
    """In place: a statement `recv.for_each(|pat| body);` becomes `for pat in recv { body; }`; `recv.try_for_each(|pat| body)?;`
    becomes `for pat in recv { (body)?; }` (the first error leaves the function, as the `?` on try_for_each does); a block whose
    value is `recv.try_for_each(|pat| body)` becomes that loop followed by `Ok(())`.  A `return` inside the closure ends one
    element (`continue`).  The rules then see one idiom for `do this for every element`."""
    n = 0
    stack = [data]
    while stack:
        x = stack.pop()
        if isinstance(x, dict):
            if x.get("k") == "Block" and x.get("stmts"):
                last = x["stmts"][-1]
                if last.get("k") == "ExprStmt" and not last.get("semi") and _is_each(last.get("expr"), "try_for_each"):
                    e = last["expr"]
                    pos = {k: e[k] for k in ("l", "c", "el", "ec")}
                    loop = _loop_of(e, True)
                    x["stmts"][-1] = {"k": "ExprStmt", "expr": loop, "semi": True, **pos}
                    okv = {"k": "Call", "func": {"k": "Path", "path": "Ok", **pos}, "args": [{"k": "Tuple", "elems": [], **pos}], **pos}
                    x["stmts"].append({"k": "ExprStmt", "expr": okv, "semi": False, **pos})
                    n += 1
            if x.get("k") == "ExprStmt" and isinstance(x.get("expr"), dict):
                e = x["expr"]
                tr = None
                if e.get("k") == "Try" and isinstance(e.get("expr"), dict):
                    tr, e = e, e["expr"]
                if _is_each(e, "try_for_each" if tr else "for_each") and (tr or x.get("semi") or True):
                    x["expr"] = _loop_of(e, tr)
                    x["semi"] = True
                    n += 1
            stack.extend(v for v in x.values() if isinstance(v, (dict, list)))
        elif isinstance(x, list):
            stack.extend(v for v in x if isinstance(v, (dict, list)))
    return n


# ---- local closures: `let f = |a, b| body; .. f(x, y) ..` read as `{ let a = x; let b = y; body }` at each call ---------------------
def _clone(x):
    return json.loads(json.dumps(x))


def inline_local_closures(data):
    """In place, per function body: a closure bound by an immutable `let name = |..| body;` (no `return` inside, every parameter a plain
    pattern) and CALLED by that name is expanded at each call site into a block that binds the parameters to the arguments and
    evaluates a copy of the body.  A named sub-step (`let report_at = |label, span| {..}`) then reads like the code written in place;
    the `let` itself stays (it is harmless).  Closures that are passed around as values are left alone."""
    n = 0

    def process_fn(body):
        nonlocal n
        closures = {}
        for x in A.walk(body):
            if x.get("k") == "Local" and x.get("init") is not None and x["init"].get("k") == "Closure":
                pat = x["pat"]
                while pat.get("k") == "PType":
                    pat = pat["pat"]
                if pat.get("k") == "PIdent" and not pat.get("mut") and not _has_return(x["init"]["body"]):
                    closures[pat["name"]] = x["init"]
        if not closures:
            return
        # names bound more than once (shadowing) are left alone
        counts = {}
        for x in A.walk(body):
            if x.get("k") == "PIdent":
                counts[x["name"]] = counts.get(x["name"], 0) + 1
        closures = {k: v for k, v in closures.items() if counts.get(k, 0) == 1}
        stack = [body]
        while stack:
            x = stack.pop()
            if isinstance(x, dict):
                if x.get("k") == "Call" and x["func"].get("k") == "Path" and x["func"]["path"] in closures and len(x["args"]) == len(closures[x["func"]["path"]]["params"]):
                    clo = closures[x["func"]["path"]]
                    pos = {k: x[k] for k in ("l", "c", "el", "ec")}
                    stmts = []
                    for p, a in zip(clo["params"], x["args"]):
                        stmts.append({"k": "Local", "pat": _clone(p), "init": a, "else": None, **pos})
                    b = _clone(clo["body"])
                    stmts.append({"k": "ExprStmt", "expr": b, "semi": False, **pos})
                    args = x["args"]
                    x.clear()
                    x.update({"k": "Block", "stmts": stmts, **pos})
                    n += 1
                    stack.extend(args)
                    continue
                stack.extend(v for v in x.values() if isinstance(v, (dict, list)))
            elif isinstance(x, list):
                stack.extend(v for v in x if isinstance(v, (dict, list)))

    stack = [data]
    while stack:
        x = stack.pop()
        if isinstance(x, dict):
            if x.get("k") == "Fn" and isinstance(x.get("body"), dict):
                process_fn(x["body"])
            stack.extend(v for v in x.values() if isinstance(v, (dict, list)))
        elif isinstance(x, list):
            stack.extend(v for v in x if isinstance(v, (dict, list)))
    return n


# ---- type aliases introduced since the reference tree are read as what they stand for ----------------------------------------------
def expand_new_aliases(data, known_aliases):
    """`type FollowPos = BTreeMap<Position, RoaringBitmap>;` added by a refactoring: every `ty` / `ret` / `self_ty` string that mentions a
    NEW alias (one the reference tree does not have) is rewritten to the aliased type, so that rules that look at declared types see
    what they saw before.  Aliases of the reference tree (StateId, LiteralId, ... carry meaning of their own) are left alone.
    Generic aliases with type parameters are expanded by textual substitution of the parameters."""
    aliases = {}
    stack = [data]
    while stack:
        x = stack.pop()
        if isinstance(x, dict):
            if x.get("k") == "TypeAlias" and x.get("name") not in known_aliases:
                params = [g.strip() for g in (x.get("generics") or "").strip().strip("<>").split(",") if g.strip() and not g.strip().startswith("'")]
                aliases[x["name"]] = (params, " ".join((x.get("ty") or "").split()))
            stack.extend(v for v in x.values() if isinstance(v, (dict, list)))
        elif isinstance(x, list):
            stack.extend(v for v in x if isinstance(v, (dict, list)))
    if not aliases:
        return 0

    def expand(t):
        for _ in range(4):
            changed = False
            for name, (params, target) in aliases.items():
                if not re.search(r"(?<![A-Za-z0-9_])%s(?![A-Za-z0-9_])" % re.escape(name), t):
                    continue
                if not params:
                    t2 = re.sub(r"(?<![A-Za-z0-9_:])%s(?![A-Za-z0-9_])(?!\s*<)" % re.escape(name), target, t)
                else:
                    def rep(m):
                        args = [a.strip() for a in _split_generic(m.group(1))]
                        out = target
                        for pn, av in zip(params, args):
                            out = re.sub(r"(?<![A-Za-z0-9_])%s(?![A-Za-z0-9_])" % re.escape(pn), av, out)
                        return out
                    t2 = re.sub(r"(?<![A-Za-z0-9_:])%s\s*<((?:[^<>]|<[^<>]*>)*)>" % re.escape(name), rep, t)
                if t2 != t:
                    t, changed = t2, True
            if not changed:
                break
        return t

    n = 0
    stack = [data]
    while stack:
        x = stack.pop()
        if isinstance(x, dict):
            if x.get("k") != "TypeAlias":
                for key in ("ty", "ret", "self_ty"):
                    if isinstance(x.get(key), str) and x[key]:
                        t2 = expand(x[key])
                        if t2 != x[key]:
                            x[key] = t2
                            n += 1
            stack.extend(v for v in x.values() if isinstance(v, (dict, list)))
        elif isinstance(x, list):
            stack.extend(v for v in x if isinstance(v, (dict, list)))
    return n


def _split_generic(s):
    parts, d, cur = [], 0, ""
    for ch in s:
        if ch == "<":
            d += 1
        elif ch == ">":
            d -= 1
        if ch == "," and d == 0:
            parts.append(cur)
            cur = ""
        else:
            cur += ch
    if cur.strip():
        parts.append(cur)
    return parts


# ---- `Self` in value / pattern position is spelled as the type it stands for -----------------------------------------------------------
def expand_self(data):
    """Inside `impl T { .. }` (and `impl Trait for T`), `Self { .. }`, `Self::Variant`, `Self(..)` in expressions and patterns are
    rewritten to `T { .. }`, `T::Variant`, `T(..)`: one spelling for the rules, whichever the source uses."""
    n = 0

    def rewrite(node, name):
        nonlocal n
        stack = [node]
        while stack:
            x = stack.pop()
            if isinstance(x, dict):
                if x.get("k") in ("Struct", "Path", "PPath", "PStruct", "PTupleStruct") and isinstance(x.get("path"), str):
                    p = x["path"]
                    if p == "Self" or p.startswith("Self::"):
                        x["path"] = name + p[4:]
                        n += 1
                stack.extend(v for v in x.values() if isinstance(v, (dict, list)))
            elif isinstance(x, list):
                stack.extend(v for v in x if isinstance(v, (dict, list)))

    stack = [data]
    while stack:
        x = stack.pop()
        if isinstance(x, dict):
            if x.get("k") == "Impl" and isinstance(x.get("self_ty"), str):
                base = re.sub(r"<.*", "", "".join(x["self_ty"].split())).split("::")[-1]
                if re.fullmatch(r"[A-Za-z_]\w*", base or ""):
                    for it in x.get("items", []):
                        if it.get("k") == "Fn" and isinstance(it.get("body"), dict):
                            rewrite(it["body"], base)
                continue
            stack.extend(v for v in x.values() if isinstance(v, (dict, list)))
        elif isinstance(x, list):
            stack.extend(v for v in x if isinstance(v, (dict, list)))
    return n


# ---- helpers extracted since the reference tree are read in place ----------------------------------------------------------------------
def inline_new_helpers(data, known_fns):
    """A private free function that the reference tree does not have, that is called from exactly one place in the crate, is not
    recursive and has no `return` inside, is a piece of its caller that was given a name (`extract function`).  Its call is replaced
    by a block that binds the parameters to the arguments (all at once) and holds the helper's body; for a helper returning
    `Result`, called as `h(..)?`, whose body ends in `Ok(v)`, the `?` on the call is dropped and the block's value is `v` (the inner
    `?`s keep propagating, now from the caller).  The helper's own item is dropped from the trees the rules read.  Returns the list
    of inlined function names (engine M still has them as functions: see cross_check_sm)."""
    fns = {}     # simple name -> list of (file, items list, index, node)
    for path, content in data.items():
        if path.endswith("build.rs"):
            continue
        for i, it in enumerate(content.get("items", [])):
            if it.get("k") == "Fn" and not it.get("cfg_test"):
                fns.setdefault(it["name"], []).append((path, content["items"], it))
    module = lambda path: os.path.splitext(os.path.basename(path))[0]
    cands = {}
    for name, lst in fns.items():
        if len(lst) != 1:
            continue
        path, items, node = lst[0]
        if f"{module(path)}::{name}" in known_fns or (node.get("vis") or "").startswith("pub") and "crate" not in (node.get("vis") or ""):
            continue
        if node.get("generics") and "<" in node["generics"] and "'" not in node["generics"]:
            continue  # generic helpers (bounds on closures etc.) are left alone
        if _has_return(node["body"]) or any(p.get("name") in (None, "self") or (p.get("pat") or {}).get("k") not in ("PIdent",) for p in node["params"]):
            continue
        cands[name] = (path, items, node)
    if not cands:
        return []
    # call sites, with parents
    sites = {n: [] for n in cands}
    stack = [(data, None, None)]
    while stack:
        x, par, key = stack.pop()
        if isinstance(x, dict):
            if x.get("k") == "Call" and x["func"].get("k") == "Path":
                nm = x["func"]["path"].split("::")[-1]
                if nm in sites and x["func"]["path"] in (nm, "self::" + nm, "crate::" + nm, "Self::" + nm):
                    sites[nm].append((x, par))
            elif x.get("k") == "Path" and isinstance(x.get("path"), str) and x["path"].split("::")[-1] in sites and not (par is not None and par.get("k") == "Call" and par.get("func") is x):
                sites[x["path"].split("::")[-1]].append((None, par))  # used as a value (`.map(helper)`): not inlinable
            for k2, v in x.items():
                if isinstance(v, (dict, list)):
                    stack.append((v, x, k2))
        elif isinstance(x, list):
            for v in x:
                if isinstance(v, (dict, list)):
                    stack.append((v, par, key))
    done = []
    for name, (path, items, node) in cands.items():
        ss = sites[name]
        if len(ss) != 1 or ss[0][0] is None:
            continue
        call, parent = ss[0]
        # not recursive: the single call is outside the helper
        inside = any(y is call for y in A.walk(node["body"]))
        if inside or len(call["args"]) != len(node["params"]):
            continue
        pos = {k: call[k] for k in ("l", "c", "el", "ec")}
        pats = [{"k": "PIdent", "name": p["name"], "mut": bool((p.get("pat") or {}).get("mut")), "by_ref": False, "sub": None, **pos} for p in node["params"]]
        body = node["body"]
        stmts = []
        if pats:
            stmts.append({"k": "Local", "pat": {"k": "PTuple", "elems": pats, **pos}, "init": {"k": "Tuple", "elems": list(call["args"]), **pos}, "else": None, **pos})
        stmts.append({"k": "ExprStmt", "expr": body, "semi": False, **pos})
        target = call
        if parent is not None and parent.get("k") == "Try" and parent.get("expr") is call and body.get("k") == "Block" and body.get("stmts"):
            tail = body["stmts"][-1]
            te = tail.get("expr") if tail.get("k") == "ExprStmt" and not tail.get("semi") else None
            if te is not None and te.get("k") == "Call" and te["func"].get("k") == "Path" and te["func"]["path"] == "Ok" and len(te["args"]) == 1:
                tail["expr"] = te["args"][0]
                target = parent
        target.clear()
        target.update({"k": "Block", "stmts": stmts, **pos})
        items.remove(node)
        done.append(name)
    return done
