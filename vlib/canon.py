"""Re-identification of renamed functions (engine S, applied before any rule runs).

Every rule names the functions it reasons about (tables/*.toml, the rule layer).  A private function that is merely RENAMED keeps its
meaning, so its rules must keep applying: tables/anchors.json records, for every non-test function of the reference tree, its
signature (parameter and return types) and a feature set (names of the functions / methods / macros it calls other than itself, the
enum-variant and associated paths it mentions, its string literals).  When a recorded function is missing from the current tree, the
unrecorded function of the same module (and the same impl type) that matches it best -- same signature, feature overlap above a
threshold and clearly ahead of the runner-up -- is taken to be the same function under a new name, and the syntax trees (and the MIR
facts, see vlib/mir.py) are read with the OLD name: definitions, call sites and method calls are renamed back.  Nothing is guessed
when the match is not clear: the function stays missing and its rules report `function not found`."""
import json
import os
import re

from . import ast as A

HERE = os.path.dirname(os.path.dirname(os.path.abspath(__file__)))
TABLE = os.path.join(HERE, "tables", "anchors.json")


def _ty(t):
    return "".join((t or "").split())


def features(fn):
    sig = "(" + ",".join(_ty(p.get("ty")) or p.get("name") or "?" for p in fn.params) + ")->" + _ty(fn.node.get("ret"))
    feats = set()
    for n in A.walk(fn.body):
        k = n["k"]
        if k == "MethodCall":
            feats.add("m:" + n["method"])
        elif k == "Call" and n["func"]["k"] == "Path":
            last = n["func"]["path"].split("::")[-1]
            if last != fn.name:
                feats.add("f:" + last)
        elif k == "Macro":
            feats.add("mac:" + n["name"].split("::")[-1])
        elif k in ("Path", "PPath", "PStruct", "PTupleStruct", "Struct") and "::" in (n.get("path") or ""):
            feats.add("p:" + "::".join(n["path"].split("::")[-2:]))
        elif k == "Lit" and n.get("lit") == "str" and 0 < len(n.get("v") or "") <= 60:
            feats.add("s:" + n["v"])
        elif k == "Field":
            feats.add("fld:" + str(n.get("member")))
    return sig, feats


def snapshot(repo):
    out = {}
    for q, f in repo.fns.items():
        if "@" in q:
            continue
        sig, feats = features(f)
        out[q] = {"module": f.module, "self_ty": f.self_ty or "", "trait": f.trait or "", "name": f.name, "sig": sig, "feats": sorted(feats)}
    return out


def snapshot_types(repo):
    """struct name -> module + field signature (names and types with the struct's own name blanked), for private-type renames"""
    out = {}
    for q, s in repo.structs.items():
        nm = s["name"]
        sig = [(f.get("name") or "", re.sub(r"\b%s\b" % re.escape(nm), "Self", _ty(f.get("ty")))) for f in s.get("fields", [])]
        out[q] = {"module": s["_module"], "name": nm, "fields": sig}
    return out


def compute_type_renames(repo, types):
    """a recorded struct that is missing = the unrecorded struct of the same module with the same field names and types"""
    cur = snapshot_types(repo)
    known = {t["name"] for t in types.values()}
    out = {}
    for strict in (True, False):
        for q, t in types.items():
            if q in cur or t["name"] in out.values() or not t["fields"]:
                continue
            # field types are compared with the renames found so far mapped back (a renamed type may mention another renamed type);
            # second pass: field names alone, when that still singles out one struct
            def sig(x):
                fs = []
                for f in x["fields"]:
                    ty = f[1]
                    for new, old in out.items():
                        ty = re.sub(r"\b%s\b" % re.escape(new), old, ty)
                    fs.append((f[0], ty) if strict else (f[0],))
                return fs
            want = [(f[0], f[1]) if strict else (f[0],) for f in t["fields"]]
            c = [x for k, x in cur.items() if k not in types and x["module"] == t["module"] and x["name"] not in known and x["name"] not in out and sig(x) == want]
            if len(c) == 1:
                out[c[0]["name"]] = t["name"]
    return out


def apply_type_renames(data, renames):
    if not renames:
        return
    rx = re.compile(r"(?<![A-Za-z0-9_])(" + "|".join(sorted(map(re.escape, renames), key=len, reverse=True)) + r")(?![A-Za-z0-9_])")
    sub = lambda s: rx.sub(lambda m: renames[m.group(1)], s)
    stack = [data]
    while stack:
        x = stack.pop()
        if isinstance(x, dict):
            for key in ("ty", "self_ty", "ret", "path", "trait", "generics"):
                if isinstance(x.get(key), str) and x[key]:
                    x[key] = sub(x[key])
            if x.get("k") in ("StructDef", "EnumDef", "TypeAlias") and x.get("name") in renames:
                x["name"] = renames[x["name"]]
            stack.extend(v for v in x.values() if isinstance(v, (dict, list)))
        elif isinstance(x, list):
            stack.extend(v for v in x if isinstance(v, (dict, list)))


def compute_renames(repo, table=None):
    """-> {new simple name: old simple name}, [(old qname, new qname, score)]"""
    if table is None:
        if not os.path.exists(TABLE):
            return {}, []
        table = json.load(open(TABLE))
    table = {k: v for k, v in table.items() if not k.startswith("__")}
    cur = {q: f for q, f in repo.fns.items() if "@" not in q}
    missing = [q for q in table if q not in cur]
    fresh = [q for q in cur if q not in table]
    if not missing:
        return {}, []
    # functions whose name is recorded but whose signature is not the recorded one are candidates too (see below)
    fresh += [q for q in cur if q in table and features(cur[q])[0] != table[q]["sig"]]
    if not fresh:
        return {}, []
    known_names = {r["name"] for r in table.values()}
    cur_names = {f.name for f in cur.values()}
    cf = {q: features(cur[q]) for q in fresh}
    renames, log = {}, []
    for _round in range(2):
        # names already mapped make the callers' features comparable again
        def canon(feats):
            return {("f:" + renames.get(x[2:], x[2:])) if x.startswith("f:") else (("m:" + renames.get(x[2:], x[2:])) if x.startswith("m:") else x) for x in feats}

        taken = {n for _, n, _ in log}
        for q in missing:
            if any(o == q for o, _, _ in log):
                continue
            r = table[q]
            if r["name"] in cur_names and r["trait"] == "":
                # the old name still exists somewhere (moved between impls / modules): not a rename
                pass
            want = set(r["feats"])
            scored = []
            for c in fresh:
                f = cur[c]
                if c in taken or f.module != r["module"] or (f.self_ty or "") != r["self_ty"] or (f.trait or "") != r["trait"]:
                    continue
                if f.name in known_names:
                    # an existing name of the reference tree is reinterpreted only when the function that bears it now is clearly not
                    # the recorded one (a wrapper was deleted and its worker took over the name)
                    own = table.get(c)
                    if own is None:
                        continue
                    osig, ofe = cf.get(c) or features(f)
                    ow = set(own["feats"])
                    oj = len(ow & ofe) / len(ow | ofe) if (ow | ofe) else 1.0
                    if osig == own["sig"] or oj >= 0.5:
                        continue
                sig, feats = cf[c]
                feats = canon(feats)
                union = want | feats
                j = len(want & feats) / len(union) if union else 1.0
                score = j + (0.25 if sig == r["sig"] else 0.0)
                scored.append((score, c, j, sig == r["sig"]))
            scored.sort(reverse=True)
            if not scored:
                continue
            best = scored[0]
            second = scored[1][0] if len(scored) > 1 else 0.0
            small = len(want) < 4
            ok = (best[3] and best[2] >= (0.8 if small else 0.6) and best[0] - second >= 0.1) or (not best[3] and best[2] >= 0.85 and best[0] - second >= 0.15)
            if ok:
                newname = cur[best[1]].name
                if newname in renames and renames[newname] != r["name"]:
                    continue
                renames[newname] = r["name"]
                log.append((q, best[1], round(best[0], 2)))
    return renames, log


def apply_to_ast(data, renames):
    """rename definitions, calls, method calls and function-valued paths back to the reference names (in place)"""
    if not renames:
        return
    stack = [data]
    while stack:
        x = stack.pop()
        if isinstance(x, dict):
            k = x.get("k")
            if k == "Fn" and x.get("name") in renames:
                x["name"] = renames[x["name"]]
            elif k == "MethodCall" and x.get("method") in renames:
                x["method"] = renames[x["method"]]
            elif k == "Path" and isinstance(x.get("path"), str):
                segs = x["path"].split("::")
                if segs[-1] in renames:
                    segs[-1] = renames[segs[-1]]
                    x["path"] = "::".join(segs)
            stack.extend(v for v in x.values() if isinstance(v, (dict, list)))
        elif isinstance(x, list):
            stack.extend(v for v in x if isinstance(v, (dict, list)))


def rename_in_path(p, renames, _cache={}):
    """MIR item paths and callee strings: `module::new_name` / `Type::new_name` / `new_name::{closure#0}` -> old names"""
    if not renames or not p:
        return p
    key = id(renames)
    if key not in _cache:
        _cache[key] = re.compile(r"(?<![A-Za-z0-9_])(" + "|".join(sorted(map(re.escape, renames), key=len, reverse=True)) + r")(?![A-Za-z0-9_])")
    return _cache[key].sub(lambda m: renames[m.group(1)], p)


# ---- desugaring: `it.for_each(|p| body);` and `it.try_for_each(|p| body)?;` read as `for p in it { body }` ----------------------
def _has_return(n):
    for x in A.walk(n):
        if x["k"] == "Return":
            return True
    return False


def _as_block(e):
    if e["k"] == "Block":
        return e
    return {"k": "Block", "l": e["l"], "c": e["c"], "el": e["el"], "ec": e["ec"], "stmts": [{"k": "ExprStmt", "expr": e, "semi": True, "l": e["l"], "c": e["c"], "el": e["el"], "ec": e["ec"]}]}


def _as_vblock(e):
    """a block whose value is `e`"""
    if e["k"] == "Block":
        return e
    pos = {k: e[k] for k in ("l", "c", "el", "ec")}
    return {"k": "Block", "stmts": [{"k": "ExprStmt", "expr": e, "semi": False, **pos}], **pos}


def _retarget_returns(body, try_form):
    """inside the closure body (not inside nested closures): `return` (for_each) / `return Ok(..)` (try_for_each) ends this element
    only = `continue`; a `return Err(..)` of a try_for_each closure leaves the function through the `?`, as a `return` in the loop does"""
    ok = True
    stack = [body]
    while stack:
        x = stack.pop()
        if isinstance(x, dict):
            if x.get("k") == "Closure":
                continue
            if x.get("k") == "Return":
                e = x.get("expr")
                is_ok = e is not None and e.get("k") == "Call" and e["func"].get("k") == "Path" and e["func"]["path"].split("::")[-1] == "Ok"
                if not try_form or is_ok:
                    pos = {k: x[k] for k in ("l", "c", "el", "ec")}
                    x.clear()
                    x.update({"k": "Continue", "label": None, **pos})
                    continue
            stack.extend(v for v in x.values() if isinstance(v, (dict, list)))
        elif isinstance(x, list):
            stack.extend(v for v in x if isinstance(v, (dict, list)))
    return ok


def _loop_of(e, tr):
    clo = e["args"][0]
    body = clo["body"]
    _retarget_returns(body, bool(tr))
    if tr:
        inner = {"k": "Try", "expr": body, "l": body["l"], "c": body["c"], "el": body["el"], "ec": body["ec"]}
        blk = {"k": "Block", "l": body["l"], "c": body["c"], "el": body["el"], "ec": body["ec"],
               "stmts": [{"k": "ExprStmt", "expr": inner, "semi": True, "l": body["l"], "c": body["c"], "el": body["el"], "ec": body["ec"]}]}
    else:
        blk = _as_block(body)
        if blk["stmts"] and blk["stmts"][-1].get("k") == "ExprStmt":
            blk["stmts"][-1]["semi"] = True
    return {"k": "ForLoop", "pat": clo["params"][0], "iter": e["recv"], "body": blk, "label": None, "l": e["l"], "c": e["c"], "el": e["el"], "ec": e["ec"]}


def _is_each(e, name):
    return isinstance(e, dict) and e.get("k") == "MethodCall" and e.get("method") == name and len(e.get("args", [])) == 1 and e["args"][0].get("k") == "Closure" and len(e["args"][0].get("params", [])) == 1


def desugar_loops(data):
    """In place: a statement `recv.for_each(|pat| body);` becomes `for pat in recv { body; }`; `recv.try_for_each(|pat| body)?;`
    becomes `for pat in recv { (body)?; }` (the first error leaves the function, as the `?` on try_for_each does); a block whose
    value is `recv.try_for_each(|pat| body)` becomes that loop followed by `Ok(())`.  A `return` inside the closure ends one
    element (`continue`).  The rules then see one idiom for `do this for every element`."""
    n = 0
    stack = [data]
    while stack:
        x = stack.pop()
        if isinstance(x, dict):
            if x.get("k") == "Block" and x.get("stmts"):
                last = x["stmts"][-1]
                if last.get("k") == "ExprStmt" and not last.get("semi") and _is_each(last.get("expr"), "try_for_each"):
                    e = last["expr"]
                    pos = {k: e[k] for k in ("l", "c", "el", "ec")}
                    loop = _loop_of(e, True)
                    x["stmts"][-1] = {"k": "ExprStmt", "expr": loop, "semi": True, **pos}
                    okv = {"k": "Call", "func": {"k": "Path", "path": "Ok", **pos}, "args": [{"k": "Tuple", "elems": [], **pos}], **pos}
                    x["stmts"].append({"k": "ExprStmt", "expr": okv, "semi": False, **pos})
                    n += 1
            if x.get("k") == "ExprStmt" and isinstance(x.get("expr"), dict):
                e = x["expr"]
                tr = None
                if e.get("k") == "Try" and isinstance(e.get("expr"), dict):
                    tr, e = e, e["expr"]
                if _is_each(e, "try_for_each" if tr else "for_each") and (tr or x.get("semi") or True):
                    x["expr"] = _loop_of(e, tr)
                    x["semi"] = True
                    n += 1
            stack.extend(v for v in x.values() if isinstance(v, (dict, list)))
        elif isinstance(x, list):
            stack.extend(v for v in x if isinstance(v, (dict, list)))
    return n


def _pat_binds(p):
    out = []
    stack = [p]
    while stack:
        y = stack.pop()
        if isinstance(y, dict):
            if y.get("k") == "PIdent" and y.get("name") and y["name"][:1].islower():
                out.append(y)
            stack.extend(v for v in y.values() if isinstance(v, (dict, list)))
        elif isinstance(y, list):
            stack.extend(y)
    return out


def desugar_match_letelse(data):
    """In place: `let v = match E { P(b) => b, _ => <diverges> };` is `let P(v) = E else { <diverges> };` -- the two spellings of `take
    the payload or leave`.  Only when the kept arm's value is exactly one of its own bindings, it has no guard, and the other arm's
    pattern binds nothing (`_`, `None`, a unit variant, an or-pattern of those).  Returns the number rewritten."""
    n = 0
    for x in list(A.walk(data)) if isinstance(data, dict) and "k" in data else [y for c in data.values() for y in A.walk(c)]:
        if x.get("k") != "Local" or x.get("else") is not None or not isinstance(x.get("init"), dict) or x["init"].get("k") != "Match" or len(x["init"].get("arms", [])) != 2:
            continue
        pat = x["pat"]
        ty = None
        if pat.get("k") == "PType":
            continue
        if pat.get("k") != "PIdent" or pat.get("sub") is not None:
            continue
        arms = x["init"]["arms"]
        div = [a for a in arms if A.diverges(a["body"]) and a.get("guard") is None and not _pat_binds(a["pat"])]
        if len(div) != 1:
            continue
        keep = [a for a in arms if a is not div[0]][0]
        if keep.get("guard") is not None or A.diverges(keep["body"]):
            continue
        body = keep["body"]
        while body.get("k") == "Block" and len(body.get("stmts", [])) == 1 and body["stmts"][0].get("k") == "ExprStmt" and not body["stmts"][0].get("semi"):
            body = body["stmts"][0]["expr"]
        binds = _pat_binds(keep["pat"])
        if body.get("k") != "Path" or "::" in body["path"] or sum(1 for b in binds if b["name"] == body["path"]) != 1 or keep["pat"].get("k") == "POr":
            continue
        b = [b for b in binds if b["name"] == body["path"]][0]
        b["name"] = pat["name"]
        b["mut"] = bool(pat.get("mut")) or bool(b.get("mut"))
        # a shorthand field pattern `Struct { cmd, .. }` that now binds another name is `Struct { cmd: v, .. }`
        for y in A.walk(keep["pat"]):
            if y.get("k") == "PField" and y.get("pat") is b:
                y["shorthand"] = False
        x["pat"] = keep["pat"]
        x["else"] = _as_vblock(div[0]["body"])
        x["init"] = x["init"]["scrut"]
        n += 1
    return n


def _pos(e):
    return {k: e[k] for k in ("l", "c", "el", "ec")}


def _call_of(e, name):
    return e is not None and e.get("k") == "Call" and e["func"].get("k") == "Path" and e["func"]["path"].split("::")[-1] == name and len(e.get("args", [])) == 1


def _ret_err(err, at):
    pos = _pos(at)
    ret = {"k": "Return", "expr": {"k": "Call", "func": {"k": "Path", "path": "Err", **pos}, "args": [err], **pos}, **pos}
    return {"k": "Block", "label": None, "stmts": [{"k": "ExprStmt", "expr": ret, "semi": True, **pos}], **pos}


def _untail_result(e):
    """the value of a closure handed to `.and_then(..)` whose result is then tried with `?`, read in the caller: a tail `Ok(v)` is `v`,
    a tail `Err(x)` is `return Err(x)`, any other tail `t` is `t?`.  In place; returns the new expression."""
    k = e.get("k")
    if k == "Block":
        st = e.get("stmts") or []
        if st and st[-1].get("k") == "ExprStmt" and not st[-1].get("semi"):
            st[-1]["expr"] = _untail_result(st[-1]["expr"])
        return e
    if k == "If" and e.get("else") is not None:
        e["then"] = _untail_result(e["then"])
        e["else"] = _untail_result(e["else"])
        return e
    if k == "Match":
        for a in e.get("arms", []):
            a["body"] = _untail_result(a["body"])
        return e
    if _call_of(e, "Ok"):
        return e["args"][0]
    if _call_of(e, "Err"):
        return {"k": "Return", "expr": e, **_pos(e)}
    if A.diverges(e):
        return e
    return {"k": "Try", "expr": e, **_pos(e)}


def desugar_okor_try(data):
    """In place, on statements of a block:
      `let P = R.ok_or(E)?;` / `R.ok_or_else(|| E)?`          is  `let Some(P) = R else { return Err(E) };`
      `let P = R.ok_or(E).and_then(|Q| B)?;`                   is  `let Some(Q) = R else { return Err(E) }; let P = B';`
          (B' = B with its tail `Ok(v)` read as `v`, its tail `Err(x)` as `return Err(x)`; only when B has no `return` of its own)
      `let v = if let P(b) = R { b } else { <diverges> };`     is  `let P(v) = R else { <diverges> };`
    -- the spellings of `take the payload or leave with this error`.  Returns the number rewritten."""
    n = 0
    roots = [data] if isinstance(data, dict) and "k" in data else list(data.values())
    for root in roots:
        for blk in list(A.walk(root)):
            if blk.get("k") != "Block":
                continue
            out = []
            for st in blk.get("stmts", []):
                out.append(st)
                if st.get("k") != "Local" or st.get("else") is not None or not isinstance(st.get("init"), dict):
                    continue
                init = st["init"]
                # if-let form
                if init.get("k") == "If" and init.get("else") is not None and init["cond"].get("k") == "Let" and A.diverges(init["else"]) and st["pat"].get("k") == "PIdent" and st["pat"].get("sub") is None:
                    body = init["then"]
                    while body.get("k") == "Block" and len(body.get("stmts", [])) == 1 and body["stmts"][0].get("k") == "ExprStmt" and not body["stmts"][0].get("semi"):
                        body = body["stmts"][0]["expr"]
                    pat = init["cond"]["pat"]
                    binds = _pat_binds(pat)
                    if body.get("k") == "Path" and "::" not in body["path"] and sum(1 for b in binds if b["name"] == body["path"]) == 1 and pat.get("k") != "POr":
                        b = [b for b in binds if b["name"] == body["path"]][0]
                        b["name"] = st["pat"]["name"]
                        b["mut"] = bool(st["pat"].get("mut")) or bool(b.get("mut"))
                        for y in A.walk(pat):
                            if y.get("k") == "PField" and y.get("pat") is b:
                                y["shorthand"] = False
                        st["pat"] = pat
                        st["else"] = _as_vblock(init["else"])
                        st["init"] = init["cond"]["expr"]
                        n += 1
                    continue
                if init.get("k") != "Try":
                    continue
                e = init["expr"]
                then = None
                if e.get("k") == "MethodCall" and e.get("method") == "and_then" and len(e.get("args", [])) == 1 and e["args"][0].get("k") == "Closure" and len(e["args"][0].get("params", [])) == 1 and not _has_return(e["args"][0]["body"]):
                    then = e["args"][0]
                    e = e["recv"]
                if e.get("k") != "MethodCall" or e.get("method") not in ("ok_or", "ok_or_else") or len(e.get("args", [])) != 1:
                    continue
                err = e["args"][0]
                if e["method"] == "ok_or_else":
                    if err.get("k") != "Closure" or err.get("params"):
                        continue
                    err = err["body"]
                pos = _pos(e)
                if then is None:
                    st["pat"] = {"k": "PTupleStruct", "path": "Some", "elems": [st["pat"]], **_pos(st["pat"])}
                    st["init"] = e["recv"]
                    st["else"] = _ret_err(err, e)
                else:
                    first = {"k": "Local", "pat": {"k": "PTupleStruct", "path": "Some", "elems": [then["params"][0]], **pos}, "init": e["recv"], "else": _ret_err(err, e), **_pos(st)}
                    out.insert(len(out) - 1, first)
                    st["init"] = _untail_result(then["body"])
                n += 1
            blk["stmts"] = out
    return n


def _strip_pos(x):
    if isinstance(x, dict):
        return {k: _strip_pos(v) for k, v in x.items() if k not in ("l", "c", "el", "ec", "ml", "mc", "o")}
    if isinstance(x, list):
        return [_strip_pos(v) for v in x]
    return x


def merge_bool_arms(data):
    """In place: two arms of one match whose patterns differ only in one field tested against `true` / `false`
    (`V { f: true, .. } => A, V { f: false, .. } => B`) are one arm that binds the field and branches on it
    (`V { f, .. } => if f { A } else { B }`): the flag read in the pattern or in the body.  Returns the number merged."""
    n = 0
    for x in [y for c in data.values() for y in A.walk(c)]:
        if x.get("k") != "Match":
            continue
        arms = x["arms"]
        i = 0
        while i < len(arms):
            a = arms[i]
            merged = False
            if a.get("guard") is None and a["pat"].get("k") == "PStruct":
                for j in range(i + 1, len(arms)):
                    b = arms[j]
                    if b.get("guard") is not None or b["pat"].get("k") != "PStruct" or b["pat"]["path"] != a["pat"]["path"] or len(b["pat"]["fields"]) != len(a["pat"]["fields"]):
                        continue
                    fa = {f["name"]: f for f in a["pat"]["fields"]}
                    fb = {f["name"]: f for f in b["pat"]["fields"]}
                    if set(fa) != set(fb):
                        continue
                    diff = [k for k in fa if _strip_pos(fa[k]["pat"]) != _strip_pos(fb[k]["pat"])]
                    if len(diff) != 1:
                        continue
                    k = diff[0]
                    pa, pb = fa[k]["pat"], fb[k]["pat"]
                    isb = lambda p: p.get("k") == "PLit" and p["lit"].get("lit") == "bool"
                    if not (isb(pa) and isb(pb)) or pa["lit"]["v"] == pb["lit"]["v"]:
                        continue
                    t_arm, f_arm = (a, b) if pa["lit"]["v"] else (b, a)
                    pos = {q: fa[k][q] for q in ("l", "c", "el", "ec")}
                    fa[k]["pat"] = {"k": "PIdent", "name": k, "mut": False, "by_ref": False, "sub": None, **pos}
                    fa[k]["shorthand"] = True
                    apos = {q: a[q] for q in ("l", "c", "el", "ec")}
                    a["body"] = {"k": "If", "cond": {"k": "Path", "path": k, **pos}, "then": _as_vblock(t_arm["body"]), "else": _as_vblock(f_arm["body"]), **apos}
                    del arms[j]
                    n += 1
                    merged = True
                    break
            if not merged:
                i += 1
    return n


def unroll_literal_loops(data):
    """In place: `for P in [e1, .., en] { B }` over a literal array of at most 6 elements, with no `break` in B, is n one-turn loops
    `for _ in [()] { let P = ei; B }` one after the other (a `continue` still ends the turn): a table-driven loop over a handful
    of literal rows reads like the rows written out.  Returns the number of loops unrolled."""
    import copy
    n = 0
    stack = [data]
    while stack:
        x = stack.pop()
        if isinstance(x, list):
            stack.extend(v for v in x if isinstance(v, (dict, list)))
            continue
        if not isinstance(x, dict):
            continue
        if x.get("k") == "Block" and x.get("stmts"):
            out = []
            changed = False
            for st in x["stmts"]:
                lp = st.get("expr") if st.get("k") == "ExprStmt" else None
                it = lp.get("iter") if isinstance(lp, dict) and lp.get("k") == "ForLoop" else None
                while isinstance(it, dict) and it.get("k") in ("Ref", "Paren"):
                    it = it.get("expr")
                if isinstance(it, dict) and it.get("k") == "MethodCall" and it["method"] in ("iter", "into_iter") and not it["args"]:
                    it = it["recv"]
                if isinstance(it, dict) and it.get("k") == "Array" and 2 <= len(it.get("elems", [])) <= 6 and not lp.get("label") \
                        and not any(y.get("k") == "Break" for y in A.walk(lp["body"])) and all(e.get("k") in ("Tuple", "Lit", "Path", "Ref", "Field") for e in it["elems"]):
                    pos = {k: lp[k] for k in ("l", "c", "el", "ec")}
                    for e in it["elems"]:
                        body = copy.deepcopy(_as_block(lp["body"]))
                        bind = {"k": "Local", "pat": copy.deepcopy(lp["pat"]), "init": e, "else": None, **pos}
                        body["stmts"].insert(0, bind)
                        once = {"k": "ForLoop", "pat": {"k": "PWild", **pos}, "iter": {"k": "Array", "elems": [{"k": "Tuple", "elems": [], **pos}], **pos}, "body": body, "label": None, **pos}
                        out.append({"k": "ExprStmt", "expr": once, "semi": True, **pos})
                    n += 1
                    changed = True
                else:
                    out.append(st)
            if changed:
                x["stmts"] = out
        stack.extend(v for v in x.values() if isinstance(v, (dict, list)))
    return n


def desugar_filter_loops(data):
    """In place: `for x in it.filter(|p| C) { B }` becomes `for x in it { if !({ let p = &x; C }) { continue; } B }` (just `!(C)` when
    the closure's parameter has the loop variable's name), so that a loop that passes over some elements reads the same whether the
    test is written as an adaptor or as a `continue`; and a `let v = <iterator chain>;` used only as the iterable of the `for` that
    follows it is read in the loop header.  Returns the number of loops rewritten."""
    n = 0
    stack = [data]
    while stack:
        x = stack.pop()
        if isinstance(x, list):
            stack.extend(v for v in x if isinstance(v, (dict, list)))
            continue
        if not isinstance(x, dict):
            continue
        if x.get("k") == "Block" and x.get("stmts"):
            st = x["stmts"]
            i = 0
            while i + 1 < len(st):
                a, b = st[i], st[i + 1]
                lp = b.get("expr") if b.get("k") == "ExprStmt" else None
                if a.get("k") == "Local" and a.get("else") is None and a.get("init") is not None and a["pat"].get("k") == "PIdent" and not a["pat"].get("mut") \
                        and isinstance(lp, dict) and lp.get("k") == "ForLoop" and lp["iter"].get("k") == "Path" and lp["iter"]["path"] == a["pat"]["name"] \
                        and a["init"].get("k") in ("MethodCall", "Array"):
                    nm = a["pat"]["name"]
                    uses = sum(1 for s_ in st[i + 1:] for y in A.walk(s_) if y.get("k") == "Path" and y.get("path") == nm)
                    if uses == 1:
                        lp["iter"] = a["init"]
                        del st[i]
                        continue
                i += 1
        if x.get("k") == "ForLoop" and x["iter"].get("k") == "MethodCall" and x["iter"]["method"] == "filter" and len(x["iter"]["args"]) == 1 \
                and x["iter"]["args"][0].get("k") == "Closure" and len(x["iter"]["args"][0].get("params", [])) == 1 and x["pat"].get("k") == "PIdent" \
                and not _has_return(x["iter"]["args"][0]["body"]):
            clo = x["iter"]["args"][0]
            cp = clo["params"][0]
            cpat = cp.get("pat", cp) if isinstance(cp, dict) else None
            while isinstance(cpat, dict) and cpat.get("k") in ("PType", "PRef"):
                cpat = cpat.get("pat")
            if isinstance(cpat, dict) and cpat.get("k") == "PIdent":
                pos = {k: clo[k] for k in ("l", "c", "el", "ec")}
                cond = clo["body"]
                if cpat["name"] != x["pat"]["name"]:
                    bind = {"k": "Local", "pat": cpat, "init": {"k": "Ref", "mut": False, "expr": {"k": "Path", "path": x["pat"]["name"], **pos}, **pos}, "else": None, **pos}
                    cond = {"k": "Block", "stmts": [bind, {"k": "ExprStmt", "expr": cond, "semi": False, **pos}], **pos}
                neg = {"k": "Unary", "op": "!", "expr": {"k": "Paren", "expr": cond, **pos}, **pos}
                cont = {"k": "Block", "stmts": [{"k": "ExprStmt", "expr": {"k": "Continue", "label": None, **pos}, "semi": True, **pos}], **pos}
                guard = {"k": "ExprStmt", "expr": {"k": "If", "cond": neg, "then": cont, "else": None, **pos}, "semi": False, **pos}
                x["iter"] = x["iter"]["recv"]
                body = _as_block(x["body"])
                body["stmts"].insert(0, guard)
                x["body"] = body
                n += 1
                stack.append(x)
                continue
        stack.extend(v for v in x.values() if isinstance(v, (dict, list)))
    return n


# ---- local closures: `let f = |a, b| body; .. f(x, y) ..` read as `{ let a = x; let b = y; body }` at each call ---------------------
def _clone(x):
    return json.loads(json.dumps(x))


def inline_local_closures(data):
    """In place, per function body: a closure bound by an immutable `let name = |..| body;` (no `return` inside, every parameter a plain
    pattern) and CALLED by that name is expanded at each call site into a block that binds the parameters to the arguments and
    evaluates a copy of the body.  A named sub-step (`let report_at = |label, span| {..}`) then reads like the code written in place;
    the `let` itself stays (it is harmless).  Closures that are passed around as values are left alone."""
    n = 0

    def process_fn(body):
        nonlocal n
        closures = {}
        for x in A.walk(body):
            if x.get("k") == "Local" and x.get("init") is not None and x["init"].get("k") == "Closure":
                pat = x["pat"]
                while pat.get("k") == "PType":
                    pat = pat["pat"]
                if pat.get("k") == "PIdent" and not pat.get("mut") and not _has_return(x["init"]["body"]):
                    closures[pat["name"]] = x["init"]
        if not closures:
            return
        # names bound more than once (shadowing) are left alone
        counts = {}
        for x in A.walk(body):
            if x.get("k") == "PIdent":
                counts[x["name"]] = counts.get(x["name"], 0) + 1
        closures = {k: v for k, v in closures.items() if counts.get(k, 0) == 1}
        stack = [body]
        while stack:
            x = stack.pop()
            if isinstance(x, dict):
                if x.get("k") == "Call" and x["func"].get("k") == "Path" and x["func"]["path"] in closures and len(x["args"]) == len(closures[x["func"]["path"]]["params"]):
                    clo = closures[x["func"]["path"]]
                    pos = {k: x[k] for k in ("l", "c", "el", "ec")}
                    stmts = []
                    for p, a in zip(clo["params"], x["args"]):
                        stmts.append({"k": "Local", "pat": _clone(p), "init": a, "else": None, **pos})
                    b = _clone(clo["body"])
                    stmts.append({"k": "ExprStmt", "expr": b, "semi": False, **pos})
                    args = x["args"]
                    x.clear()
                    x.update({"k": "Block", "stmts": stmts, **pos})
                    n += 1
                    stack.extend(args)
                    continue
                stack.extend(v for v in x.values() if isinstance(v, (dict, list)))
            elif isinstance(x, list):
                stack.extend(v for v in x if isinstance(v, (dict, list)))

    stack = [data]
    while stack:
        x = stack.pop()
        if isinstance(x, dict):
            if x.get("k") == "Fn" and isinstance(x.get("body"), dict):
                process_fn(x["body"])
            stack.extend(v for v in x.values() if isinstance(v, (dict, list)))
        elif isinstance(x, list):
            stack.extend(v for v in x if isinstance(v, (dict, list)))
    return n


# ---- type aliases introduced since the reference tree are read as what they stand for ----------------------------------------------
def expand_new_aliases(data, known_aliases):
    """`type FollowPos = BTreeMap<Position, RoaringBitmap>;` added by a refactoring: every `ty` / `ret` / `self_ty` string that mentions a
    NEW alias (one the reference tree does not have) is rewritten to the aliased type, so that rules that look at declared types see
    what they saw before.  Aliases of the reference tree (StateId, LiteralId, ... carry meaning of their own) are left alone.
    Generic aliases with type parameters are expanded by textual substitution of the parameters."""
    aliases = {}
    stack = [data]
    while stack:
        x = stack.pop()
        if isinstance(x, dict):
            if x.get("k") == "TypeAlias" and x.get("name") not in known_aliases:
                params = [g.strip() for g in (x.get("generics") or "").strip().strip("<>").split(",") if g.strip() and not g.strip().startswith("'")]
                aliases[x["name"]] = (params, " ".join((x.get("ty") or "").split()))
            stack.extend(v for v in x.values() if isinstance(v, (dict, list)))
        elif isinstance(x, list):
            stack.extend(v for v in x if isinstance(v, (dict, list)))
    if not aliases:
        return 0

    def expand(t):
        for _ in range(4):
            changed = False
            for name, (params, target) in aliases.items():
                if not re.search(r"(?<![A-Za-z0-9_])%s(?![A-Za-z0-9_])" % re.escape(name), t):
                    continue
                if not params:
                    t2 = re.sub(r"(?<![A-Za-z0-9_:])%s(?![A-Za-z0-9_])(?!\s*<)" % re.escape(name), target, t)
                else:
                    def rep(m):
                        args = [a.strip() for a in _split_generic(m.group(1))]
                        out = target
                        for pn, av in zip(params, args):
                            out = re.sub(r"(?<![A-Za-z0-9_])%s(?![A-Za-z0-9_])" % re.escape(pn), av, out)
                        return out
                    t2 = re.sub(r"(?<![A-Za-z0-9_:])%s\s*<((?:[^<>]|<[^<>]*>)*)>" % re.escape(name), rep, t)
                if t2 != t:
                    t, changed = t2, True
            if not changed:
                break
        return t

    n = 0
    stack = [data]
    while stack:
        x = stack.pop()
        if isinstance(x, dict):
            if x.get("k") != "TypeAlias":
                for key in ("ty", "ret", "self_ty"):
                    if isinstance(x.get(key), str) and x[key]:
                        t2 = expand(x[key])
                        if t2 != x[key]:
                            x[key] = t2
                            n += 1
            stack.extend(v for v in x.values() if isinstance(v, (dict, list)))
        elif isinstance(x, list):
            stack.extend(v for v in x if isinstance(v, (dict, list)))
    return n


def _split_generic(s):
    parts, d, cur = [], 0, ""
    for ch in s:
        if ch == "<":
            d += 1
        elif ch == ">":
            d -= 1
        if ch == "," and d == 0:
            parts.append(cur)
            cur = ""
        else:
            cur += ch
    if cur.strip():
        parts.append(cur)
    return parts


# ---- `Self` in value / pattern position is spelled as the type it stands for -----------------------------------------------------------
def expand_self(data):
    """Inside `impl T { .. }` (and `impl Trait for T`), `Self { .. }`, `Self::Variant`, `Self(..)` in expressions and patterns are
    rewritten to `T { .. }`, `T::Variant`, `T(..)`: one spelling for the rules, whichever the source uses."""
    n = 0

    def rewrite(node, name):
        nonlocal n
        stack = [node]
        while stack:
            x = stack.pop()
            if isinstance(x, dict):
                if x.get("k") in ("Struct", "Path", "PPath", "PStruct", "PTupleStruct") and isinstance(x.get("path"), str):
                    p = x["path"]
                    if p == "Self" or p.startswith("Self::"):
                        x["path"] = name + p[4:]
                        n += 1
                stack.extend(v for v in x.values() if isinstance(v, (dict, list)))
            elif isinstance(x, list):
                stack.extend(v for v in x if isinstance(v, (dict, list)))

    stack = [data]
    while stack:
        x = stack.pop()
        if isinstance(x, dict):
            if x.get("k") == "Impl" and isinstance(x.get("self_ty"), str):
                base = re.sub(r"<.*", "", "".join(x["self_ty"].split())).split("::")[-1]
                if re.fullmatch(r"[A-Za-z_]\w*", base or ""):
                    for it in x.get("items", []):
                        if it.get("k") == "Fn" and isinstance(it.get("body"), dict):
                            rewrite(it["body"], base)
                continue
            stack.extend(v for v in x.values() if isinstance(v, (dict, list)))
        elif isinstance(x, list):
            stack.extend(v for v in x if isinstance(v, (dict, list)))
    return n


# ---- helpers extracted since the reference tree are read in place ----------------------------------------------------------------------
def desugar_entry(data):
    """`match m.entry(k) { Entry::Occupied(o) => A, Entry::Vacant(v) => B }` is `if let Some(o) = m.get(&k) { A } else { B }` with
    `o.get()` / `o.get_mut()` / `o.into_mut()` read as `o`, and `o.insert(x)` / `v.insert(x)` as `m.insert(k, x)`, `.key()` as `k`:
    the std entry API spelled as the lookup and the insertion it performs (what the rules know how to read).  Returns the count."""
    import copy
    n_done = 0
    stack = [data]
    while stack:
        x = stack.pop()
        if isinstance(x, list):
            stack.extend(v for v in x if isinstance(v, (dict, list)))
            continue
        if not isinstance(x, dict):
            continue
        if x.get("k") == "Match" and x["scrut"].get("k") == "MethodCall" and x["scrut"]["method"] == "entry" and len(x["scrut"]["args"]) == 1 and len(x.get("arms", [])) == 2:
            occ = vac = None
            for a in x["arms"]:
                p = a["pat"]
                if a.get("guard") is None and p.get("k") == "PTupleStruct" and len(p.get("elems", [])) == 1 and p["elems"][0].get("k") in ("PIdent", "PWild"):
                    last = p["path"].split("::")[-1]
                    if last == "Occupied":
                        occ = a
                    elif last == "Vacant":
                        vac = a
            if occ is not None and vac is not None:
                m, key = x["scrut"]["recv"], x["scrut"]["args"][0]
                pos = {k: x[k] for k in ("l", "c", "el", "ec")}

                def rewrite(body, var, occupied):
                    st = [body]
                    while st:
                        y = st.pop()
                        if isinstance(y, list):
                            st.extend(v for v in y if isinstance(v, (dict, list)))
                            continue
                        if not isinstance(y, dict):
                            continue
                        if var and y.get("k") == "MethodCall" and y["recv"].get("k") == "Path" and y["recv"]["path"] == var:
                            yp = {k: y[k] for k in ("l", "c", "el", "ec")}
                            if y["method"] == "insert" and len(y["args"]) == 1:
                                val = y["args"][0]
                                y.clear()
                                y.update({"k": "MethodCall", "recv": copy.deepcopy(m), "method": "insert", "args": [copy.deepcopy(key), val], "turbofish": None, "ml": yp["l"], "mc": yp["c"], **yp})
                                st.append(val)
                                continue
                            if occupied and y["method"] in ("get", "get_mut", "into_mut") and not y["args"]:
                                y.clear()
                                y.update({"k": "Path", "path": var, **yp})
                                continue
                            if y["method"] in ("key", "into_key") and not y["args"]:
                                y.clear()
                                y.update(copy.deepcopy(key))
                                continue
                        st.extend(v for v in y.values() if isinstance(v, (dict, list)))
                ov = occ["pat"]["elems"][0].get("name") if occ["pat"]["elems"][0].get("k") == "PIdent" else None
                vv = vac["pat"]["elems"][0].get("name") if vac["pat"]["elems"][0].get("k") == "PIdent" else None
                rewrite(occ["body"], ov, True)
                rewrite(vac["body"], vv, False)
                keyref = key if key.get("k") == "Ref" else {"k": "Ref", "mut": False, "expr": copy.deepcopy(key), **{k: key[k] for k in ("l", "c", "el", "ec")}}
                lookup = {"k": "MethodCall", "recv": copy.deepcopy(m), "method": "get", "args": [keyref], "turbofish": None, "ml": x["scrut"]["l"], "mc": x["scrut"]["c"], **{k: x["scrut"][k] for k in ("l", "c", "el", "ec")}}
                pat = {"k": "PTupleStruct", "path": "Some", "elems": [occ["pat"]["elems"][0]], **{k: occ["pat"][k] for k in ("l", "c", "el", "ec")}}
                new = {"k": "If", "cond": {"k": "Let", "pat": pat, "expr": lookup, **{k: x["scrut"][k] for k in ("l", "c", "el", "ec")}},
                       "then": _as_vblock(occ["body"]), "else": _as_vblock(vac["body"]), **pos}
                x.clear()
                x.update(new)
                n_done += 1
        stack.extend(v for v in x.values() if isinstance(v, (dict, list)))
    return n_done


def _tries_outside_closures(body):
    out, stack = [], [body]
    while stack:
        x = stack.pop()
        if isinstance(x, dict):
            if x.get("k") == "Closure":
                continue
            if x.get("k") == "Try":
                out.append(x)
            stack.extend(v for v in x.values() if isinstance(v, (dict, list)))
        elif isinstance(x, list):
            stack.extend(v for v in x if isinstance(v, (dict, list)))
    return out


MAX_INLINE_SITES = 8


def inline_new_helpers(data, known_fns, known_methods=None):
    """A private function (free, or an inherent method called as `self.h(..)` / `Self::h(..)` from its own type) that the reference
    tree does not have, that is not recursive, has no `return` inside and is called from at most MAX_INLINE_SITES places (and never
    used as a value), is a piece of its callers that was given a name (`extract function`).  Each call is replaced by a copy of the
    helper's body: a block that first binds the parameters to the arguments (all at once; a parameter whose argument is the
    variable of the same name needs no binding), or just the body's expression when nothing is left to bind.  `?` inside the
    helper leaves the HELPER, so such a helper is only read in place when it is called as `h(..)?` and ends in `Ok(v)` / `Some(v)`:
    the `?` on the call and the wrapper are dropped, the inner `?`s keep propagating, now from the caller.  Helpers that call other
    new helpers are handled innermost first.  The helper's own item is dropped from the trees the rules read.  Returns the list of
    inlined function names (engine M still has them as functions: see cross_check_sm)."""
    import copy
    module = lambda path: os.path.splitext(os.path.basename(path))[0]
    done = []
    for _round in range(4):
        fns = {}     # simple name -> list of (file, items list, node, self_ty)
        for path, content in data.items():
            if path.endswith("build.rs"):
                continue
            for it in content.get("items", []):
                if it.get("cfg_test"):
                    continue
                if it.get("k") == "Fn":
                    fns.setdefault(it["name"], []).append((path, content["items"], it, None))
                elif it.get("k") == "Impl":
                    for m in it.get("items", []):
                        if m.get("k") == "Fn" and not m.get("cfg_test"):
                            fns.setdefault(m["name"], []).append((path, it["items"], m, it if it.get("trait") is None else False))
        cands = {}
        for name, lst in fns.items():
            if len(lst) != 1:
                continue
            path, items, node, imp = lst[0]
            if imp is False:
                continue  # trait impl methods are interface, not extracted pieces
            q = f"{module(path)}::{imp['self_ty']}::{name}" if imp else f"{module(path)}::{name}"
            vis = node.get("vis") or ""
            if q in known_fns or (vis.startswith("pub") and "crate" not in vis and "super" not in vis):
                continue
            g = node.get("generics") or ""
            gnames = set(re.findall(r"\b([A-Z]\w*)\b(?=\s*[:,>])", g)) | set(re.findall(r"<\s*([A-Z]\w*)|,\s*([A-Z]\w*)", g) and [x for t in re.findall(r"<\s*([A-Z]\w*)|,\s*([A-Z]\w*)", g) for x in t if x])
            ptys = ["".join(str(p.get("ty") or "").replace("&", " ").replace("mut ", " ").split()) for p in node["params"]]
            if "Fn" in g or any("impl" in t or "dyn" in t or t in gnames for t in ptys):
                continue  # helpers taking closures (or values of a bare generic type) are left alone
            rets = [x for x in A.walk(node["body"]) if x["k"] == "Return"]
            err_only = bool(rets) and all(x.get("expr") is not None and x["expr"].get("k") == "Call" and x["expr"]["func"].get("k") == "Path" and x["expr"]["func"]["path"] == "Err" for x in rets)
            if rets and not err_only:
                continue
            node["_err_returns"] = err_only   # `return Err(e)` leaves the caller too when the call is `h(..)?`: allowed only there
            if any((p.get("name") is None) or (p.get("name") != "self" and (p.get("pat") or {}).get("k") != "PIdent") for p in node["params"]):
                continue
            cands[name] = (path, items, node, imp)
        if not cands:
            break
        # call sites, with parents
        sites = {n: [] for n in cands}
        owner = {}  # id(call) -> self_ty of the impl the call stands in (None outside impls)
        stack = [(data, None, None, None)]
        while stack:
            x, par, key, ty = stack.pop()
            if isinstance(x, dict):
                if x.get("k") == "Impl":
                    ty = x.get("self_ty")
                if x.get("k") == "Call" and x["func"].get("k") == "Path":
                    fp = x["func"]["path"]
                    nm = fp.split("::")[-1]
                    if nm in sites:
                        imp = cands[nm][3]
                        okp = (nm, "self::" + nm, "crate::" + nm, "super::" + nm) if not imp else ("Self::" + nm, imp["self_ty"] + "::" + nm)
                        sites[nm].append((x, par, "call") if fp in okp and (not imp or ty == imp["self_ty"] or fp.startswith(imp["self_ty"])) else (None, par, "other"))
                elif x.get("k") == "MethodCall" and x.get("method") in sites:
                    nm = x["method"]
                    imp = cands[nm][3]
                    if imp and ty == imp["self_ty"] and x["recv"].get("k") == "Path" and x["recv"].get("path") == "self":
                        sites[nm].append((x, par, "mcall"))
                    elif imp and known_methods is not None and nm not in known_methods and len(nm) > 3:
                        # called on another value: safe to read in place only because no method of that name was called anywhere in
                        # the reference tree (so it is not a std / dependency method that happens to share the name)
                        sites[nm].append((x, par, "mcall-other"))
                    elif imp:
                        sites[nm].append((None, par, "other"))   # called on something else than `self`: left alone
                elif x.get("k") == "Path" and isinstance(x.get("path"), str) and x["path"].split("::")[-1] in sites and not (par is not None and par.get("k") == "Call" and par.get("func") is x):
                    sites[x["path"].split("::")[-1]].append((None, par, "value"))  # used as a value (`.map(helper)`): not inlinable
                for k2, v in x.items():
                    if isinstance(v, (dict, list)):
                        stack.append((v, x, k2, ty))
            elif isinstance(x, list):
                for v in x:
                    if isinstance(v, (dict, list)):
                        stack.append((v, par, key, ty))
        progressed = False
        for name, (path, items, node, imp) in cands.items():
            ss = sites[name]
            as_value = any(c is None and k_ == "value" for c, _p, k_ in ss)
            if any(c is None and k_ != "value" for c, _p, k_ in ss):
                continue
            ss = [t for t in ss if t[0] is not None]   # uses as a value (`.map(helper)`) stay calls of the helper, whose item is then kept
            if not ss or len(ss) > MAX_INLINE_SITES:
                continue
            body_nodes = {id(y) for y in A.walk(node["body"])}
            if any(id(c) in body_nodes for c, _p, _k in ss):
                continue  # recursive
            # innermost first: a helper that still calls another candidate waits for the next round
            if any((y.get("k") == "Call" and y["func"].get("k") == "Path" and y["func"]["path"].split("::")[-1] in cands and y["func"]["path"].split("::")[-1] != name)
                   or (y.get("k") == "MethodCall" and y.get("method") in cands and y.get("method") != name) for y in A.walk(node["body"])):
                continue
            params = list(node["params"])
            has_self = bool(params) and params[0].get("name") == "self"
            tries = _tries_outside_closures(node["body"])
            ok = True
            plans = []
            for call, parent, kind in ss:
                args = list(call["args"])
                if kind in ("mcall", "mcall-other"):
                    if not has_self:
                        ok = False
                        break
                    ps = params[1:]
                elif has_self:
                    # `Self::h(self, ..)`
                    if not (args and args[0].get("k") == "Path" and args[0].get("path") == "self"):
                        ok = False
                        break
                    ps, args = params[1:], args[1:]
                else:
                    ps = params
                if len(ps) != len(args):
                    ok = False
                    break
                under_try = parent is not None and parent.get("k") == "Try" and parent.get("expr") is call
                body = node["body"]
                tail = body["stmts"][-1] if body.get("k") == "Block" and body.get("stmts") else None
                te = tail.get("expr") if tail is not None and tail.get("k") == "ExprStmt" and not tail.get("semi") else None
                wrapped = te is not None and te.get("k") == "Call" and te["func"].get("k") == "Path" and te["func"]["path"] in ("Ok", "Some") and len(te["args"]) == 1
                if (tries or node.get("_err_returns")) and not (under_try and wrapped):
                    ok = False
                    break
                plans.append((call, parent, ps, args, under_try and wrapped, call["recv"] if kind == "mcall-other" else None))
            if not ok:
                continue
            for call, parent, ps, args, unwrap, other_recv in plans:
                pos = {k: call[k] for k in ("l", "c", "el", "ec")}
                body = copy.deepcopy(node["body"])
                self_bind = None
                if other_recv is not None:
                    # `self` inside the body is the receiver of this call: bound once to a local of its own
                    sname = "self__" + name
                    for y in A.walk(body):
                        if y.get("k") == "Path" and y.get("path") == "self":
                            y["path"] = sname
                    self_bind = {"k": "Local", "pat": {"k": "PIdent", "name": sname, "mut": False, "by_ref": False, "sub": None, **pos}, "init": other_recv, "else": None, **pos}
                for rank, y in enumerate(sorted(A.walk(body), key=A.pos)):
                    y["o"] = (call["el"], call["ec"], rank)
                # a function handed in by name (`fn(..) -> ..` parameter, argument `Type::method`): its calls through the parameter
                # are calls of that function -- `f(recv, a)` becomes `recv.method(a)` when it is a method with a receiver
                fnargs = {p["name"]: a for p, a in zip(ps, args) if "".join(str(p.get("ty") or "").split()).startswith("fn(") and a.get("k") == "Path"}
                if fnargs:
                    for y in list(A.walk(body)):
                        if y.get("k") == "Call" and y["func"].get("k") == "Path" and y["func"]["path"] in fnargs:
                            target_path = fnargs[y["func"]["path"]]["path"]
                            tname = target_path.split("::")[-1]
                            owner_ty = target_path.split("::")[-2] if "::" in target_path else None
                            tfn = [t for t in fns.get(tname, []) if t[3] and (owner_ty in (None, "Self", t[3]["self_ty"]))]
                            ypos = {k: y[k] for k in ("l", "c", "el", "ec")}
                            if len(tfn) == 1 and tfn[0][2]["params"] and tfn[0][2]["params"][0].get("name") == "self" and y["args"]:
                                recv, rest = y["args"][0], y["args"][1:]
                                keep_o = y.get("o")
                                y.clear()
                                y.update({"k": "MethodCall", "recv": recv, "method": tname, "args": rest, "turbofish": None, "ml": ypos["l"], "mc": ypos["c"], **ypos})
                                if keep_o:
                                    y["o"] = keep_o
                            else:
                                y["func"]["path"] = target_path
                ps_args = [(p, a) for p, a in zip(ps, args) if p["name"] not in fnargs]
                binds = [(p, a) for p, a in ps_args if not (a.get("k") == "Path" and a.get("path") == p["name"] and not (p.get("pat") or {}).get("mut"))]
                stmts = [self_bind] if self_bind is not None else []
                if binds:
                    pats = [{"k": "PIdent", "name": p["name"], "mut": bool((p.get("pat") or {}).get("mut")), "by_ref": False, "sub": None, **pos} for p, _a in binds]
                    if len(binds) == 1:
                        stmts.append({"k": "Local", "pat": pats[0], "init": binds[0][1], "else": None, **pos})
                    else:
                        stmts.append({"k": "Local", "pat": {"k": "PTuple", "elems": pats, **pos}, "init": {"k": "Tuple", "elems": [a for _p, a in binds], **pos}, "else": None, **pos})
                target = call
                if unwrap:
                    tail = body["stmts"][-1]
                    tail["expr"] = tail["expr"]["args"][0]
                    target = parent
                if not stmts and body.get("k") == "Block" and len(body.get("stmts", [])) == 1 and body["stmts"][0].get("k") == "ExprStmt" and not body["stmts"][0].get("semi"):
                    new = body["stmts"][0]["expr"]
                else:
                    stmts.append({"k": "ExprStmt", "expr": body, "semi": False, **pos}) if body.get("k") != "Block" else stmts.extend(body["stmts"])
                    new = {"k": "Block", "stmts": stmts, **pos}
                target.clear()
                target.update(new)
            if not as_value:
                items.remove(node)
            else:
                known_fns = set(known_fns) | {f"{module(path)}::{imp['self_ty']}::{name}" if imp else f"{module(path)}::{name}"}   # not a candidate again
            done.append(name)
            progressed = True
        if not progressed:
            break
    return done
