#!/bin/sh
# Builds the fact extractors from files on disk only (offline) and warms the dependency build
# that the MIR driver needs. Nothing here touches the network.
set -e
cd "$(dirname "$0")"
export CARGO_NET_OFFLINE=true
(cd tools/srcfacts && cargo build --offline 2>&1 | tail -2)
test -x tools/srcfacts/target/debug/srcfacts
(cd tools/mirfacts && cargo +nightly build --offline 2>&1 | tail -2)
test -x tools/mirfacts/target/debug/mirfacts
chmod +x tools/shim/rustc check
# warm .work/target (dependencies of /repo checked once under the driver) and the fact cache
python3 - <<'PY'
import sys
sys.path.insert(0, ".")
from vlib import core, mir, witness
core.get_repo()
mir.get_mir()
r = witness.run_all()
print("facts ok;", sum(1 for v in r.values() if v["ok"]), "of", len(r), "witnesses as expected")
PY
echo "setup ok"
