#!/bin/sh
# Builds the fact extractors from files on disk only (offline).
set -e
cd "$(dirname "$0")"
export CARGO_NET_OFFLINE=true
(cd tools/srcfacts && cargo build --offline 2>&1 | tail -3)
test -x tools/srcfacts/target/debug/srcfacts
echo "setup ok"
