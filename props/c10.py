"""C10 -- output is a pure function of the input (no process-seeded order, no ambient input)."""
import collections
import glob
import os
import re

from vlib import core, mir as M, rules_order as RO, tables, ast as A

LEVEL = "other"
EXPLANATION = (
    "Information-flow argument decided on the MIR of the shipped targets: the bytes written are a function of (file content, arguments) if no ambient input is read "
    "and no container with process-seeded order is iterated. HASHORD: every iteration-like call reachable from main is classified by the fully resolved receiver type "
    "(ORDERED / FIXED-HASH / RANDOM-HASH); RANDOM-HASH iteration, or any non-lookup use of a RANDOM-HASH container, is a violation. AMBIENT: no reachable call to clock / environment / "
    "pid / rng / RandomState::new and no pointer-to-integer cast in the local crates. D: the two facts that make FIXED-HASH fixed are re-read from the resolved dependency versions "
    "(hashbrown's DefaultHashBuilder alias; the resolved ahash has neither runtime-rng nor compile-time-rng and falls back to constant seeds; ustr orders and hashes by content with constant keys; "
    "clap's env feature is off). A control crate containing one instance of every forbidden construct is analysed by the same driver and rules on every run and must be flagged. "
    "NOT decided: determinism inside dependencies (indexmap, roaring, itertools, nom, clap) beyond their documented contracts."
)
ASSUMPTIONS = [
    "rustc's resolved types and callees (MIR, -Zmir-opt-level=0) for lib + bin as cargo builds them",
    "BTreeMap/BTreeSet/IndexMap/IndexSet/Vec/RoaringBitmap iterate in an order that is a function of their contents and insertion history",
    "std's DefaultHasher::new() uses fixed keys (documented)",
]


def control_facts():
    src = os.path.join(core.VERIF, "tools/control")
    out = os.path.join(core.WORK, "control_mir")
    rc, err, nonce = M.run_driver(src, out, crates="control", target=os.path.join(core.WORK, "control_target"))
    files = glob.glob(os.path.join(out, "control-*.json"))
    if rc != 0 or not files:
        return None, err
    m = M.Mir(files)
    return m, ""


INTERIOR = re.compile(r"\b(OnceLock|OnceCell|LazyLock|LazyCell|Lazy|Mutex|RwLock|RefCell|Cell|UnsafeCell|Atomic[A-Z]\w*)\b")


def global_state_sites(files, text_of):
    """`static` items that can change after start-up (interior mutability, `static mut`) and thread_local!/lazy_static! blocks,
    anywhere in the given syntax trees (module level or inside a function body), test code excluded."""
    out = []

    def visit(x, where, in_test):
        if isinstance(x, dict):
            if x.get("cfg_test"):
                return
            k = x.get("k")
            if k in ("Fn",):
                where = x.get("name", where)
            if k == "Static":
                ty = x.get("ty") or ""
                src = text_of(x)
                mut = bool(re.match(r"^(pub(\([^)]*\))?\s+)?static\s+mut\b", src))
                if mut or INTERIOR.search(ty):
                    out.append((where, x.get("name"), "static mut" if mut else "static " + ty.replace(" ", ""), x.get("l")))
            if k == "Macro" and x.get("name", "").split("::")[-1] in ("thread_local", "lazy_static"):
                out.append((where, x["name"], x["name"] + "!", x.get("l")))
            for v in x.values():
                visit(v, where, in_test)
        elif isinstance(x, list):
            for v in x:
                visit(v, where, in_test)

    for rel, content in files.items():
        for it in content["items"]:
            visit(it, rel, False)
    return out


def global_state_rule(repo, res, rule="GLOBALSTATE"):
    """`whether repeated inside one process`: a value kept in process-global mutable state outlives one compilation, so the second
    compilation in the same process (another shell, another grammar) can see what the first one left there."""
    def text_of_repo(rel):
        return lambda n: " ".join(repo.src[rel][n["l"] - 1 : n["l"]]).strip() if n.get("l") else ""

    sites = []
    for rel, content in repo.files.items():
        sites += [(rel,) + s for s in global_state_sites({rel: content}, text_of_repo(rel))]
    for rel, where, name, what, line in sites:
        res.bad(rule, f"{rule}:{where}:{name}", f"{what} in {where}: process-global mutable state survives from one compilation to the next in the same process", f"{rel}:{line}")
    res.ok(rule, f"{rule}:scan", f"scanned {len(repo.files)} files: {len(sites)} process-global mutable items (static with interior mutability, static mut, thread_local!/lazy_static!)", "")
    # positive control: the same scanner over tools/control/src/statics.rs must report its three constructs
    import json, subprocess, tempfile
    ctl = os.path.join(core.VERIF, "tools/control/src/statics.rs")
    with tempfile.TemporaryDirectory(dir=core.WORK if os.path.isdir(core.WORK) else None) as td:
        outp = os.path.join(td, "ctl.json")
        r = subprocess.run([core.SRCFACTS, outp, ctl], stdout=subprocess.PIPE, stderr=subprocess.PIPE, text=True)
        if r.returncode != 0:
            res.undecided("CONTROL", "CONTROL:global-state", "control file did not parse: " + r.stderr[-200:])
            return
        data = json.load(open(outp))
    lines = open(ctl).read().split("\n")
    found = global_state_sites({"statics.rs": list(data.values())[0]}, lambda n: lines[n["l"] - 1].strip() if n.get("l") else "")
    kinds = {w.split(" ")[0] + (" mut" if w == "static mut" else "") if not w.endswith("!") else w for _, _, w, _ in found}
    res.check(len(found) >= 3, "CONTROL", "CONTROL:global-state", f"control: {len(found)} process-global items flagged {sorted(w for _, _, w, _ in found)}", ctl)


def outfile_rule(repo, res, rule="OUTFILE"):
    """`byte-identical output ... so generated scripts can be committed and diffed`: the file complgen leaves behind is what was
    written in this run only if the destination is truncated when opened: every file opened for writing in main.rs is opened with
    File::create, or with OpenOptions that set truncate(true) (append / plain write(true) keep the old tail)."""
    n = 0
    for fn in repo.fns_in("main"):
        for c in A.walk(fn.body):
            if c["k"] == "Call" and c["func"]["k"] == "Path" and c["func"]["path"].split("::")[-2:] in (["File", "create"], ["File", "create_new"]):
                n += 1
                res.ok(rule, f"{rule}:{fn.qname}:File::create", "destination opened with File::create (truncating)", f"{fn.file}:{c['l']}")
            if c["k"] == "Call" and c["func"]["k"] == "Path" and c["func"]["path"].split("::")[-2:] in (["OpenOptions", "new"], ["File", "options"]):
                n += 1
                # the builder chain this call starts
                txt = ""
                pm = A.parent_map(fn.body)
                cur = c
                while id(cur) in pm and pm[id(cur)][0]["k"] in ("MethodCall", "Try"):
                    cur = pm[id(cur)][0]
                txt = "".join(repo.text(fn.file, cur).split())
                ok = ".truncate(true)" in txt and ".append(true)" not in txt
                res.check(ok, rule, f"{rule}:{fn.qname}:OpenOptions", f"{txt[:90]}" + ("" if ok else ": opened for writing without truncation -- a shorter script leaves the tail of the previous file behind"), f"{fn.file}:{c['l']}")
    res.check(n >= 1, rule, f"{rule}:main:found", f"{n} file-opening sites for output in main.rs", "src/main.rs")
    # ... and what is written does not depend on what was there: main.rs never inspects an existing file (metadata, existence, length,
    # content) -- the only file it reads is the usage file, inside the opener that returns a boxed `dyn Read`
    INSPECT = {"metadata", "symlink_metadata", "exists", "try_exists", "is_file", "is_dir", "read_dir", "read_link", "canonicalize", "len", "modified"}
    READS = {"read", "read_to_string", "open"}
    WRITES = {"create", "create_new", "write"}
    main_fns = repo.fns_in("main")

    def roots(fn, e, depth=0):
        """where a path expression comes from: the names of the fields it is read from (`args.<field>`), following parameters to
        the arguments at every call of the function inside main.rs; '?' when it cannot be followed"""
        envs = A.collect_envs(fn)
        out = set()

        def leaves(t):
            if isinstance(t, tuple):
                if t and t[0] == "field":
                    out.add("." + str(t[2]))
                    return
                if t and t[0] == "bind" and not (str(t[1]).split("::")[-1] in ("Some", "Ok") and str(t[2]) == "0"):
                    out.add("." + str(t[2]))   # `let Cli { bash: bash_path, .. } = args`: the field the local was bound from
                    return
                if t and t[0] == "param":
                    idx = t[1]
                    if depth >= 3:
                        out.add("?")
                        return
                    hit = False
                    for g in main_fns:
                        for c in A.walk(g.body):
                            if c["k"] == "Call" and c["func"]["k"] == "Path" and c["func"]["path"].split("::")[-1] == fn.name and idx < len(c["args"]):
                                hit = True
                                out.update(roots(g, c["args"][idx], depth + 1))
                    if not hit:
                        out.add("?")
                    return
                if t and t[0] == "lit":
                    out.add("lit:" + str(t[1]))
                    return
                for x in t[1:]:
                    leaves(x)
        try:
            leaves(A.resolve(e, envs.get(id(e)) or A.Env(), 0))
        except Exception:
            out.add("?")
        return out or {"?"}

    read_sites, write_roots, probes = [], set(), []
    for fn in main_fns:
        for c in A.walk(fn.body):
            name = None
            if c["k"] == "Call" and c["func"]["k"] == "Path":
                segs = c["func"]["path"].split("::")
                if len(segs) >= 2 and segs[-2] in ("fs", "File", "Path", "OpenOptions"):
                    if segs[-1] in INSPECT:
                        name = "::".join(segs[-2:])
                    elif segs[-1] in READS and c["args"]:
                        read_sites.append((fn, c, "::".join(segs[-2:])))
                    elif segs[-1] in WRITES and c["args"]:
                        write_roots |= roots(fn, c["args"][0])
            elif c["k"] == "MethodCall" and c["method"] in ("metadata", "symlink_metadata", "exists", "try_exists", "is_file"):
                name = "." + c["method"]
            elif c["k"] == "MethodCall" and c["method"] == "open" and len(c["args"]) == 1:
                write_roots |= roots(fn, c["args"][0])   # OpenOptions chain
            if name:
                probes.append(f"{fn.qname}:{name}@{c['l']}")
    # a file opened for READING is the input only if its path can be followed to a source no written destination comes from
    seen_reads = []
    for fn, c, name in read_sites:
        rr = roots(fn, c["args"][0])
        seen_reads.append(f"{name} <- {sorted(rr)}")
        if "?" in rr or "?" in write_roots or (rr & write_roots):
            probes.append(f"{fn.qname}:{name}@{c['l']} (path from {sorted(rr)}; destinations from {sorted(write_roots)})")
    res.check(not probes, rule, f"{rule}:main:no-inspection-of-existing-files", "main.rs opens its destinations for writing and reads only files whose path comes from elsewhere than any destination's: nothing written depends on a destination's previous state" + f" (reads: {seen_reads}; destinations <- {sorted(write_roots)})" if not probes else f"an existing file's state is inspected: {probes[:4]} -- the bytes left at the destination then depend on what was there before", "src/main.rs")


def run(repo, res, tier):
    from vlib import ast as A_
    outfile_rule(repo, res)
    from vlib import rules_hasheq as HQ

    # lookups in a per-process seeded hash container (indexmap's default RandomState: DFAInternPool, RegexInternPool, the subset
    # construction's state map) are deterministic only if the key's Hash and == agree
    HQ.hasheq_rule(repo, res)
    global_state_rule(repo, res)
    mir = M.get_mir(tier)
    reach = mir.reachable(["main::main"])
    res.engines["M"] = {"crates": mir.crates, "functions": len(mir.fns), "reachable_from_main": len(reach)}
    it_sites, random_uses, ambient, casts = RO.scan(mir, reach)
    sens = {}
    try:
        t = tables.load("iter_sites")
        for r in t.get("site", []):
            sens[(r["fn"], r["container"])] = r
    except FileNotFoundError:
        pass
    hashord_rule(res, it_sites, random_uses, sens)
    res.engines["M"]["hash_iteration_sites"] = len(it_sites)
    # container census by class over all locals of reachable functions
    census = collections.Counter()
    randoms = collections.Counter()
    _census(mir, reach, census, randoms, res, ambient, casts, it_sites)


def iteration_sites(tier):
    """(it_sites, random_uses, judged rows) for other properties that share HASHORD"""
    mir = M.get_mir(tier)
    reach = mir.reachable(["main::main"])
    it_sites, random_uses, ambient, casts = RO.scan(mir, reach)
    sens = {}
    try:
        t = tables.load("iter_sites")
        for r in t.get("site", []):
            sens[(r["fn"], r["container"])] = r
    except FileNotFoundError:
        pass
    return it_sites, random_uses, sens


def hashord_rule(res, it_sites, random_uses, sens):
    # ---- HASHORD
    groups = collections.Counter((s["fn"], s["ty"], s["cls"][0]) for s in it_sites)
    for (fn, ty, cls), n in sorted(groups.items()):
        key = f"HASHORD:{fn}:{ty}"
        row = sens.get((fn, ty))
        note = f"; order {'reaches' if row and row['reaches_output'] else 'does not reach'} the output if the hasher were seeded: {row['why']}" if row else ""
        if cls == "RANDOM-HASH":
            res.bad("HASHORD", key, f"{n} iteration(s) over a process-seeded container {ty}{note}", "")
        else:
            res.ok("HASHORD", key, f"{n} iteration(s), {cls}{note}", "")
            if not row:
                res.advisory(f"hash-container iteration not yet judged in tables/iter_sites.toml: {fn} over {ty}")
    for u in random_uses:
        res.bad("HASHORD", f"HASHORD:{u['fn']}:{u['ty']}:{u['callee'].split('::')[-1]}", f"process-seeded container {u['ty']} passed to {u['callee']} (not a pure lookup)", f"{u['file']}:{u['line']}")


def _census(mir, reach, census, randoms, res, ambient, casts, it_sites):
    for p in reach:
        for ty in mir.fns[p].locals:
            for m in re.finditer(r"(?:hashbrown|std::collections)::Hash(?:Map|Set)<", ty):
                # balanced cut
                s = ty[m.start():]
                depth = 0
                end = None
                for i, ch in enumerate(s):
                    if ch == "<":
                        depth += 1
                    elif ch == ">":
                        depth -= 1
                        if depth == 0:
                            end = i + 1
                            break
                c = RO.classify_container(s[:end] if end else s)
                if c:
                    census[c[0]] += 1
                    if c[0] == "RANDOM-HASH":
                        randoms[(mir.fns[p].parent or p, s[:end])] += 1
    res.engines["M"]["hash_container_locals"] = dict(census)
    for (fn, ty), n in sorted(randoms.items()):
        res.advisory(f"process-seeded container type {ty} appears in {fn} (lookups only are harmless; any iteration is reported as a violation)")
    res.check(census.get("FIXED-HASH", 0) >= 50, "HASHORD", "HASHORD:census-floor", f"{census.get('FIXED-HASH', 0)} fixed-hash container locals seen in reachable code (floor 50): the classifier is looking at real types", "")
    # ---- AMBIENT
    for a in ambient:
        res.bad("AMBIENT", f"AMBIENT:{a['fn']}:{a['callee']}", f"reads {a['what']} via {a['callee']}", f"{a['file']}:{a['line']}")
    for c in casts:
        res.bad("AMBIENT", f"AMBIENT:{c['fn']}:ptr-to-int", f"pointer exposed as integer ({c['what']}): address-dependent value", f"{c['file']}:{c['line']}")
    res.ok("AMBIENT", "AMBIENT:scan", f"scanned {len(reach)} reachable functions: {len(ambient)} ambient reads, {len(casts)} pointer-to-integer casts", "")
    # DefaultHasher::new is fine, RandomState::new is not: already covered by AMBIENT; record the fixed-key hasher uses
    dh = 0
    for p in reach:
        for b in mir.fns[p].blocks:
            t = b["term"]
            if t["k"] == "call" and (t["resolved"] or t["callee"]).endswith("DefaultHasher::new"):
                dh += 1
    res.ok("AMBIENT", "AMBIENT:default-hasher", f"{dh} uses of std DefaultHasher::new() (fixed keys)", "")
    # ---- positive control
    cm, err = control_facts()
    if cm is None:
        res.undecided("CONTROL", "CONTROL:build", "control crate did not compile under the driver: " + err[-300:])
    else:
        creach = cm.reachable(["main::main"])
        ci, cr, ca, cc = RO.scan(cm, creach)
        res.check(any(s["cls"][0] == "RANDOM-HASH" for s in ci), "CONTROL", "CONTROL:hash-iteration", f"control: {sum(1 for s in ci if s['cls'][0]=='RANDOM-HASH')} RANDOM-HASH iterations flagged", "")
        kinds = {a["what"] for a in ca}
        res.check({"clock", "environment", "pid"} <= kinds, "CONTROL", "CONTROL:ambient", f"control: ambient kinds flagged {sorted(kinds)}", "")
        res.check(bool(cc), "CONTROL", "CONTROL:ptr-to-int", f"control: {len(cc)} pointer-to-integer casts flagged", "")
    # ---- D
    df = RO.dep_facts()
    if df is None:
        res.undecided("D", "D:metadata", "cargo metadata --offline failed")
        return
    res.engines["D"] = {k: {"version": v["version"], "features": v["features"]} for k, v in df["deps"].items()}
    hb = df["deps"].get("hashbrown")
    if hb is None:
        # no direct hashbrown dependency: then there must be no hashbrown FIXED-HASH classification relied upon
        uses = [s for s in it_sites if s["ty"].startswith("hashbrown::")]
        res.check(not uses, "D", "D:hashbrown", "no direct hashbrown dependency and no hashbrown iteration", "")
    else:
        src = RO.read(os.path.join(hb["dir"], "src/map.rs"))
        alias = re.search(r"pub type DefaultHashBuilder\s*=\s*core::hash::BuildHasherDefault<ahash::AHasher>;", src)
        other = re.search(r"pub type DefaultHashBuilder\s*=\s*([^;]+);", src)
        res.check(bool(alias) and "ahash" in hb["features"], "D", "D:hashbrown:default-hasher",
                  f"hashbrown {hb['version']}: DefaultHashBuilder = BuildHasherDefault<ahash::AHasher> (features {hb['features']})" if alias else
                  f"hashbrown {hb['version']}: DefaultHashBuilder = {other.group(1) if other else '?'} -- not the fixed-key alias the FIXED-HASH class relies on", hb["dir"])
        ah = df["deps"].get("hashbrown>ahash")
        if ah is None:
            res.undecided("D", "D:ahash", "hashbrown's ahash dependency not resolved")
        else:
            bad = [f for f in ah["features"] if f in ("runtime-rng", "compile-time-rng", "default")]
            res.check(not bad, "D", "D:ahash:features", f"ahash {ah['version']} resolved with features {ah['features']}" + (f": {bad} make AHasher::default() process- or build-seeded" if bad else " (no rng feature)"), ah["dir"])
            rs = RO.read(os.path.join(ah["dir"], "src/random_state.rs"))
            fixed = re.search(r"\}\s*else\s*\{\s*#\[inline\]\s*fn get_fixed_seeds\(\)[^{]*\{\s*&\[PI, PI2\]", rs)
            res.check(bool(fixed), "D", "D:ahash:fixed-seeds", "without rng features get_fixed_seeds() returns the constants [PI, PI2]", ah["dir"])
            body = ""
            for f in ("src/lib.rs", "src/fallback_hash.rs", "src/aes_hash.rs"):
                body += RO.read(os.path.join(ah["dir"], f))
            dflt = re.findall(r"impl Default for AHasher\s*\{.*?fn default\(\) -> AHasher\s*\{\s*(.*?)\s*\}", body, re.S)
            res.check(bool(dflt) and all("with_fixed_keys" in d for d in dflt), "D", "D:ahash:default-impl", f"AHasher::default() = {sorted(set(d.strip() for d in dflt))}", ah["dir"])
    us = df["deps"].get("ustr")
    if us:
        src = RO.read(os.path.join(us["dir"], "src/lib.rs"))
        ordc = re.search(r"impl Ord for Ustr\s*\{\s*fn cmp\(&self, other: &Self\) -> Ordering\s*\{\s*self\.as_str\(\)\.cmp\(other\.as_str\(\)\)", src)
        res.check(bool(ordc), "D", "D:ustr:ord-by-content", f"ustr {us['version']}: Ord compares as_str() (content, not address)", us["dir"])
        keys = re.findall(r"AHasher::new_with_keys\((\d+),\s*(\d+)\)", src)
        res.check(len(keys) >= 1 and len(set(keys)) == 1, "D", "D:ustr:hash-fixed-keys", f"ustr precomputed hash uses constant keys {sorted(set(keys))}", us["dir"])
        hsrc = RO.read(os.path.join(us["dir"], "src/hash.rs")) + src
        res.check("IdentityHasher" in hsrc, "D", "D:ustr:identity-hasher", "UstrMap/UstrSet use BuildHasherDefault<IdentityHasher> over that precomputed hash", us["dir"])
    cl = df["deps"].get("clap")
    if cl:
        res.check("env" not in cl["features"], "D", "D:clap:no-env", f"clap {cl['version']} features {cl['features']}: no `env` (arguments are never read from environment variables)", cl["dir"])
    res.floor("HASHORD", res.count("HASHORD"), 11)
    res.floor("D", res.count("D"), 4)
    res.floor("CONTROL", res.count("CONTROL"), 2)
