"""C04 -- every emitted script embeds exactly the compiled automaton (data side)."""
import re

from vlib import ast as A, prov as P, types as TY, emission as E
from vlib import rules_emit as RE

LEVEL = "other"
EXPLANATION = (
    "Decided on /repo's current source, for all four emitters: DIM (every format hole gets a declared type by a syntactic type inference over struct fields, signatures, iteration and tuple "
    "destructuring; a StateId hole must carry the module's ARRAY_START exactly once -- none needed where it is 0 --, id holes must carry none), ARGBASE (get_lookup_tables / get_subwords receive the module's own ARRAY_START), "
    "ROLE (in every `[k]=v` cell k and v are element .0 and .1 of the same iteration), FF (the dfa.rs getters build their rows from the fields C04 names: literal text, description, next state, level index = the symbol's "
    "fallback level, cell key = the source state; ids = position in the decreasing-length order + base; one command-id set is shared by the main and all within-word tables), "
    "ISOCOV (every MatchTransitions/CompletionTransitions field printed by some shell's shared-shape function is bound on both sides of isomorphic_to and the two bindings meet in an ==/!= comparison; in every emitter the chunk_by closure's value is "
    "the isomorphic_to result and its early returns are `false`, so no two within-word automata share a table set unless isomorphic_to agrees; what shape_hash covers and whether ids are sorted by it only changes how much is shared and is reported as an advisory), "
    "NAMES (every generated function that is called is defined under the same name pattern and vice versa; the registration line names the command and the defined entry function), "
    "FLAGS (the flag under which a table is built is the flag under which the code reading it is emitted). "
    "NOT decided: that the tables equal the automaton value by value for a given grammar; the reader logic of fish/zsh/pwsh."
    " DECLGUARD also covers fish (within-word tables are globals: written on every path unless emptied before each call), dropping adaptors on the loop a declaring template stands in, and the flag-decided presence of optional tables in tables.rs; ENC shared with C07."
)
ASSUMPTIONS = ["syn's parse; the type inferencer treats unknown types as unknown (never guesses a dimension)", "type aliases StateId/LiteralId/CommandId are used consistently in declarations (they are the dimension carriers)"]


def typer(repo):
    return TY.Typer(repo, RE.ROARING_DIMS)


def ff_getters(repo, res, ty, rule="FF"):
    # rows of get_*_transitions_from
    specs = [
        ("dfa::DFA::get_literal_transitions_from", "Literal", [("literal", 0), ("description", 1)], 2),
        ("dfa::DFA::get_command_transitions_from", "Command", [("cmd", 0)], 1),
        ("dfa::DFA::get_compadd_transitions_from", "Compadd", [("cmd", 0)], 1),
        ("dfa::DFA::get_subword_transitions_from", "Subword", [("subdfa", 0)], 1),
    ]
    for fq, variant, fields, to_idx in specs:
        fn = repo.fn(fq)
        if fn is None:
            res.undecided(rule, f"{rule}:{fq}", "function not found")
            continue
        envs = A.collect_envs(fn)
        # the row: the tuple inside `Some((..))` of a filter_map, or the tuple pushed onto the result by a loop
        somes = [c["args"][0] for c in P.find_calls(fn.body, names={"Some"}) if c["args"] and c["args"][0]["k"] == "Tuple"]
        somes += [c["args"][0] for c in P.find_calls(fn.body, methods={"push"}) if c["args"] and c["args"][0]["k"] == "Tuple"]
        ok = len(somes) == 1
        why = f"{len(somes)} row constructors"
        if ok:
            tup = somes[0]
            env = envs.get(id(tup))
            ps = [A.resolve(x, env) for x in tup["elems"]]
            good = True
            for fname, idx in fields:
                p = ps[idx]
                while p[0] == "mcall" and p[1] in ("unwrap_or",):
                    p = p[2]
                p = P.peel(p) if p[0] == "try" else p
                good = good and p[0] == "bind" and P.last(p[1]) == variant and p[2] == fname and "get_input" in A.show(p[3])
            t = ps[to_idx]
            good = good and t[0] == "proj" and t[2] == 1 and t[1][0] == "elem"
            # the symbol looked up is the key of the same map entry
            key_ok = any(("get_input" in A.show(p) and A.contains(p, lambda x: x == ("proj", t[1], 0))) for p in ps[:to_idx])
            ok = good and key_ok
            why = f"row = ({', '.join(f'{variant}.{f}' for f, _ in fields)}, target of the same map entry)" if ok else "; ".join(A.show(p)[:60] for p in ps)
        res.check(ok, rule, f"{rule}:{fq}:row", why, fn.loc())
        # rows come from the state's own transition map
        src = [c for c in P.find_calls(fn.body, methods={"get"}) if "transitions" in repo.text(fn.file, c["recv"])]
        ok = len(src) == 1 and A.resolve(src[0]["args"][0], envs.get(id(src[0])))[0] == "param"
        res.check(ok, rule, f"{rule}:{fq}:source", "rows are the entries of self.transitions[from]", fn.loc())

    # get_all_literals: (position + base, literal, description) over the decreasing-length order
    fn = repo.fn("dfa::DFA::get_all_literals")
    if fn is None:
        res.undecided(rule, f"{rule}:get_all_literals", "function not found")
    else:
        envs = A.collect_envs(fn)
        v = A.resolve(fn.body, A.fn_env(fn))
        sp = P.spine(v)
        ok = sp[:4] == [".collect", ".map", ".enumerate", ".into_iter"] and "get_top_level_literals_decreasing_length" in " ".join(sp)
        tups = [n for n in A.walk(fn.body) if n["k"] == "Tuple" and len(n["elems"]) == 3]
        if ok and tups:
            e = envs.get(id(tups[0]))
            a = [A.resolve(x, e) for x in tups[0]["elems"]]
            ok = a[0][0] == "cast" and a[0][1][0] == "bin" and a[0][1][1] == "+" and {a[0][1][2][0], a[0][1][3][0]} == {"proj", "param"} and a[1][0] == "proj" and a[2][0] == "mcall" and a[2][1] in ("unwrap_or", "unwrap_or_else", "unwrap_or_default")
        res.check(ok and bool(tups), rule, f"{rule}:get_all_literals", "id = enumerate() position + array_start over get_top_level_literals_decreasing_length(); (id, literal, description or \"\")", fn.loc())
    # re-keying getters
    for fq, getter, idf in (("dfa::DFA::get_literal_transitions", "get_literal_transitions_from", "get"), ("dfa::DFA::get_command_transitions", "get_command_transitions_from", "get_index_of"), ("dfa::DFA::get_compadd_transitions", "get_compadd_transitions_from", "get_index_of")):
        fn = repo.fn(fq)
        if fn is None:
            res.undecided(rule, f"{rule}:{fq}", "function not found")
            continue
        envs = A.collect_envs(fn)
        # the cell: a 2-tuple whose first component is computed (in place or through a local) by the id lookup
        tups = [n for n in A.walk(fn.body) if n["k"] == "Tuple" and len(n["elems"]) == 2 and idf in A.reach_calls(n["elems"][0], envs.get(id(n)))]
        ok = len(tups) == 1
        if ok:
            e = envs.get(id(tups[0]))
            k, v = [A.resolve(x, e) for x in tups[0]["elems"]]
            elem = None
            for r in A.roots(v):
                pass
            ok = getter in A.show(k) and getter in A.show(v) and v[0] == "proj" and v[2] == (2 if idf == "get" else 1) and A.contains(k, lambda x: x[0] == "proj" and x[1] == v[1] and x[2] == 0)
        # the outer key: first argument of the insert into the result, or first component of the `(state, row map)` pair collected into it
        outer = [(c["args"][0], envs.get(id(c))) for c in P.find_calls(fn.body, methods={"insert"}) if c["args"]]
        for t in A.walk(fn.body):
            if t["k"] == "Tuple" and len(t["elems"]) == 2 and t is not (tups[0] if tups else None) and getter in A.reach_calls(t["elems"][1], envs.get(id(t))) and getter not in A.reach_calls(t["elems"][0], envs.get(id(t))):
                outer.append((t["elems"][0], envs.get(id(t))))
        state_ok = False
        for oe, oenv in outer:
            a0 = A.resolve(oe, oenv)
            if a0[0] == "elem" and P.peel(a0[1])[0] in ("param", "mcall") and any(r[0] == "param" for r in A.roots(a0)):
                st_arg = [g for g in P.find_calls(fn.body, methods={getter})]
                state_ok = bool(st_arg) and A.resolve(st_arg[0]["args"][0], envs.get(id(st_arg[0]))) == a0
        res.check(ok and state_ok, rule, f"{rule}:{fq}", f"cell key = id of the row's own text, value = the row's own target, outer key = the state the rows were read from", fn.loc())
    # completion tables: level index = the symbol's fallback level; key = source state
    for fq, variant, idf in (("dfa::DFA::get_literal_completions", "Literal", "get"), ("dfa::DFA::get_command_completions", "Command", "get_index_of"),
                             ("dfa::DFA::get_completion_compadds", "Compadd", "get_index_of"), ("dfa::DFA::get_completion_subwords", "Subword", "get")):
        fn = repo.fn(fq)
        if fn is None:
            res.undecided(rule, f"{rule}:{fq}", "function not found")
            continue
        envs = A.collect_envs(fn)
        ok = False
        why = "no level[..].entry(from) chain"
        for c in P.find_calls(fn.body, methods={"entry"}):
            if c["recv"]["k"] != "Index":
                continue
            e = envs.get(id(c))
            lvl = A.resolve(c["recv"]["index"], e)
            frm = A.resolve(c["args"][0], e)
            lvl_ok = lvl[0] == "bind" and P.last(lvl[1]) == variant and lvl[2] == "fallback_level"
            frm_ok = frm[0] == "proj" and frm[2] == 0 and "iter_transitions" in A.show(frm)
            sym_ok = "get_input" in A.show(lvl) and A.contains(lvl, lambda x: x[0] == "proj" and x[1] == frm[1] and x[2] == 1)
            ok = lvl_ok and frm_ok and sym_ok
            why = f"levels[{variant}.fallback_level].entry(source state of the same transition)" if ok else f"level={A.show(lvl)[:50]} from={A.show(frm)[:50]}"
        res.check(ok, rule, f"{rule}:{fq}", why, fn.loc())
        vecs = [n for n in A.walk(fn.body) if n["k"] == "Macro" and P.last(n["name"]) == "vec" and n.get("repeat")]
        ok = len(vecs) == 1 and "max_fallback_level+1" in "".join(repo.text(fn.file, vecs[0]["args"][1]).split())
        res.check(ok, rule, f"{rule}:{fq}:levels", "one table per level 0..=max_fallback_level", fn.loc())
    # get_subwords / get_commands
    fn = repo.fn("dfa::DFA::get_subwords")
    if fn is not None:
        # an id is allocated only for a within-word automaton not seen before (entry(..).or_insert*), counted from the `first_id`
        # parameter, over all transitions of the automaton
        base = next((prm["name"] for prm in fn.params if "usize" in (prm.get("ty") or "")), None)
        dedup = [c for c in A.walk(fn.body) if c["k"] == "MethodCall" and c["method"] in ("or_insert_with", "or_insert") and c["recv"]["k"] == "MethodCall" and c["recv"]["method"] == "entry"]
        uses_base = base is not None and any(x["k"] == "Path" and x["path"] == base for x in A.walk(fn.body))
        whole = any((x["k"] == "Field" and str(x.get("member")) == "transitions") or (x["k"] == "MethodCall" and x["method"] == "iter_transitions") for x in A.walk(fn.body))
        ok = bool(dedup) and uses_base and whole
        res.check(ok, rule, f"{rule}:get_subwords", f"within-word ids: allocated once per distinct automaton (entry().or_insert*: {len(dedup)}), counted from `{base}` ({uses_base}), over all transitions ({whole})", fn.loc())
    fn = repo.fn("dfa::DFA::get_commands")
    if fn is not None:
        ins = list(P.find_calls(fn.body, methods={"insert", "extend"}))
        res.check(len(ins) >= 2 and any(True for _ in P.find_calls(fn.body, methods={"lookup"})), rule, f"{rule}:get_commands", "command set = commands of the main symbols, then of every within-word automaton's symbols", fn.loc())
    # tables::get_lookup_tables: same id map for match and completion tables
    fn = repo.fn("tables::get_lookup_tables")
    if fn is not None:
        envs = A.collect_envs(fn)
        a1 = [c for c in P.find_calls(fn.body, names={"get_match_transitions"})]
        a2 = [c for c in P.find_calls(fn.body, names={"get_completion_transitions"})]
        ok = len(a1) == 1 and len(a2) == 1
        if ok:
            m = [A.resolve(x, envs.get(id(a1[0]))) for x in a1[0]["args"]]
            c = [A.resolve(x, envs.get(id(a2[0]))) for x in a2[0]["args"]]
            # by value, not by position (the two builders may order their parameters differently): the automaton, the literal-id map,
            # the command-id set and the two code flags handed to the completion builder are among what the match builder gets
            common = [x for x in c if x in m]
            idmaps = [x for i, x in enumerate(m) if "get_all_literals" in A.show(x) or "get_all_literals" in A.reach_calls(a1[0]["args"][i], envs.get(id(a1[0])), fn=fn, envs=envs)]
            ok = len(common) >= 5 and any(x in common for x in idmaps)
        res.check(ok, rule, f"{rule}:tables::get_lookup_tables", "match and completion tables are built from the same automaton, the same literal-id map (from get_all_literals), the same command-id set and the same flags", fn.loc())
        sites = [s for s in P.ctor_sites(fn.body, "LookupTables") if s["k"] == "Struct"]
        if sites:
            p = A.resolve(P.ctor_field(sites[0], "all_literals"), envs.get(id(sites[0])))
            res.check("get_all_literals" in A.show(p), rule, f"{rule}:tables::get_lookup_tables:all_literals", "the literal list printed is the list the ids were taken from", fn.loc())
    for fq, ctor, pairs in (("tables::get_match_transitions", "MatchTransitions", (("literal", "get_literal_transitions"), ("command", "get_command_transitions"), ("compadd", "get_compadd_transitions"), ("star", "iter_top_level_star_transitions"))),
                            ("tables::get_completion_transitions", "CompletionTransitions", (("literal", "get_literal_completions"), ("command", "get_command_completions"), ("compadd", "get_completion_compadds")))):
        fn = repo.fn(fq)
        if fn is None:
            res.undecided(rule, f"{rule}:{fq}", "function not found")
            continue
        envs = A.collect_envs(fn)
        sites = [s for s in P.ctor_sites(fn.body, ctor) if s["k"] == "Struct"]
        for fld, getter in pairs:
            ok = False
            if sites:
                fe = P.ctor_field(sites[0], fld)
                p = A.resolve(fe, envs.get(id(sites[0])))
                others = {g for f2, g in pairs if f2 != fld}
                calls = A.reach_calls(fe, envs.get(id(sites[0])))
                # the field's value is computed by its own getter and by no other field's getter (`flag.then(|| getter(..))` hides the call from the term)
                ok = getter in A.show(p) or (getter in calls and not (others & calls))
            res.check(ok, rule, f"{rule}:{fq}:{fld}", f"{ctor}.{fld} <= {getter}(..)", fn.loc())


def literal_ids_premise(repo, res, rule="LITIDS"):
    """The getters of dfa.rs look a symbol's (literal, description) pair up in the id map and `unwrap()` the result: the map must hold
    exactly the pairs the automaton carries.  In tables::get_lookup_tables the list of literals is `dfa.get_all_literals(..)` AS
    RETURNED (no mapping / filtering of its rows on the way into LookupTables.all_literals), and the id map is keyed by components 1 and
    2 of the rows of that same list, valued by component 0."""
    fn = repo.fn("tables::get_lookup_tables")
    if fn is None:
        res.undecided(rule, f"{rule}:tables::get_lookup_tables", "function not found")
        return
    envs = A.collect_envs(fn)
    sites = [s for s in P.ctor_sites(fn.body, "LookupTables") if s["k"] == "Struct"]
    if len(sites) != 1:
        res.undecided(rule, f"{rule}:tables::get_lookup_tables:ctor", f"{len(sites)} LookupTables constructor sites", fn.loc())
        return
    p = P.peel(A.resolve(P.ctor_field(sites[0], "all_literals"), envs.get(id(sites[0]))))
    direct = p[0] == "mcall" and p[1] == "get_all_literals"
    res.check(direct, rule, f"{rule}:all_literals-as-returned", f"LookupTables.all_literals <= {A.show(p)[:90]}" + ("" if direct else ": the rows are rewritten between the automaton and the tables; ids are then looked up under texts the automaton does not carry"), fn.loc())
    # the id map: keys (row.1, row.2), value row.0 of the same list
    ok = False
    why = "no (literal, description) -> id map found"
    for t in A.walk(fn.body):
        if t["k"] == "Tuple" and len(t["elems"]) == 2 and t["elems"][0]["k"] == "Tuple" and len(t["elems"][0]["elems"]) == 2:
            e = envs.get(id(t))
            k1, k2 = [A.resolve(x, e) for x in t["elems"][0]["elems"]]
            v = A.resolve(t["elems"][1], e)
            strip = lambda q: q[1] if q[0] in ("deref", "ref") else q
            k1, k2, v = strip(k1), strip(k2), strip(v)
            if all(q[0] == "proj" and q[1][0] == "elem" for q in (k1, k2, v)) and k1[1] == k2[1] == v[1]:
                src = k1[1][1]
                while src[0] == "mcall" and src[1] in ("iter", "into_iter"):
                    src = src[2]
                while src[0] in ("ref", "deref"):
                    src = src[1]
                ok = (k1[2], k2[2], v[2]) == (1, 2, 0) and P.peel(src) == p
                why = f"id map: ({A.show(k1)[-12:]}, {A.show(k2)[-12:]}) -> {A.show(v)[-12:]} over {A.show(src)[:60]}"
    for c in P.find_calls(fn.body, methods={"insert"}):
        if len(c["args"]) == 2 and c["args"][0]["k"] == "Tuple" and len(c["args"][0]["elems"]) == 2:
            e = envs.get(id(c))
            k1, k2 = [A.resolve(x, e) for x in c["args"][0]["elems"]]
            v = A.resolve(c["args"][1], e)
            strip = lambda q: q[1] if q[0] in ("deref", "ref") else q
            k1, k2, v = strip(k1), strip(k2), strip(v)
            if all(q[0] == "proj" and q[1][0] == "elem" for q in (k1, k2, v)) and k1[1] == k2[1] == v[1]:
                src = k1[1][1]
                while src[0] == "mcall" and src[1] in ("iter", "into_iter"):
                    src = src[2]
                while src[0] in ("ref", "deref"):
                    src = src[1]
                ok = (k1[2], k2[2], v[2]) == (1, 2, 0) and P.peel(src) == p
                why = f"id map filled by insert((row.1, row.2), row.0) over {A.show(src)[:60]}"
    res.check(ok, rule, f"{rule}:id-map-keys-are-the-rows", why, fn.loc())


def allstates(repo, res, rule="ALLSTATES"):
    """The per-state rows an emitter writes itself (the within-word transition table of the main automaton) are written for EVERY
    state: the state handed to `get_*_transitions_from` ranges over `dfa.get_all_states()` with no adaptor and no condition on the
    state in between.  After minimisation state 0 is the start state, not a sink: `!= DEAD_STATE_ID` drops the start state's row; the
    keys of another table are the states that have a literal transition, not all states."""
    from vlib import preds as PR
    n = 0
    for mod in RE.EMITTERS:
        for fn in repo.fns_in(mod):
            calls = [c for c in A.walk(fn.body) if c["k"] == "MethodCall" and re.fullmatch(r"get_\w+_transitions_from", c["method"]) and c["args"]]
            if not calls:
                continue
            envs = A.collect_envs(fn)
            pm = A.parent_map(fn.body)
            for c in calls:
                n += 1
                p = A.resolve(c["args"][0], envs.get(id(c)))
                while p[0] in ("ref", "deref", "cast"):
                    p = p[1]
                src = p[1] if p[0] == "elem" else ("none",)
                via = []
                while src[0] == "mcall" and src[1] != "get_all_states":
                    via.append(src[1])
                    src = src[2]
                from_all = p[0] == "elem" and src[0] == "mcall" and src[1] == "get_all_states" and set(via) <= {"iter", "into_iter", "copied", "cloned"}
                kn = [k for k in PR.known(repo, fn, c, envs, pm) if "get_all_states" in k or "DEAD_STATE_ID" in k]
                ok = from_all and not kn
                res.check(ok, rule, f"{rule}:{fn.qname}:{c['method']}", f"rows of {c['method']} are written for every state of dfa.get_all_states()" if ok else
                          f"rows of {c['method']} are written for {A.show(p)[:90]}" + (f" under {kn}" if kn else "") + ": not every state gets its row, the reader then finds no transition where the automaton has one", f"{fn.file}:{c['l']}")
    res.floor(rule, n, 2)


def isocov(repo, res, rule="ISOCOV"):
    _REPO[0] = repo
    for fq in ("tables::LookupTables::isomorphic_to", "tables::LookupTables::shape_hash"):
        fn = repo.fn(fq)
        if fn is None:
            res.undecided(rule, f"{rule}:{fq}", "function not found")
            continue
        ignored = {}
        for n in A.walk(fn.body):
            if n["k"] == "PStruct" and P.last(n["path"]) in ("MatchTransitions", "CompletionTransitions"):
                for f in n["fields"]:
                    if f["pat"]["k"] == "PWild":
                        ignored.setdefault(P.last(n["path"]), set()).add(f["name"])
                if n["rest"]:
                    ignored.setdefault(P.last(n["path"]), set()).add("..")
        # fields printed by any shell's shape function (write_subword_shape_fn and what it calls)
        printed = {}
        for mod in RE.EMITTERS:
            shape = repo.fn(f"{mod}::write_subword_shape_fn")
            if shape is None:
                # written in place: whatever the script writer (and what it calls) prints of a table set is taken as shared -- a
                # superset of what the shape function printed
                shape = repo.fn(f"{mod}::write_completion_script")
            if shape is None:
                res.undecided(rule, f"{rule}:{mod}:shape-fn", "neither write_subword_shape_fn nor write_completion_script found")
                continue
            callees = [shape]
            for c in P.find_calls(shape.body):
                if c["k"] == "Call":
                    f2 = repo.fn(f"{mod}::{P.last(c['func']['path'])}")
                    if f2 is not None:
                        callees.append(f2)
            tyr = TY.Typer(repo, RE.ROARING_DIMS)
            for f2 in callees:
                envs = A.collect_envs(f2)
                for n in A.walk(f2.body):
                    if n["k"] == "Field":
                        bt = TY.strip(tyr.of(n["base"], envs.get(id(n))))
                        if bt in ("MatchTransitions", "CompletionTransitions"):
                            printed.setdefault(bt, {}).setdefault(n["member"], set()).add(mod)
                    elif n["k"] == "PStruct" and P.last(n["path"]) in ("MatchTransitions", "CompletionTransitions"):
                        # the table set taken apart by a pattern: every field given a name is used
                        for fl_ in n["fields"]:
                            if fl_["pat"]["k"] != "PWild":
                                printed.setdefault(P.last(n["path"]), {}).setdefault(fl_["name"], set()).add(mod)
        is_hash = fq.endswith("shape_hash")
        for st, fields in sorted(printed.items()):
            for f, mods in sorted(fields.items()):
                ig = f in ignored.get(st, set()) or ".." in ignored.get(st, set())
                if is_hash:
                    # the hash only decides which automata end up adjacent before chunk_by; a coarser or finer hash changes how much is
                    # shared, never what a script contains: not a condition of C04, reported as an observation only
                    if ig:
                        res.advisory(f"{fq} ignores {st}.{f} (printed by {sorted(mods)}): automata equal up to it are grouped less often; isomorphic_to decides correctness")
                    continue
                why = f"{st}.{f} is printed by the shape function of {sorted(mods)} and is "
                if ig:
                    res.bad(rule, f"{rule}:{fq}:{st}.{f}", why + "IGNORED here: automata differing only in it would share one table set", fn.loc())
                    continue
                ok, how = compared(fn, st, f)
                res.check(ok, rule, f"{rule}:{fq}:{st}.{f}", why + (f"compared ({how})" if ok else f"bound but never compared: {how}"), fn.loc())
    # grouping: isomorphic_to has the last word
    for mod in RE.EMITTERS:
        fn = repo.fn(f"{mod}::write_completion_script")
        if fn is None:
            continue
        cb = [c for c in P.find_calls(fn.body, methods={"chunk_by"})]
        ok = len(cb) == 1 and cb[0]["args"] and cb[0]["args"][0]["k"] == "Closure"
        why = "one chunk_by with a closure"
        if ok:
            body = cb[0]["args"][0]["body"]
            ok, why = iso_decides(body)
        res.check(ok, rule, f"{rule}:{mod}:chunk_by", f"two within-word automata share a table set only if isomorphic_to says so: {why}", fn.loc())
        srt = [c for c in P.find_calls(fn.body, methods={"sort_by_key", "sort_unstable_by_key"}) if "hash" in repo.text(fn.file, c)]
        if not srt:
            res.advisory(f"{mod}::write_completion_script no longer sorts ids by shape hash before chunk_by: equal shapes need not be adjacent (less sharing, same behaviour)")


def _names_in(n):
    return {x["path"] for x in A.walk(n) if x["k"] == "Path" and "::" not in x["path"]}


_REPO = [None]


def compared(fn, st, f):
    """isomorphic_to: field f of struct st is bound on both sides and the two bindings meet in one ==/!= comparison that comes
    after both patterns and before the names are bound again."""
    pats = sorted((n for n in A.walk(fn.body) if n["k"] == "PStruct" and P.last(n["path"]) == st), key=A.pos)
    if len(pats) != 2:
        # .. or the two values are compared whole, with the comparison the compiler derives (every field takes part)
        sd = _REPO[0].struct(st) if _REPO[0] is not None else None
        if sd is not None and "PartialEq" in (sd.get("derives") or []):
            tyr = TY.Typer(_REPO[0], RE.ROARING_DIMS)
            envs = A.collect_envs(fn)
            for n in A.walk(fn.body):
                if n["k"] == "Binary" and n["op"] in ("==", "!="):
                    lt, rt = TY.strip(tyr.of(n["left"], envs.get(id(n)))), TY.strip(tyr.of(n["right"], envs.get(id(n))))
                    if lt == st and rt == st:
                        return True, f"whole {st} values compared with the derived PartialEq"
        return False, f"{len(pats)} destructurings of {st} (expected one per side)"
    names = []
    for pt in pats:
        for fld in pt["fields"]:
            if fld["name"] == f and fld["pat"]["k"] == "PIdent":
                names.append(fld["pat"]["name"])
    if len(names) != 2:
        return False, f"{st}.{f} is not bound to a name on both sides"
    start = pats[1]["l"]
    later = [n["l"] for n in A.walk(fn.body) if n["k"] == "PStruct" and n["l"] > start and any(fl["pat"]["k"] == "PIdent" and fl["pat"]["name"] in names for fl in n["fields"])]
    end = min(later) if later else 10 ** 9
    for n in A.walk(fn.body):
        if n["k"] == "Binary" and n["op"] in ("!=", "==") and start < n["l"] < end:
            ns = _names_in(n)
            if names[0] in ns and names[1] in ns:
                return True, f"{names[0]} {n['op']} {names[1]}"
    return False, f"no ==/!= between {names[0]} and {names[1]}"


def iso_decides(body):
    """chunk_by closure: its value is the isomorphic_to call (possibly `cond && iso`), and every early return gives false."""
    tail = body
    if body["k"] == "Block":
        st = body["stmts"]
        if not st or st[-1]["k"] != "ExprStmt" or st[-1]["semi"]:
            return False, "the closure has no tail expression"
        tail = st[-1]["expr"]

    locals_ = {}
    for n in A.walk(body):
        if n["k"] == "Local" and n.get("init") is not None and n["pat"].get("k") == "PIdent":
            locals_[n["pat"]["name"]] = n["init"]

    def has_iso(e, depth=0):
        """`e` true implies isomorphic_to(..) was asked and said true (a constant `false` implies anything)"""
        k = e["k"]
        if depth > 8:
            return False
        if k == "MethodCall" and e["method"] == "isomorphic_to":
            return True
        if k == "Lit":
            return str(e.get("v")).lower() == "false"
        if k == "Binary" and e["op"] == "&&":
            return has_iso(e["left"], depth + 1) or has_iso(e["right"], depth + 1)
        if k == "Binary" and e["op"] == "||":
            return has_iso(e["left"], depth + 1) and has_iso(e["right"], depth + 1)
        if k == "Paren":
            return has_iso(e["expr"], depth + 1)
        if k == "Block":
            st_ = e["stmts"]
            return bool(st_) and st_[-1]["k"] == "ExprStmt" and not st_[-1]["semi"] and has_iso(st_[-1]["expr"], depth + 1)
        if k == "If":
            return e.get("else") is not None and has_iso(e["then"], depth + 1) and has_iso(e["else"], depth + 1)
        if k == "Match":
            return bool(e["arms"]) and all(has_iso(a["body"], depth + 1) for a in e["arms"])
        if k == "Path" and e["path"] in locals_:
            return has_iso(locals_[e["path"]], depth + 1)
        return False

    if not has_iso(tail):
        return False, "the closure's value is not the isomorphic_to(..) result"
    for n in A.walk(body):
        if n["k"] == "Return":
            e = n.get("expr")
            if not (e and e["k"] == "Lit" and str(e.get("v")).lower() == "false"):
                return False, f"early `return` at line {n['l']} that is not `return false`"
    return True, "value = isomorphic_to(..), early returns are all `false`"


DEF_RE = {
    "bash": r"(?m)^[ \t]*((?:_|H__)[A-Za-z0-9_]*)[ \t]*\(\)[ \t]*\{",
    "zsh": r"(?m)^[ \t]*((?:_|H__)[A-Za-z0-9_]*)[ \t]*\(\)[ \t]*\{",
    "fish": r"(?m)^[ \t]*function[ \t]+((?:_|H__)[A-Za-z0-9_]*)",
    "pwsh": r"(?m)^[ \t]*function[ \t]+((?:_|H__)[A-Za-z0-9_]*)",
}
REG_RE = {
    "bash": r"complete -o nospace -F (_H__command__H) H__command__H",
    "zsh": r"compdef (_H__command__H) H__command__H",
    "fish": r'complete --command H__command__H .*--arguments "\((_H__command__H)\)"',
    "pwsh": r"Register-ArgumentCompleter -Native -CommandName 'H__command__H' -ScriptBlock",
}


def names_rule(repo, res, rule="NAMES"):
    for mod in RE.EMITTERS:
        fq = f"{mod}::write_completion_script"
        fn = repo.fn(fq)
        if fn is None:
            res.undecided(rule, f"{rule}:{mod}", "write_completion_script not found")
            continue
        flags = {n: True for n, _ in E.flag_names(repo, fn)}
        text, origin, asm = E.assemble(repo, fq, flags)
        import collections
        defcount = collections.Counter(re.findall(DEF_RE[mod], text))
        defs = {d for d in defcount if d.startswith("_H__command__H") or d.startswith("H__MATCH_FN_NAME")}
        tok = re.compile(r"(?<![A-Za-z0-9_$])((?:_H__command__H|H__MATCH_FN_NAME__H)[A-Za-z0-9_]*)")
        uses = set(tok.findall(text))
        res.engines.setdefault("K", {})[f"{mod}_skeleton_lines"] = len(text.splitlines())

        def matches(u, d):
            if u == d:
                return True
            # dynamic suffix: `_cmd_$id` / `_subword_"${id}"` against `_cmd_H__id__H`
            return u.endswith("_") and d.startswith(u) and re.fullmatch(r"H__\w+__H", d[len(u):]) is not None

        for d in sorted(defs):
            used = [u for u in uses if matches(u, d)]
            # a use is any occurrence beyond the definition itself
            n_occ = len(re.findall(re.escape(d) + r"(?![A-Za-z0-9_])", text))
            dyn = [u for u in uses if u != d and matches(u, d)]
            ok = n_occ > defcount[d] or bool(dyn)
            res.check(ok, rule, f"{rule}:{mod}:defined:{d}", f"function family {d} is defined and " + ("called" if ok else "never called (dead or misnamed)"), fn.loc())
        for u in sorted(uses):
            ok = any(matches(u, d) for d in defs)
            res.check(ok, rule, f"{rule}:{mod}:called:{u}", f"{u} is called/registered and " + ("defined" if ok else "NOT defined under that name"), fn.loc())
        m = re.search(REG_RE[mod], text)
        if mod == "pwsh":
            res.check(bool(m), rule, f"{rule}:{mod}:registration", "Register-ArgumentCompleter names the grammar's command", fn.loc())
        else:
            res.check(bool(m) and m.group(1) in defs, rule, f"{rule}:{mod}:registration", f"registration line names the command and the defined entry function {m.group(1) if m else None}", fn.loc())
        if mod == "zsh":
            res.check("#compdef H__command__H" in text, rule, f"{rule}:zsh:compdef-header", "#compdef header names the command", fn.loc())
        # the body of every _cmd_ function is the command text
        cm = re.search(r"_H__command__H_cmd_H__id__H[^\n]*\n[ \t]*(H__\w+__H)[ \t]*\n", text)
        # ... whatever the hole is called, its value derives from an element of the one command set (dfa.get_commands())
        body_ok = False
        from vlib import templates as TM_
        envs_ = A.collect_envs(fn)
        hole_name = cm.group(1)[3:-3] if cm else None
        for s_ in TM_.fmt_sites(fn, envs_):
            if "_cmd_" in s_.template and hole_name:
                for idx_, nm_, e_ in s_.holes:
                    if (nm_ or "") == hole_name or (e_ is not None and e_.get("k") == "Path" and e_.get("path") == hole_name):
                        calls_ = A.reach_calls(e_, envs_.get(id(e_)) or s_.env, fn=fn, envs=envs_)
                        body_ok = body_ok or "get_commands" in calls_
        res.check(bool(cm) and body_ok, rule, f"{rule}:{mod}:cmd-body", f"body of _<cmd>_cmd_<id> is the hole {cm.group(1) if cm else None}, fed from the command set", fn.loc())
        # the command named on the registration line is the function's own `command` parameter, as given (a sanitised or otherwise
        # derived name registers the completion for a command nobody types)
        KEY = {"bash": "complete ", "fish": "complete --command", "zsh": "#compdef", "pwsh": "Register-ArgumentCompleter"}[mod]
        reg_ok, reg_n = True, 0
        for s_ in TM_.fmt_sites(fn, envs_):
            if KEY not in s_.template:
                continue
            for idx_, nm_, e_ in s_.holes:
                before = "".join((p_[1] if p_[0] == "lit" else "\x00") for p_ in s_.pieces[:idx_])
                line = before.rsplit("\n", 1)[-1]
                if KEY.strip() not in line or e_ is None:
                    continue
                # only the hole that stands for the command itself (not the `_<command>` function name right after `-F _` / `(_`)
                if line.endswith("_"):
                    continue
                reg_n += 1
                pv = P.peel(A.resolve(e_, envs_.get(id(e_)) or s_.env))
                reg_ok = reg_ok and pv[0] == "param"
        res.check(reg_ok and reg_n >= 1, rule, f"{rule}:{mod}:registration-names-the-parameter", f"{reg_n} registration hole(s) for the command name, each the `command` parameter itself" if reg_ok else "the registration line names a value DERIVED from the command parameter, not the command as the user types it", fn.loc())


def cmd_set_name(repo, fn, envs):
    """the local that holds the one command-id set: what is passed as the second argument of get_lookup_tables (a local bound to
    dfa.get_commands())"""
    for c in P.find_calls(fn.body, names={"get_lookup_tables"}):
        a = c["args"][1] if len(c["args"]) > 1 else None
        while a is not None and a["k"] in ("Ref", "Unary"):
            a = a["expr"]
        if a is not None and a["k"] == "Path" and "::" not in a["path"]:
            return a["path"]
    return None


def shared_cmd_ids(repo, res, rule="FLAGS"):
    for mod in RE.EMITTERS:
        fn = repo.fn(f"{mod}::write_completion_script")
        if fn is None:
            continue
        envs = A.collect_envs(fn)
        calls = list(P.find_calls(fn.body, names={"get_lookup_tables"}))
        ids = [A.resolve(c["args"][1], envs.get(id(c))) for c in calls]
        ok = len(calls) == 2 and ids[0] == ids[1] and "get_commands" in A.show(ids[0])
        res.check(ok, rule, f"{rule}:{mod}:one-command-id-set", "main and within-word tables number commands from the same dfa.get_commands()", fn.loc())
        # the _cmd_ functions are numbered from that same set
        setname = cmd_set_name(repo, fn, envs)
        loops = [n for n in A.walk(fn.body) if n["k"] == "ForLoop" and setname and re.search(r"\b%s\b" % re.escape(setname), repo.text(fn.file, n["iter"]))]
        res.check(len(loops) >= 1, rule, f"{rule}:{mod}:cmd-functions-from-same-set", "_cmd_<id> functions are emitted by iterating that set", fn.loc())
        # flags: the table flag equals the code flag
        for c in calls:
            env = envs.get(id(c))
            # flags are told apart by the DFA method they were read from (provenance), not by the name of the local holding them
            def flag(x, env=env):
                p = P.peel(A.resolve(x, env))
                return p[1] if p[0] == "mcall" else "".join(repo.text(fn.file, x).split())
            a = [flag(x) if i >= 3 else A.show(A.resolve(x, env)) for i, x in enumerate(c["args"])]
            sub = ".subdfas" in a[0] or "lookup(" in a[0] or "subword" in a[3]
            want_cmd = "needs_subword_commands_code" if sub else "needs_top_level_commands_code"
            want_star = "needs_subword_star_code" if sub else "needs_top_level_star_code"
            ok = a[3] == want_cmd and a[5] == want_star
            if mod == "zsh":
                ok = ok and a[4] == ("needs_subword_compadds_code" if sub else "needs_top_level_compadds_code")
            res.check(ok, rule, f"{rule}:{mod}:{'subword' if sub else 'main'}-table-flags", f"get_lookup_tables(.., {a[3]}, {a[4]}, {a[5]})", f"{fn.file}:{c['l']}")
        sw = [c for c in P.find_calls(fn.body, names={"write_subword_fn"})]
        if sw:
            esw = envs.get(id(sw[0]))
            a = []

            def mcalls(t):
                if isinstance(t, tuple):
                    if t and t[0] == "mcall":
                        yield t[1]
                    for y in t:
                        yield from mcalls(y)
            for x in sw[0]["args"]:
                t = A.resolve(x, esw)
                p = P.peel(t)
                # a flag may travel alone or as a field of a small struct built for the call
                a.extend([p[1]] if p[0] == "mcall" else (sorted(set(mcalls(t))) or ["".join(repo.text(fn.file, x).split())]))
            res.check("needs_subword_commands_code" in a and "needs_subword_star_code" in a, rule, f"{rule}:{mod}:subword-code-flags", f"write_subword_fn({', '.join(a[1:])})", f"{fn.file}:{sw[0]['l']}")


def descrlink(repo, res, ty, rule="DESCRLINK"):
    """`the description attached to each literal`: fish and zsh print the distinct descriptions as a table indexed by their
    position in a de-duplicating set, and a second table literal id -> description id.  Both ids must be computed by
    `<that set>.get_index_of(..)`: the table line's own index, and the id stored next to a literal.  An id computed any other
    way (a running counter, a position in all_literals) points at another literal's description as soon as two literals share
    one.  pwsh prints `id = "description"` rows: id and text must come from the same all_literals row (ROLE covers bash-like
    cells; here the row is checked by provenance)."""
    from vlib import taint as T, templates as TM

    want = {"fish": 3, "zsh": 2}  # holes that derive from <set>.get_index_of, counted by reading (fish: table index, descr_literal_ids, descr_ids; zsh: table index, descr_id_from_literal_id)
    for mod, floor in want.items():
        fn = repo.fn(f"{mod}::write_literals")
        if fn is None:
            res.undecided(rule, f"{rule}:{mod}::write_literals", "function not found")
            continue
        envs = A.collect_envs(fn)
        by_set = {}
        counters = []
        for s in TM.fmt_sites(fn, envs):
            if s.macro not in ("write", "writeln"):
                continue
            for idx, nm, e in s.holes:
                env = envs.get(id(e)) or s.env
                seen = []

                def probe(f, n):
                    if n["k"] == "MethodCall" and n["method"] in ("get_index_of", "enumerate", "position"):
                        r = n["recv"]
                        while r["k"] in ("Ref", "Unary", "Paren") or (r["k"] == "MethodCall" and r["method"] in ("iter", "into_iter") and not r["args"]):
                            r = r["expr"] if r["k"] != "MethodCall" else r["recv"]
                        seen.append((n["method"], r.get("path") if r["k"] == "Path" else "<expr>"))

                T.Taint(repo, ty, set(), scalars_clean=False, probe=probe).raw(fn, e, env)
                what = RE.hole_text(repo, fn, e)
                for m, recv in set(seen):
                    if m == "get_index_of":
                        by_set.setdefault(recv, []).append(what)
                    else:
                        counters.append((what, m, recv))
        sets = sorted(by_set)
        # enumerating the de-duplicating set itself yields exactly its indices: the same id as <set>.get_index_of(element)
        if len(sets) == 1:
            own = [(w, m) for w, m, recv in counters if m == "enumerate" and recv == sets[0]]
            for w, m in own:
                by_set[sets[0]].append(w)
            counters = [c for c in counters if not (c[1] == "enumerate" and c[2] == sets[0])]
        counters = [(w, m) for w, m, _ in counters]
        ok = len(sets) == 1 and len(by_set[sets[0]]) >= floor and not counters
        why = f"ids derived from {sets[0]}.get_index_of: {by_set[sets[0]]}" if len(sets) == 1 else f"description ids come from {len(sets)} different lookups: {by_set}"
        if counters:
            why += f"; ids derived from a running position instead of the description's index: {counters}"
        if len(sets) == 1 and len(by_set[sets[0]]) < floor:
            why += f" -- only {len(by_set[sets[0]])} of the {floor} confirmed id holes are computed by that lookup"
        res.check(ok, rule, f"{rule}:{mod}::write_literals", why, fn.loc())
    fn = repo.fn("pwsh::write_literals")
    if fn is None:
        res.undecided(rule, f"{rule}:pwsh::write_literals", "function not found")
    else:
        envs = A.collect_envs(fn)
        ok = False
        why = "no `id = text` row found"
        for n in A.walk(fn.body):
            if n["k"] == "Macro" and n["name"].split("::")[-1] == "format":
                s = TM.fmt_site(n, envs.get(id(n)))
                if s is None or len(s.holes) != 2 or "=" not in s.template:
                    continue
                p0 = A.show(A.resolve(s.holes[0][2], envs.get(id(s.holes[0][2])) or s.env))
                p1 = A.show(A.resolve(s.holes[1][2], envs.get(id(s.holes[1][2])) or s.env))
                m0 = re.fullmatch(r"(elem\[.*\])\.0", p0)
                m1 = re.fullmatch(r"\w+\((elem\[.*\])\.2\)", p1)
                ok = bool(m0 and m1 and m0.group(1) == m1.group(1))
                why = f"row `{s.template.strip()}`: key <= {p0[:60]}, text <= {p1[:70]}"
        res.check(ok, rule, f"{rule}:pwsh::write_literals", why + ("" if ok else " -- id and description must be fields .0 and .2 of the same all_literals row"), fn.loc())


REORDER_OR_DROP = {"unique", "unique_by", "dedup", "dedup_by", "dedup_by_key", "filter", "filter_map", "sorted", "sorted_by", "sorted_by_key", "sort", "sort_by", "sort_by_key", "sort_unstable", "rev", "skip", "skip_while",
                   "take", "take_while", "step_by", "retain", "chain", "flat_map", "flatten", "zip", "cycle", "rotate_left", "rotate_right", "reverse", "swap"}


def accumulated_list(repo, fn, hole):
    """the hole is a local String that a `for` loop fills: returns (ok, text) -- ok when exactly one loop appends to it, the loop runs
    over an un-reordered, un-filtered iterator, has no continue/break/return, and the append that carries the loop's element stands
    directly in the loop body (not under a condition); None when the hole is not such an accumulator"""
    h = hole
    while h.get("k") in ("Ref", "Paren"):
        h = h["expr"]
    if h.get("k") != "Path" or "::" in h["path"]:
        return None
    name = h["path"]
    loops = []
    for lp in A.walk(fn.body):
        if lp["k"] != "ForLoop":
            continue
        apps = [m for m in A.walk(lp["body"]) if (m["k"] == "MethodCall" and m["method"] in ("push_str", "push", "extend", "write_str", "write_fmt") and m["recv"].get("k") in ("Path",) and m["recv"]["path"] == name)
                or (m["k"] == "Macro" and m.get("name") in ("write", "writeln") and "".join(repo.text(fn.file, m).split()).split("(", 1)[-1].startswith((name + ",", "&mut" + name + ",")))]
        if apps:
            loops.append((lp, apps))
    if not loops:
        return None
    if len(loops) != 1:
        return False, f"`{name}` is filled by {len(loops)} loops: cannot tell which one lists the literals"
    lp, apps = loops[0]
    binds = set(A.pattern_names(lp["pat"])) if hasattr(A, "pattern_names") else set(re.findall(r"[a-z_][a-z0-9_]*", repo.text(fn.file, lp["pat"])))
    meths = {m["method"] for m in A.walk(lp["iter"]) if m["k"] == "MethodCall"}
    bad = sorted(meths & REORDER_OR_DROP)
    if bad:
        return False, f"literal list filled by a loop over an iterator through {sorted(meths)}: {bad} drops, merges or reorders elements, so position i no longer holds the literal the tables call i"
    jumps = [x["k"] for x in A.walk(lp["body"]) if x["k"] in ("Continue", "Break", "Return")]
    if jumps:
        return False, f"the loop that fills the literal list has {jumps}: some elements may be left out, so positions shift"
    body = lp["body"]
    direct = [st for st in body.get("stmts", []) if any(a is st.get("expr") or a is st for a in apps) or (st.get("k") == "ExprStmt" and st["expr"].get("k") == "Try" and any(a is st["expr"]["expr"] for a in apps))]
    carrying = [st for st in direct if binds & set(re.findall(r"[a-z_][a-z0-9_]*", repo.text(fn.file, st)))]
    if not carrying:
        return False, "the append that carries the loop's element is under a condition (or not found directly in the loop body): an element may be left out"
    return True, f"literal list filled by one loop over {sorted(meths)} with an unconditional append per element"


def litlist(repo, res, ty, rule="LITLIST"):
    """The `literals` array of every shell is positional: table cells refer to a literal by its id = its position (+ the array
    base) in get_all_literals().  The list an emitter prints must therefore be that list element for element: on the way from
    `all_literals` to the hole that carries the literal text through the encoder, no adaptor may drop, merge or reorder elements."""
    from vlib import taint as T, templates as TM

    for mod in RE.EMITTERS:
        fn = repo.fn(f"{mod}::write_literals")
        if fn is None:
            res.undecided(rule, f"{rule}:{mod}::write_literals", "function not found")
            continue
        envs = A.collect_envs(fn)
        anyt = T.Taint(repo, ty, set())
        found = False
        for s in TM.fmt_sites(fn, envs):
            if s.macro not in ("write", "writeln"):
                continue
            for idx, nm, e in s.holes:
                env = envs.get(id(e)) or s.env
                seen = []

                def probe(f, n):
                    if n["k"] == "MethodCall":
                        seen.append(n["method"])

                pr = T.Taint(repo, ty, set(), scalars_clean=False, probe=probe)
                raw = pr.raw(fn, e, env)
                acc = accumulated_list(repo, fn, e) if raw and "join" not in seen else None
                if acc is not None:
                    # `join` written out: a String filled by a loop over the list, one unconditional append of the element's text per turn
                    if found:
                        continue
                    found = True
                    ok_, why_ = acc
                    res.check(ok_, rule, f"{rule}:{mod}::write_literals", why_, f"{fn.file}:{s.node['l']}")
                    continue
                if not raw or "join" not in seen:
                    continue
                # the positional list: the first text-carrying joined hole of write_literals
                if found:
                    continue
                found = True
                bad = sorted(set(seen) & REORDER_OR_DROP)
                res.check(not bad, rule, f"{rule}:{mod}::write_literals", f"literal list built through {sorted(set(seen))}" + ("" if not bad else f": {bad} drops, merges or reorders elements, so position i no longer holds the literal the tables call i"), f"{fn.file}:{s.node['l']}")
        if not found:
            res.undecided(rule, f"{rule}:{mod}::write_literals", "no joined text hole found (cannot identify the literal list)")


def perlevel_rule(repo, res, rule="PERLEVEL"):
    """A table getter that answers per `||` level builds `vec![<empty>; max + 1]`: one slot per level, empty or not, because the
    emitters write (and the shared within-word matcher reads) `<name>_level_<i>` for every i up to the automaton's maximum -- a slot
    that is missing is a table that is never declared, and the matcher then reads the caller's table of the same name (bash locals are
    dynamically scoped, fish tables are globals).  The vector's own length is therefore never changed after it is made."""
    changers = {"pop", "truncate", "retain", "retain_mut", "remove", "swap_remove", "drain", "clear", "dedup", "dedup_by", "dedup_by_key", "split_off", "push", "insert", "resize", "resize_with", "extend", "append", "shrink_to"}
    n = 0
    for fn in repo.fns_in("dfa"):
        for st in A.walk(fn.body):
            if st["k"] != "Local" or not isinstance(st.get("init"), dict) or st["init"].get("k") != "Macro" or st["init"].get("name") != "vec" or not st["init"].get("repeat"):
                continue
            a = st["init"].get("args") or []
            if len(a) != 2 or a[1].get("k") != "Binary" or a[1].get("op") != "+" or a[1]["right"].get("v") != "1" or a[1]["left"].get("k") != "Path":
                continue
            lvl = a[1]["left"]["path"]
            if lvl not in [p["name"] for p in fn.params]:
                continue
            pat = st["pat"]["pat"] if st["pat"].get("k") == "PType" else st["pat"]
            if pat.get("k") != "PIdent":
                continue
            name = pat["name"]
            n += 1
            bad = [m for m in A.walk(fn.body) if m["k"] == "MethodCall" and m["method"] in changers and m["recv"].get("k") == "Path" and m["recv"]["path"] == name]
            res.check(not bad, rule, f"{rule}:{fn.qname}", f"`{name}` = one slot per level 0..={lvl}, length never changed" if not bad else
                      f"`{name}.{bad[0]['method']}(..)` changes the number of level slots after `vec![..; {lvl} + 1]`: a level without a slot is a table no wrapper declares", f"{fn.file}:{(bad[0] if bad else st)['l']}")
    res.floor(rule, n, 3)


def run(repo, res, tier):
    ty = typer(repo)
    litlist(repo, res, ty)
    perlevel_rule(repo, res)
    from vlib import rules_declguard as DG
    # a wrapper that declares a table only when it has entries leaves the script's reader looking at a table that is not there (bash,
    # zsh: at the caller's table of the same name)
    n_sk = DG.declguard_rule(repo, res, modules=("bash", "zsh", "fish"), advisory_modules=("pwsh",))
    res.floor("DECLGUARD", n_sk, 12)
    from vlib import rules_fieldcover as FC
    # the one command-id set holds the command of EVERY symbol that has one, top-level and within-word (ids are looked up in it later)
    FC.fieldcover(repo, res, "dfa::DFA::get_commands", "Inp", "cmd", "call:insert", min_matches=2)
    descrlink(repo, res, ty)
    allstates(repo, res)
    literal_ids_premise(repo, res)
    # `the description attached to each literal` is embedded as that text only if it goes through the module's string-constant encoder
    # (a description printed raw between quotes is a different text as soon as it contains a quote, `$` or a backslash): shared with C07
    from . import c07
    c07.sink_rule(repo, res, ty)
    c07.enc_rule(repo, res, tier=tier)  # .. and the encoder itself maps the text to a constant that the shell reads back as that text (ENC, shared with C07)
    tot_s = tot_i = 0
    for mod in RE.EMITTERS:
        base = RE.module_base(repo, mod)
        if base is None:
            res.undecided("DIM", f"DIM:{mod}:ARRAY_START", "constant not found")
            continue
        want = {"bash": 0, "fish": 1, "zsh": 1, "pwsh": 0}[mod]
        res.check(base == want, "DIM", f"DIM:{mod}:ARRAY_START", f"{mod}::ARRAY_START = {base} (arrays of this shell start at {want})", f"src/{mod}.rs")
        s, i = RE.dim_rule(repo, res, mod, ty, base)
        tot_s += s
        tot_i += i
        RE.role_rule(repo, res, mod, ty)
        RE.argbase_rule(repo, res, mod)
    res.engines["S"]["state_holes"] = tot_s
    res.engines["S"]["id_holes"] = tot_i
    ff_getters(repo, res, ty)
    isocov(repo, res)
    names_rule(repo, res)
    shared_cmd_ids(repo, res)
    res.floor("DIM", res.count("DIM"), 52)  # 96 on the unchanged tree; a little room for a table that is legitimately dropped
    res.floor("ROLE", res.count("ROLE"), 11)
    res.floor("ARGBASE", res.count("ARGBASE"), 6)
    res.floor("FF", res.count("FF"), 17)
    res.floor("ISOCOV", res.count("ISOCOV"), 6)  # 8 printed fields x isomorphic_to + 4 chunk_by closures
    res.floor("NAMES", res.count("NAMES"), 32)
    res.floor("FLAGS", res.count("FLAGS"), 11)
