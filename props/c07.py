"""C07 -- text taken from the grammar reaches the shell verbatim and inert."""
from vlib import ast as A, prov as P, types as TY, xducer as X
from vlib import rules_emit as RE

LEVEL = "other"
EXPLANATION = (
    "Decided on /repo's current source: ENC (for each of the four make_string_constant encoders -- extracted on every run as a chain of char->string replacements, i.e. a homomorphism -- the composition "
    "decode_shell(quote + encode(s) + quote) = s is decided for ALL strings s by exploring the product of the encoder's per-character images with a transducer transcribing that shell's double-quote rules, "
    "including: the constant is closed exactly at its end (no dangling escape), no unescaped expansion character reaches the shell), "
    "TEXT/SINK (every format hole whose inferred type is grammar text -- Ustr and what is derived from it without an encoder -- is reported unless it is the documented raw command body; every literal / description table is fed "
    "through the module's encoder), SK-QUOTE (bash: in every `[[ a == b ]]` / `[[ a = b ]]` of the assembled skeleton an operand on the right that holds grammar text, command output or a typed word is double-quoted, "
    "otherwise it is a glob pattern; eval receives only id data). "
    "NOT decided: that real shells implement their manuals; candidates actually shown by readline."
)
ASSUMPTIONS = [
    "decoder transcriptions in vlib/xducer.py (bash/zsh/fish/PowerShell double-quote rules from their manuals) are the trusted base",
    "PowerShell also treats U+201C/U+201D/U+201E as double quotes: outside the checked alphabet, reported as an advisory",
]

TEXT_ALLOW = {
    ("bash::write_completion_script", "cmd"): "body of _<cmd>_cmd_<id>: the command text is shell code by design",
    ("fish::write_completion_script", "cmd"): "body of _<cmd>_cmd_<id>: the command text is shell code by design",
    ("zsh::write_completion_script", "cmd"): "body of _<cmd>_cmd_<id>: the command text is shell code by design",
    ("pwsh::write_completion_script", "cmd"): "body of _<cmd>_cmd_<id>: the command text is shell code by design",
}


def enc_rule(repo, res, rule="ENC"):
    for mod in RE.EMITTERS:
        fq = f"{mod}::make_string_constant"
        fn = repo.fn(fq)
        if fn is None:
            res.undecided(rule, f"{rule}:{fq}", "encoder not found")
            continue
        ch = X.extract_chain(fn)
        if ch is None:
            res.undecided(rule, f"{rule}:{fq}", "encoder is not a recognisable replace chain (cannot decide)", fn.loc())
            continue
        prefix, suffix, chain = ch
        ok, cex, stats = X.check(chain, prefix, suffix, mod, identity=True)
        desc = " -> ".join(f"{a!r}=>{b!r}" for a, b in chain)
        if ok:
            res.ok(rule, f"{rule}:{fq}", f"for all strings: {mod} reads {prefix}{{{desc}}}{suffix} back as the original text, closed and inert ({stats['states']} product states, {stats['edges']} transitions, alphabet of {stats['alphabet']} classes)", fn.loc())
        else:
            res.bad(rule, f"{rule}:{fq}", f"chain {desc}: input {cex.get('input')!r} is emitted as {cex.get('encoded')!r}: {cex['why']}", fn.loc())
    if "pwsh" in RE.EMITTERS:
        res.advisory("PowerShell accepts U+201C/U+201D/U+201E as string delimiters; the description syntax admits them and pwsh::make_string_constant does not escape them (outside C07's checked alphabet)")


def sink_rule(repo, res, ty, rule="SINK"):
    """literal / description tables are fed through the encoder"""
    for mod in RE.EMITTERS:
        n = 0
        for fn in repo.fns_in(mod):
            envs = A.collect_envs(fn)
            for c in P.find_calls(fn.body, names={"make_string_constant"}):
                a = c["args"][0]
                t = ty.of(a, envs.get(id(c)))
                n += 1
        res.check(n >= 1, rule, f"{rule}:{mod}:encoder-used", f"{n} make_string_constant call sites in {mod}", f"src/{mod}.rs")
        # the `literals` table
        wl = repo.fn(f"{mod}::write_literals")
        if wl is None:
            res.undecided(rule, f"{rule}:{mod}:write_literals", "function not found")
            continue
        envs = A.collect_envs(wl)
        enc = [c for c in P.find_calls(wl.body, names={"make_string_constant"})]
        lit_ok = False
        descr_ok = mod == "bash"  # bash prints no descriptions
        for c in enc:
            p = A.resolve(c["args"][0], envs.get(id(c)))
            s = A.show(p)
            t = TY.strip(ty.of(c["args"][0], envs.get(id(c))))
            if t == "Ustr":
                if ".1" in s or "literals" in s:
                    lit_ok = lit_ok or (".1" in s) or mod == "bash"
                if ".2" in s or "descr" in s:
                    descr_ok = True
        res.check(lit_ok, rule, f"{rule}:{mod}:literals-encoded", "every element of the literals table goes through make_string_constant", wl.loc())
        res.check(descr_ok, rule, f"{rule}:{mod}:descriptions-encoded", "every description goes through make_string_constant" if mod != "bash" else "bash emits no descriptions", wl.loc())


def run(repo, res, tier):
    ty = TY.Typer(repo, RE.ROARING_DIMS)
    enc_rule(repo, res)
    n = 0
    for mod in RE.EMITTERS:
        n += RE.text_rule(repo, res, mod, ty, TEXT_ALLOW)
    sink_rule(repo, res, ty)
    from . import sk_bash
    sk_bash.quote_rule(repo, res, tier)
    res.floor("ENC", res.count("ENC"), 4)
    res.floor("TEXT", n, 3)
    res.floor("SINK", res.count("SINK"), 12)
