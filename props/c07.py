"""C07 -- text taken from the grammar reaches the shell verbatim and inert."""
import re
from vlib import ast as A, prov as P, types as TY, xducer as X
from vlib import rules_emit as RE

LEVEL = "other"
EXPLANATION = (
    "Decided on /repo's current source: ENC (for each of the four make_string_constant encoders -- extracted on every run as a chain of char->string replacements, i.e. a homomorphism -- the composition "
    "decode_shell(quote + encode(s) + quote) = s is decided for ALL strings s by exploring the product of the encoder's per-character images with a transducer transcribing that shell's double-quote rules, "
    "including: the constant is closed exactly at its end (no dangling escape), no unescaped expansion character reaches the shell), "
    "SINK (for every hole that any of the four emitters writes into a script, a raw-text taint analysis over the syntax tree -- through let bindings, iterator chains and closures, format! arguments, String buffers, "
    "helper parameters back to their call sites -- shows that grammar text (Ustr and what is derived from it) reaches the hole only through the module's make_string_constant, except the documented raw command body; each module "
    "really prints its literal (and description) tables through the encoder; an encoded hole sits outside double quotes in its template), "
    "SK-QUOTE (bash, on the parsed skeleton of every flag assignment examined, with a text/clean dimension inferred for every shell variable by def-use: the right operand of every [[ = ]] / [[ == ]] / [[ != ]] expands text only inside "
    "double quotes, otherwise it is a glob pattern -- the printf %q prefix idiom is recognised structurally; eval expands only clean values at its first level; no command argument, array element or for-list word expands a text "
    "variable unquoted). "
    "NOT decided: that real shells implement their manuals; candidates actually shown by readline."
    " POSTENC: a String that holds encoder output is handed on whole (never split into lines, trimmed or replaced in) on its way to the script."
)
ASSUMPTIONS = [
    "decoder transcriptions in vlib/xducer.py (bash/zsh/fish/PowerShell double-quote rules from their manuals) are the trusted base",
    "PowerShell also treats U+201C/U+201D/U+201E as double quotes: outside the checked alphabet, reported as an advisory",
]

def _is_cmd_body(site, idx):
    """the hole is, alone on its line, the whole body of the function `_<command>_cmd_<id>` that the same template defines (the
    one place where grammar text is shell code by design) -- recognised by the template, not by what the Rust local is called"""
    before = "".join(("\x00" if p[0] == "hole" else p[1]) for p in site.pieces[:idx])
    after = "".join(("\x00" if p[0] == "hole" else p[1]) for p in site.pieces[idx + 1:])
    head = before.rsplit("\n", 2)
    if len(head) < 2 or head[-1].strip() != "":
        return False
    opener = head[-2].strip()
    if not re.fullmatch(r"(function )?_\x00_cmd_\x00( \(\))?( \{)?", opener):
        return False
    return after.startswith("\n") and after[1:].lstrip().split("\n")[0].strip() in ("}", "end")


TEXT_ALLOW = {}  # no exemption by (function, local name): the one exempt hole is recognised by its template (_is_cmd_body)


def enc_rule(repo, res, rule="ENC", tier="quick", shells=None):
    for mod in RE.EMITTERS:
        if shells is not None and mod not in shells:
            continue
        encs = X.find_encoders(repo, mod)
        fq = f"{mod}::make_string_constant"
        if len(encs) != 1:
            # fall back on the historical name: a function of that name whose shape is not a quoted replace chain is reported as undecidable
            fn = repo.fn(fq)
            if fn is None:
                res.undecided(rule, f"{rule}:{fq}", f"{len(encs)} functions of {mod} have the shape of a string-constant encoder (cannot pick one)")
                continue
        else:
            fn = encs[0]
        ch = X.extract_encoder(fn)
        if ch is None:
            res.undecided(rule, f"{rule}:{fq}", "encoder is neither a replace chain nor a per-character loop of the recognised form (cannot decide)", fn.loc())
            continue
        prefix, suffix, chain = ch
        ok, cex, stats = X.check(chain, prefix, suffix, mod, identity=True, alphabet=X.THOROUGH_ALPHABET if tier == "thorough" else None)
        desc = " -> ".join(f"{a!r}=>{b!r}" for a, b in chain)
        if ok:
            res.ok(rule, f"{rule}:{fq}", f"for all strings: {mod} reads {prefix}{{{desc}}}{suffix} back as the original text, closed and inert ({stats['states']} product states, {stats['edges']} transitions, alphabet of {stats['alphabet']} classes)", fn.loc())
        else:
            res.bad(rule, f"{rule}:{fq}", f"chain {desc}: input {cex.get('input')!r} is emitted as {cex.get('encoded')!r}: {cex['why']}", fn.loc())
    if "pwsh" in RE.EMITTERS and (shells is None or "pwsh" in shells):
        res.advisory("PowerShell accepts U+201C/U+201D/U+201E as string delimiters; the description syntax admits them and pwsh::make_string_constant does not escape them (outside C07's checked alphabet)")


def sink_rule(repo, res, ty, rule="SINK"):
    """Every hole written into a script by an emitter is examined by the raw-text taint analysis (vlib/taint.py): grammar text
    (Ustr and what is derived from it) may reach a hole only through the module's make_string_constant, except where tabled
    (the body of _<cmd>_cmd_<id>).  USED: each module prints at least the tabled number of text-bearing holes through its
    encoder (the literals table, and the descriptions table where the shell shows descriptions).  QCTX: the encoder adds its
    own double quotes, so a hole fed by it must sit outside double quotes in its template."""
    from vlib import taint as T

    enc_names = {"make_string_constant"} | {f.name for mod in RE.EMITTERS for f in X.find_encoders(repo, mod)}
    enc = T.Taint(repo, ty, enc_names)
    anyt = T.Taint(repo, ty, set())
    floors = {"bash": 1, "fish": 2, "zsh": 2, "pwsh": 2}
    n = 0
    for mod in RE.EMITTERS:
        used = 0
        seq = {}
        for fn, s, idx, nm, e, t, env in RE.all_holes(repo, mod, ty):
            if s.macro not in ("write", "writeln") or fn.name in enc_names:
                continue
            n += 1
            what = RE.hole_text(repo, fn, e)
            k = (fn.qname, what)
            seq[k] = seq.get(k, 0) + 1
            key = f"{rule}:{fn.qname}:{what}" + (f"#{seq[k]}" if seq[k] > 1 else "")
            loc = f"{fn.file}:{s.node['l']}"
            raw = sorted(set(enc.raw(fn, e, env)))
            if raw:
                if (fn.qname, what) in TEXT_ALLOW or _is_cmd_body(s, idx):
                    res.ok(rule, key, "raw grammar text by design: body of _<cmd>_cmd_<id>: the command text is shell code", loc)
                else:
                    res.bad(rule, key, f"grammar text reaches `{s.template.strip()[:50]}` without {mod}::make_string_constant: {raw[:3]}", loc)
                continue
            if anyt.raw(fn, e, env):
                used += 1
                before = "".join(p[1] for p in s.pieces[:idx] if p[0] == "lit")
                inside = T.quote_state(before)
                res.check(not inside, "QCTX", f"QCTX:{fn.qname}:{what}", f"encoded text hole `{what}` in `{s.template.strip()[:50]}` sits " + ("INSIDE double quotes although the encoder adds its own: the constant is closed by the encoder's opening quote" if inside else "outside double quotes; the encoder supplies them"), loc)
                res.ok(rule, key, f"text reaches the hole only through {mod}::make_string_constant", loc)
        # POSTENC: what the encoder returned is a finished constant; a String that holds it may be handed on whole, never taken apart
        # or edited (split into lines and re-indented, trimmed, replaced in): a line break inside a description is part of the text
        EDITS = {"lines", "split", "split_terminator", "split_inclusive", "split_whitespace", "splitn", "rsplit", "rsplitn", "trim", "trim_start", "trim_end", "trim_matches",
                 "trim_start_matches", "trim_end_matches", "replace", "replacen", "chars", "char_indices", "bytes", "to_lowercase", "to_uppercase", "to_ascii_lowercase",
                 "to_ascii_uppercase", "truncate", "pop", "remove", "retain", "drain", "strip_prefix", "strip_suffix", "split_off", "split_at", "split_once", "rsplit_once", "escape_default", "escape_debug"}
        n_hold = 0
        for fn in repo.fns_in(mod):
            if fn.name in enc_names:
                continue
            holders = set()
            calls_enc = lambda node: any(x["k"] == "Call" and x["func"]["k"] == "Path" and x["func"]["path"].split("::")[-1] in enc_names for x in A.walk(node))
            for x in A.walk(fn.body):
                if x["k"] == "Macro" and x.get("name", "").split("::")[-1] in ("write", "writeln") and x.get("args") and calls_enc(x):
                    d = x["args"][0]
                    while d.get("k") in ("Ref", "Paren", "Unary"):
                        d = d["expr"]
                    if d.get("k") == "Path" and "::" not in d["path"]:
                        holders.add(d["path"])
                elif x["k"] == "MethodCall" and x["method"] in ("push_str", "push", "extend", "insert_str") and x["recv"].get("k") == "Path" and calls_enc(x):
                    holders.add(x["recv"]["path"])
                elif x["k"] == "Local" and x.get("init") is not None and x["pat"].get("k") == "PIdent" and calls_enc(x["init"]) and x["init"].get("k") in ("Call", "Macro", "MethodCall"):
                    holders.add(x["pat"]["name"])
            # PREENC: what the encoder is given is the grammar's text itself -- a caller that rewrites it first (`\n` -> "`n") hands the
            # encoder characters it will escape again
            fenvs = A.collect_envs(fn)
            k_enc = 0
            for x in A.walk(fn.body):
                if x["k"] == "Call" and x["func"]["k"] == "Path" and x["func"]["path"].split("::")[-1] in enc_names and x["args"]:
                    k_enc += 1
                    t = A.resolve(x["args"][0], fenvs.get(id(x)) or A.fn_env(fn))
                    pre = []

                    def scan(y):
                        if isinstance(y, tuple):
                            if y and y[0] == "mcall" and y[1] in EDITS:
                                pre.append(y[1])
                            for z in y:
                                scan(z)
                    scan(t)
                    n_hold += 1
                    res.check(not pre, rule, f"{rule}:{fn.qname}:PREENC#{k_enc}", "the encoder is given the text as it is" if not pre else
                              f"the text is rewritten with .{pre[0]}(..) BEFORE it is given to the encoder: the encoder then escapes what the rewrite inserted, and the shell reads back something else", f"{fn.file}:{x['l']}")
            params = {p_["name"] for p_ in fn.params}
            for h in sorted(holders - params):
                n_hold += 1
                edits = [x for x in A.walk(fn.body) if x["k"] == "MethodCall" and x["method"] in EDITS and any(y["k"] == "Path" and y["path"] == h for y in A.walk(x["recv"]))]
                res.check(not edits, rule, f"{rule}:{fn.qname}:POSTENC:{h}", f"`{h}` holds encoded constants and is handed on whole" if not edits else
                          f"`{h}` holds encoded constants and is then taken apart / edited with .{edits[0]['method']}(..): the constant that reaches the script is no longer what the encoder made (a line break or blank inside a description changes)", f"{fn.file}:{(edits[0] if edits else fn.node)['l']}")
        res.check(used >= floors[mod], rule, f"{rule}:{mod}:USED", f"{used} holes of {mod} carry grammar text through the encoder (confirmed floor {floors[mod]}: literals" + (", descriptions)" if floors[mod] > 1 else ")"), f"src/{mod}.rs")
    return n


def run(repo, res, tier):
    ty = TY.Typer(repo, RE.ROARING_DIMS)
    enc_rule(repo, res, tier=tier)
    n = sink_rule(repo, res, ty)
    from . import sk_bash
    sk_bash.quote_rule(repo, res, tier)
    # `a literal is matched only by the identical word`: the prefix filter compares text as it is (no option that changes how `[[ ]]`
    # compares is switched on and left on) -- shared with C01 / C12 / C17
    sk_bash.matchfn_rule(repo, res, tier)
    res.floor("ENC", res.count("ENC"), 2)
    res.floor("SINK-holes", n, 150)
    res.floor("SK-QUOTE", res.count("SK-QUOTE"), 15)
