"""C16 -- the --dfa and --regex Graphviz dumps are well-formed and show the real automaton."""
import re

from vlib import ast as A, prov as P, types as TY, xducer as X, taint as T, templates as TM
from vlib import rules_emit as RE
from . import common

LEVEL = "other"
EXPLANATION = (
    "Decided on /repo's current source, for the two Graphviz dumpers (every function named *to_dot* in dfa.rs and regex.rs): "
    "ENC (the label encoder, extracted on every run as a chain of character replacements, composed with a transcription of Graphviz's quoted-string lexer: for ALL strings the encoded text stays inside its quotes, the string is closed "
    "exactly at its end and reads back as the original text; the quoting wrapper adds exactly one pair of quotes around the encoder's result), "
    "SINK (raw-text taint analysis of every hole the dumpers write: literal, description, command and nonterminal text -- including text gathered in a String buffer by diagnostic_display_input -- reaches the file only through that encoder), "
    "QCTX (a hole fed by the bare encoder sits inside double quotes in its template, one fed by the quoting wrapper outside), "
    "NODEID (dfa dump: every node identifier is `_<prefix><state + array_start>`: the state carries the shell's array base exactly once, and prefix and state belong to the same automaton -- the outer one, or the within-word automaton looked up for this very transition), "
    "ARMS (--dfa passes the ARRAY_START of the module of the selected shell), LABEL (regex dump: every arm of the node match writes a labelled node line for the node before any return; dfa dump: every arm of the transition match writes an edge), "
    "TC (regex dump recurses into every child of Cat/Or; the Star drop is tabled), BAL (braces written by each dumper are balanced outside quoted strings). "
    "NOT decided: one node per state / one edge per transition as value-level facts; Graphviz's layout engines; HTML-like labels (none are emitted)."
    " INTERN-EQ field clause (shared with C09): one cluster per within-word automaton only if equality looks at every part, accepting states included."
)
ASSUMPTIONS = [
    "vlib/xducer.py dec_dot_q transcribes Graphviz's scanner for double-quoted strings (only \\\" and \\\\ are consumed as pairs; a bare quote closes the string)",
    "names: a dumper is a function of dfa.rs / regex.rs whose name contains `to_dot` (the *_file wrappers only create the file and delegate)",
]

ENCODER = "escape_dot_string"
WRAPPER = "make_dot_string_constant"


def _names(repo, _c={}):
    """(encoder name, wrapper name) of the dot dumpers, found by SHAPE in the modules that write dot files: the encoder is the
    String <- &str function that is a bare replace chain / per-character loop (no quotes of its own), the wrapper the one that
    formats `"<encoder(param)>"`; the historical names are the fallback"""
    if id(repo) in _c:
        return _c[id(repo)]
    enc, wrap = ENCODER, WRAPPER
    cands = []
    for mod in ("regex", "dfa"):
        for f in repo.fns_in(mod):
            if len(f.params) == 1 and "str" in (f.params[0].get("ty") or ""):
                ch = X.extract_encoder(f)
                if ch is not None and ch[0] == "" and ch[1] == "" and list(ch[2]):
                    cands.append(f)
    if len(cands) == 1:
        enc = cands[0].name
        for mod in ("regex", "dfa"):
            for f in repo.fns_in(mod):
                if len(f.params) == 1 and f is not cands[0] and list(P.find_calls(f.body, names={enc})) and any(n["k"] == "Macro" and n["name"].split("::")[-1] == "format" for n in A.walk(f.body)) and len(f.body.get("stmts", [])) <= 2:
                    wrap = f.name
    _c[id(repo)] = (enc, wrap)
    return enc, wrap


def sinks(repo):
    out = []
    for mod in ("dfa", "regex"):
        for fn in repo.fns_in(mod):
            if "to_dot" in fn.name and not fn.name.endswith("_file"):
                out.append(fn)
    return sorted(out, key=lambda f: (f.file, f.node["l"]))


def enc_rule(repo, res, rule="ENC", tier="quick"):
    ENCODER, WRAPPER = _names(repo)
    cands = [f for q, f in repo.fns.items() if f.name == ENCODER and f.module in ("regex", "dfa")]
    if len(cands) != 1:
        res.undecided(rule, f"{rule}:{ENCODER}", f"{len(cands)} functions named {ENCODER}")
        return
    fn = cands[0]
    ch = X.extract_encoder(fn)
    if ch is None:
        res.undecided(rule, f"{rule}:{fn.qname}", "encoder is neither a replace chain nor a per-character loop of the recognised form (cannot decide)", fn.loc())
        return
    prefix, suffix, chain = ch
    if (prefix, suffix) != ("", ""):
        res.undecided(rule, f"{rule}:{fn.qname}", f"encoder is expected to be a bare chain (the template supplies the quotes), found prefix={prefix!r} suffix={suffix!r}", fn.loc())
        return
    ok, cex, stats = X.check(chain, '"', '"', "dot", identity=True, alphabet=X.THOROUGH_ALPHABET if tier == "thorough" else None)
    desc = " -> ".join(f"{a!r}=>{b!r}" for a, b in chain)
    if ok:
        res.ok(rule, f"{rule}:{fn.qname}", f"for all strings: Graphviz reads \"{{{desc}}}\" back as the original text, the string closed exactly at its end ({stats['states']} product states, {stats['edges']} transitions)", fn.loc())
    else:
        res.bad(rule, f"{rule}:{fn.qname}", f"chain {desc}: input {cex.get('input')!r} is emitted as {cex.get('encoded')!r}: {cex['why']}", fn.loc())
    # the quoting wrapper: format!("\"{x}\"") with x = ENCODER(param)
    ws = [f for q, f in repo.fns.items() if f.name == WRAPPER]
    if len(ws) != 1:
        res.undecided(rule, f"{rule}:{WRAPPER}", f"{len(ws)} functions named {WRAPPER}")
        return
    w = ws[0]
    envs = A.collect_envs(w)
    good = False
    why = "no format! of the shape \"{encoded}\" found"
    for n in A.walk(w.body):
        if n["k"] == "Macro" and n["name"].split("::")[-1] == "format":
            s = TM.fmt_site(n, envs.get(id(n)))
            if s is None or len(s.holes) != 1:
                continue
            lits = [p[1] for p in s.pieces if p[0] == "lit"]
            if lits != ['"', '"'] or s.pieces[1][0] != "hole":
                why = f"template {s.template!r} is not exactly one pair of double quotes around one hole"
                continue
            p = A.resolve(s.holes[0][2], envs.get(id(s.holes[0][2])) or s.env)
            sh = A.show(p)
            good = bool(re.fullmatch(rf"{ENCODER}\(param#0\(\w+\)\)", sh))
            why = f"\"{{{sh}}}\""
            # ... and nothing else happens to the encoded text on the way (no truncation, no branch: clipping an escaped string can cut
            # an escape pair in two and leave the quote open)
            ctrl = [x["k"] for x in A.walk(w.body) if x["k"] in ("If", "While", "Loop", "ForLoop", "Match", "Return")]
            muts = [x["method"] for x in A.walk(w.body) if x["k"] == "MethodCall" and x["method"] in ("truncate", "push", "push_str", "pop", "insert", "insert_str", "remove", "replace_range", "clear", "drain", "retain", "split_off", "get", "chars", "bytes")]
            if good and (ctrl or muts):
                good = False
                why += f" but the wrapper also contains {sorted(set(ctrl + muts))}"
    res.check(good, rule, f"{rule}:{w.qname}", f"quoting wrapper is {why}" + ("" if good else f": must be one pair of quotes around {ENCODER}(its parameter)"), w.loc())


def sink_rule(repo, res, ty, rule="SINK"):
    ENCODER, WRAPPER = _names(repo)
    enc = T.Taint(repo, ty, {ENCODER, WRAPPER})
    only_bare = T.Taint(repo, ty, {ENCODER})
    anyt = T.Taint(repo, ty, set())
    n = 0
    n_text = 0
    for fn in sinks(repo):
        envs = A.collect_envs(fn)
        seq = {}
        for s in TM.fmt_sites(fn, envs):
            if s.macro not in ("write", "writeln"):
                continue
            for idx, nm, e in s.holes:
                env = (envs.get(id(e)) if e is not None else None) or s.env
                n += 1
                what = RE.hole_text(repo, fn, e)
                k = what
                seq[k] = seq.get(k, 0) + 1
                key = f"{rule}:{fn.qname}:{what}" + (f"#{seq[k]}" if seq[k] > 1 else "")
                loc = f"{fn.file}:{s.node['l']}"
                # a string handed in from outside the module (a name for the graph, a title) is text of unknown origin: a command name
                # may hold `-` or `.`, which no bare DOT identifier may; it needs the encoder like any other text (parameters of private
                # functions are followed to their callers in the module by the taint analysis below)
                pr = A.resolve(e, env) if e is not None else ("none",)
                while pr[0] in ("ref", "deref") or (pr[0] == "mcall" and pr[1] in ("as_str", "as_ref", "to_string", "clone", "to_owned", "borrow", "deref")):
                    pr = pr[1] if pr[0] != "mcall" else pr[2]
                if pr[0] == "param" and str(fn.node.get("vis", "")).startswith("pub") and isinstance(pr[1], int) and pr[1] < len(fn.params) and re.search(r"\b(str|String|Ustr|Cow)\b", str(fn.params[pr[1]].get("ty", ""))):
                    res.bad(rule, key, f"the string parameter `{fn.params[pr[1]]['name']}: {fn.params[pr[1]].get('ty')}` reaches `{s.template.strip()[:60]}` without {ENCODER}: text from the caller (a command name may hold `-`, `.`, a quote) is written into the file as DOT syntax", loc)
                    continue
                raw = sorted(set(enc.raw(fn, e, env)))
                if raw:
                    res.bad(rule, key, f"grammar text reaches `{s.template.strip()[:60]}` without {ENCODER}: {raw[:3]} -- a quote or backslash in it breaks the file", loc)
                    continue
                if not anyt.raw(fn, e, env):
                    continue
                n_text += 1
                res.ok(rule, key, f"text reaches the hole only through the DOT encoder", loc)
                wrapped = bool(only_bare.raw(fn, e, env))  # not covered by the bare encoder alone => goes through the quoting wrapper
                before = "".join(p[1] for p in s.pieces[:idx] if p[0] == "lit")
                inside = T.quote_state(before)
                want_inside = not wrapped
                res.check(inside == want_inside, "QCTX", f"QCTX:{fn.qname}:{what}" + (f"#{seq[k]}" if seq[k] > 1 else ""),
                          f"hole `{what}` fed by {WRAPPER if wrapped else ENCODER} sits {'inside' if inside else 'outside'} double quotes in `{s.template.strip()[:60]}`" + ("" if inside == want_inside else (": the wrapper adds its own quotes" if wrapped else ": the bare encoder adds no quotes, the value would be an unquoted DOT id")), loc)
    res.floor("SINK-holes", n, 40)  # vacuity guards (69 / 5 today; merged templates lower both)
    res.floor("SINK-text-holes", n_text, 3)


def automaton_of_state(term_text, dfa_param=(2,)):
    # the outer automaton is do_to_dot's `&DFA` parameter (by position in the signature, not by name)
    return "sub" if ".subdfas.lookup(" in term_text else ("outer" if any(f"param#{i}(" in term_text for i in dfa_param) else "?")


def sites_through_helpers(repo, fn, envs):
    """(site, at(hole expr) -> (expr, env)) for the format sites of fn and, once per call, for those of the printing helpers of
    its module that fn calls: a helper's hole that is one of its parameters stands for the argument of that call."""
    for s in TM.fmt_sites(fn, envs):
        yield s, (lambda e, s=s: (e, envs.get(id(e)) or s.env)), f"{fn.file}:{s.node['l']}"
    for h in repo.fns_in(fn.module):
        if h is fn or not any(True for _ in TM.fmt_sites(h)):
            continue
        henvs = A.collect_envs(h)
        for c in P.find_calls(fn.body, names={h.name}):
            if len(c["args"]) != len(h.params):
                continue

            def at(e, s=None, c=c, henvs=henvs):
                x = e
                while x is not None and x["k"] in ("Ref", "Paren") or (x is not None and x["k"] == "Unary" and x.get("op") == "*"):
                    x = x["expr"]
                env = henvs.get(id(e)) or (s.env if s is not None else None)
                p = A.resolve(x, env) if x is not None else ("none",)
                if p[0] == "param" and isinstance(p[1], int) and p[1] < len(c["args"]):
                    return c["args"][p[1]], envs.get(id(c))
                return e, env

            for s in TM.fmt_sites(h, henvs):
                yield s, (lambda e, s=s, at=at: at(e, s)), f"{fn.file}:{c['l']}"


def nodeid_rule(repo, res, ty, rule="NODEID"):
    fn = repo.fn("dfa::do_to_dot")
    if fn is None:
        res.undecided(rule, f"{rule}:dfa::do_to_dot", "function not found")
        return
    envs = A.collect_envs(fn)
    dfa_param = [i for i, p in enumerate(fn.params) if "DFA" in (p.get("ty") or "")]
    prefix_param = [p["name"] for p in fn.params if "str" in (p.get("ty") or "")]
    n = 0
    seq = {}
    for s, at, where in sites_through_helpers(repo, fn, envs):
        if s.macro not in ("write", "writeln"):
            continue
        pcs = s.pieces
        for i, p in enumerate(pcs):
            # `_` {prefix} {state}
            if p[0] == "hole" and i + 1 < len(pcs) and pcs[i + 1][0] == "hole" and i > 0 and pcs[i - 1][0] == "lit" and re.search(r'(^|[\s>])_$|label="$', pcs[i - 1][1]):
                ph = [h for h in s.holes if h[0] == i][0]
                sh = [h for h in s.holes if h[0] == i + 1][0]
                pe, penv = at(ph[2])
                se, senv = at(sh[2])
                ph = (ph[0], ph[1], pe)
                sh = (sh[0], sh[1], se)
                pt = A.show(A.resolve(ph[2], penv))
                st = A.show(A.resolve(sh[2], senv))
                t = ty.of(sh[2], senv)
                what = RE.hole_text(repo, fn, sh[2])
                seq[what] = seq.get(what, 0) + 1
                key = f"{rule}:{fn.qname}:{what}#{seq[what]}"
                loc = where
                n += 1
                once = t.startswith("Off<") and not t.startswith("Off<Off<")
                res.check(once, rule, key + ":base", f"node id state `{what}` : {t}" + (" (array base added once)" if once else ": the state must carry `+ array_start` exactly once, or the dump numbers states differently from the emitted script"), loc)
                p_auto = "outer" if re.fullmatch(r"param#\d+\((\w+)\)", pt) and re.fullmatch(r"param#\d+\((\w+)\)", pt).group(1) in prefix_param else ("sub" if pt.startswith("format!(") else "?")
                s_auto = automaton_of_state(st, dfa_param)
                res.check(p_auto == s_auto and p_auto != "?", rule, key + ":scope", f"prefix {pt[:40]} names the {p_auto} automaton, state {st[:70]} belongs to the {s_auto} automaton" + ("" if p_auto == s_auto else ": the node id mixes two automata (an edge would point at a node of the wrong cluster)"), loc)
    res.floor(rule, n, 6)
    # the sets of states the dumper works with hold RAW state numbers (as the automaton has them): a value that already carries the
    # array base must not be used to look into / edit them (in a 1-based shell it names the next state)
    for c in A.walk(fn.body):
        if c["k"] == "MethodCall" and c["method"] in ("remove", "contains", "insert") and len(c["args"]) == 1:
            rp = A.show(A.resolve(c["recv"], envs.get(id(c))))
            if "accepting_states" in rp or "get_all_states" in rp:
                t = ty.of(c["args"][0], envs.get(id(c)))
                okk = not t.startswith("Off<")
                res.check(okk, rule, f"{rule}:{fn.qname}:set-{c['method']}:raw-state", f"`{RE.hole_text(repo, fn, c['args'][0])}` : {t} used with .{c['method']} on a set of raw states" + ("" if okk else ": the array base is already added, the wrong state is addressed"), f"{fn.file}:{c['l']}")


def cluster_rule(repo, res, ty, rule="CLUSTERID"):
    """`one cluster per within-word automaton`, numbered as the edges that enter it and as the emitted script: every sub-automaton
    number printed by the dfa dumper (cluster names, the prefix of the nodes inside a cluster, the dashed edges) is read from
    dfa.get_subwords(array_start) -- the de-duplicated numbering the emitters use -- and from nothing else (a running counter over
    transitions numbers an automaton once per transition that enters it)."""
    fn = repo.fn("dfa::do_to_dot")
    if fn is None:
        res.undecided(rule, f"{rule}:dfa::do_to_dot", "function not found")
        return
    envs = A.collect_envs(fn)
    n = 0
    seq = {}
    for s in TM.fmt_sites(fn, envs):
        for idx, nm, e in s.holes:
            env = (envs.get(id(e)) if e is not None else None) or s.env
            t = TY.strip(ty.of(e, env)) if e is not None else "?"
            what = RE.hole_text(repo, fn, e)
            if t != "usize" or "recursion" in what:
                continue
            seen = []

            def probe(f, node):
                if node["k"] == "MethodCall":
                    seen.append(node["method"])

            T.Taint(repo, ty, set(), scalars_clean=False, probe=probe).raw(fn, e, env)
            n += 1
            seq[what] = seq.get(what, 0) + 1
            ok = "get_subwords" in seen and not ({"enumerate", "zip", "position"} & set(seen))
            res.check(ok, rule, f"{rule}:dfa::do_to_dot:{what}#{seq[what]}", f"sub-automaton number `{what}` obtained through {sorted(set(seen))}" + ("" if ok else ": not (only) the get_subwords numbering shared with the edges and the script"), f"{fn.file}:{s.node['l']}")
    res.floor(rule, n, 4)
    # --dfa dumps the automaton that is emitted: the receiver of to_dot in main::aot is the minimised one
    fa = repo.fn("main::aot")
    if fa is not None:
        ea = A.collect_envs(fa)
        for c in P.find_calls(fa.body, methods={"to_dot"}):
            if len(c["args"]) == 2 and c["recv"]["k"] == "Path" and "DFA::" in A.show(A.resolve(c["recv"], ea.get(id(c)))):
                p = A.show(A.resolve(c["recv"], ea.get(id(c))))
                ok = p.endswith(".minimize()")
                # and it is the same value the emitters get
                emits = [A.show(A.resolve(x["args"][2], ea.get(id(x)))) for x in P.find_calls(fa.body, names={"write_completion_script"}) if len(x["args"]) == 3]
                ok = ok and all(e == p for e in emits) and bool(emits)
                res.check(ok, "MPT", "MPT:main::aot:dumps-emitted-automaton", f"--dfa dumps {p[:50]}...{p[-14:]}" + ("" if ok else ": not the (minimised) automaton handed to the emitters -- state numbers and merged states differ from the script"), f"{fa.file}:{c['l']}")


def arms_rule(repo, res, rule="ARMS"):
    fn = repo.fn("main::aot")
    if fn is None:
        res.undecided(rule, f"{rule}:main::aot", "function not found")
        return
    found = 0
    helper = None
    # the shell -> array base table: in aot itself or in a helper of main.rs that aot calls
    for holder in [fn] + [h for h in repo.fns_in("main") if h is not fn]:
        for n in A.walk(holder.body):
            if n["k"] != "Match":
                continue
            arms = []
            for a in n["arms"]:
                vs = A.pat_variants(a["pat"])
                b = a["body"]
                while b["k"] == "Block" and len(b["stmts"]) == 1 and b["stmts"][0]["k"] == "ExprStmt":
                    b = b["stmts"][0]["expr"]
                if len(vs) == 1 and vs[0][0].startswith("Shell::") and b["k"] == "Path" and b["path"].endswith("::ARRAY_START"):
                    arms.append((vs[0][0].split("::")[-1], b["path"].split("::")[-2]))
            if len(arms) >= 4:
                found += 1
                helper = holder if holder is not fn else None
                for v, m in arms:
                    res.check(v.lower() == m.lower(), rule, f"{rule}:main::aot:{v}", f"Shell::{v} => {m}::ARRAY_START" + ("" if v.lower() == m.lower() else ": the dump would be numbered with another shell's array base"), f"{holder.file}:{n['l']}")
    if found:
        # and that value is what to_dot receives
        envs = A.collect_envs(fn)
        for c in P.find_calls(fn.body, methods={"to_dot"}):
            if len(c["args"]) == 2 and c["recv"]["k"] == "Path" and "DFA::" in A.show(A.resolve(c["recv"], envs.get(id(c)))):
                p = A.show(A.resolve(c["args"][1], envs.get(id(c))))
                ok = "ARRAY_START" in p or "match" in p.lower() or (helper is not None and helper.name + "(" in p)
                res.check(ok, rule, f"{rule}:main::aot:to_dot-arg", f"dfa.to_dot(.., {p[:80]})", f"{fn.file}:{c['l']}")
    if not found:
        res.undecided(rule, f"{rule}:main::aot", "no `match shell { Shell::X => x::ARRAY_START, .. }` found")


def label_rule(repo, res, rule="LABEL"):
    # regex dump: in every arm of the match over RegexNode, a node line `<node>[label=` is written, and before any `return`
    fn = repo.fn("regex::do_to_dot")
    if fn is None:
        res.undecided(rule, f"{rule}:regex::do_to_dot", "function not found")
    else:
        envs = A.collect_envs(fn)
        ms = [n for n in A.walk(fn.body) if n["k"] == "Match" and sum(1 for a in n["arms"] if any(v[0].startswith("RegexNode::") for v in A.pat_variants(a["pat"]))) >= 5]
        if len(ms) != 1:
            res.undecided(rule, f"{rule}:regex::do_to_dot", f"{len(ms)} matches over RegexNode")
        else:
            n_arms = 0
            for a in ms[0]["arms"]:
                for vpath, _ in A.pat_variants(a["pat"]):
                    v = vpath.split("::")[-1]
                    n_arms += 1
                    labels = []
                    for m in A.walk(a["body"]):
                        if m["k"] == "Macro" and m["name"].split("::")[-1] in ("write", "writeln"):
                            s = TM.fmt_site(m, envs.get(id(m)))
                            if s is None:
                                continue
                            tpl = "".join(("\x00" + (p[1] or "") + "\x01") if p[0] == "hole" else p[1] for p in s.pieces)
                            if re.search(r"\x00[^\x01]*\x01\[label=", tpl):  # `<node id>[label=` whatever the id's local is called
                                labels.append(m)
                    rets = [m for m in A.walk(a["body"]) if m["k"] == "Return"]
                    first = min((A.pos(m) for m in labels), default=None)
                    early = [r for r in rets if first is None or A.pos(r) < first]
                    ok = bool(labels) and not early
                    res.check(ok, rule, f"{rule}:regex::do_to_dot:{v}", f"{len(labels)} labelled node line(s) for this node" + ("" if ok else (", but a `return` precedes the first one: a repeated occurrence is never drawn as a labelled node" if labels else ": this expected item never appears as a labelled node")), f"{fn.file}:{a['l']}")
            res.floor(rule + "-regex-arms", n_arms, 9)
    # dfa dump: every arm of the match over the transition's input writes an edge
    fn = repo.fn("dfa::do_to_dot")
    if fn is not None:
        envs = A.collect_envs(fn)
        ms = [n for n in A.walk(fn.body) if n["k"] == "Match" and any(v[0].startswith("Inp::") for a in n["arms"] for v in A.pat_variants(a["pat"]))]
        if len(ms) != 1:
            res.undecided(rule, f"{rule}:dfa::do_to_dot", f"{len(ms)} matches over Inp")
        else:
            for a in ms[0]["arms"]:
                vs = [v[0].split("::")[-1] for v in A.pat_variants(a["pat"])]
                edges = 0
                for m in A.walk(a["body"]):
                    if m["k"] == "Macro" and m["name"].split("::")[-1] in ("write", "writeln"):
                        s = TM.fmt_site(m, envs.get(id(m)))
                        if s is not None and "->" in s.template:
                            edges += 1
                res.check(edges >= 1, rule, f"{rule}:dfa::do_to_dot:{'|'.join(vs)}", f"{edges} edge line(s) written for a transition on {'/'.join(vs)}", f"{fn.file}:{a['l']}")
    # nodes: start, regular and accepting states each get a labelled node line
    if fn is not None:
        envs = A.collect_envs(fn)
        n_nodes = 0
        for s, _at, _where in sites_through_helpers(repo, fn, envs):  # a helper's line counts once per call
            if s.macro in ("write", "writeln") and "[label=" in s.template and "->" not in s.template and "subword" not in s.template:
                n_nodes += 1
        res.check(n_nodes >= 3, rule, f"{rule}:dfa::do_to_dot:node-lines", f"{n_nodes} node-line templates (start state, ordinary states, accepting states)", fn.loc())


def balance_rule(repo, res, rule="BAL"):
    for fn in sinks(repo):
        envs = A.collect_envs(fn)
        opens = closes = 0
        for s in TM.fmt_sites(fn, envs):
            if s.macro not in ("write", "writeln"):
                continue
            inside = False
            for p in s.pieces:
                if p[0] != "lit":
                    continue
                txt = p[1]
                i = 0
                while i < len(txt):
                    c = txt[i]
                    if inside and c == "\\":
                        i += 2
                        continue
                    if c == '"':
                        inside = not inside
                    elif not inside and c == "{":
                        opens += 1
                    elif not inside and c == "}":
                        closes += 1
                    i += 1
        res.check(opens == closes, rule, f"{rule}:{fn.qname}", f"{opens} opening and {closes} closing braces written outside quoted strings", fn.loc())


def declfirst_rule(repo, res, rule="DECLFIRST"):
    """DOT creates a node at its first mention, with the default attributes in force there.  A dump that sets the node shape by
    `node [shape=..];` statements (start / plain / accepting) therefore shows the real automaton only if every node is declared
    before an edge mentions it: in such a sink every edge template (`->`) stands after every node declaration and after the
    recursive call that declares the nodes of the within-word automata (whose start states the dashed edges point at)."""
    n = 0
    for fn in sinks(repo):
        envs = A.collect_envs(fn)
        sites = [s for s in TM.fmt_sites(fn, envs) if s.macro in ("write", "writeln")]
        if not any(re.search(r"\bnode\s*\[", s.template) for s in sites):
            continue
        edges = [s.node for s in sites if "->" in s.template]
        decls = [s.node for s in sites if re.search(r"\[label=|\bnode\s*\[", s.template) and "->" not in s.template]
        decls += [c for c in P.find_calls(fn.body, names={fn.name})]
        if not edges or not decls:
            continue
        n += 1
        first_edge = min(edges, key=A.pos)
        late = [d for d in decls if not A.before(d, first_edge)]
        res.check(not late, rule, f"{rule}:{fn.qname}", f"{len(decls)} node-declaring statements, all before the first of {len(edges)} edge templates" if not late else
                  f"{len(late)} node-declaring statement(s) stand after the first edge template (e.g. line {late[0]['l']}): an edge that mentions a node first creates it with the shape in force at that point, not the one it is declared under", f"{fn.file}:{first_edge['l']}")
    res.floor(rule, n, 1)


def run(repo, res, tier):
    ty = TY.Typer(repo, RE.ROARING_DIMS)
    enc_rule(repo, res, tier=tier)
    sink_rule(repo, res, ty)
    nodeid_rule(repo, res, ty)
    cluster_rule(repo, res, ty)
    arms_rule(repo, res)
    label_rule(repo, res)
    common.run_traversals(repo, res, enum="RegexNode", only={"regex::do_to_dot"}, rp=False)
    balance_rule(repo, res)
    declfirst_rule(repo, res)
    # a dump written over an older, longer file is a well-formed graph only if the file is truncated when opened (shared with C10)
    from . import c10
    c10.outfile_rule(repo, res)
    from . import c09 as _c09
    _c09.intern_eq(repo, res, identity=False)  # one cluster per within-word automaton: two automata are the same only if every part (also the accepting states) agrees (INTERN-EQ, shared with C09)
    res.floor("sinks", len(sinks(repo)), 4)
