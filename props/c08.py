"""C08 -- grammar mistakes are rejected with the right diagnostic; clean grammars pass (structural clauses)."""
import re
from vlib import ast as A, prov as P
from vlib import rules_pipeline as RPL
from . import common

LEVEL = "other"
EXPLANATION = (
    "Decides on /repo's current source: MPT (every success path of from_grammar / Regex::from_valid_grammar / main::aot / Inp::from_input passes each "
    "validation), GUARD (each semantic Error variant is constructed under the predicate C08 names for it), HANDLER (handle_error has a dedicated arm per "
    "located variant and ends in exit(1)), TC + GW (checkers descend into every branch, behind every definition and over every automaton state), "
    "CYCSEED (the cycle search is started from every vertex of the dependency graph, not only from vertices nothing depends on). "
    "NOT decided: the converse direction (every clean grammar is accepted) beyond C06's no-panic clause."
    " ENDS (C13), RP of the description / level passes (C02) and FIELDCOVER of the level getter (C02/C06) are shared: the checks see what the earlier passes hand them."
)
ASSUMPTIONS = ["rustc accepts the tree", "tables/tree.toml allowed drops"]

SEMANTIC = ["MissingCallVariants", "InvalidCommandName", "VaryingCommandNames", "NonterminalDefinitionsCycle", "DuplicateNonterminalDefinition",
            "UnknownShell", "NonCommandSpecialization", "UnboundedMatchable", "ConflictingDescriptions", "SubwordSpaces", "AmbiguousDFA", "ParseError"]


def cond_text(repo, fn, c):
    return " ".join(repo.text(fn.file, c).split())


def guard_rules(repo, res, rule="GUARD"):
    fq = "check::ValidGrammar::from_grammar"
    fn = repo.fn(fq)
    if fn is None:
        res.undecided(rule, f"{rule}:{fq}", "function not found")
        return
    envs = A.collect_envs(fn)
    pm = A.parent_map(fn.body)

    def site_guard(variant):
        nonlocal fn, envs, pm
        sites = list(P.ctor_sites(fn.body, "Error::" + variant))
        if not sites:
            # the check may have been extracted into a helper of the same module: look there (keys keep from_grammar's name)
            for f in repo.fns_in("check"):
                if list(P.ctor_sites(f.body, "Error::" + variant)):
                    fn, envs, pm = f, A.collect_envs(f), A.parent_map(f.body)
                    sites = list(P.ctor_sites(fn.body, "Error::" + variant))
                    break
        out = []
        for s in sites:
            gs = [g for g in A.guards_of(s, pm) if g[0]["k"] == "If" and g[1] == "then"]
            out.append((s, gs))
        return out

    # MissingCallVariants <= commands.is_empty()
    sg = site_guard("MissingCallVariants")
    ok = False
    why = f"{len(sg)} sites"
    for s, gs in sg:
        if gs:
            c = A.resolve(gs[0][0]["cond"], envs.get(id(gs[0][0])))
            ok = c[0] == "mcall" and c[1] == "is_empty" and ("iter_call_variants" in A.show(c[2]) or "iter_call_variants" in A.reach_calls(gs[0][0]["cond"], envs.get(id(gs[0][0])), fn=fn, envs=envs))
            why = f"under `{A.show(c)[:100]}`"
    res.check(ok, rule, f"{rule}:{fq}:MissingCallVariants", why, fn.loc())
    # VaryingCommandNames <= commands.len() > 1 after dedup by name
    sg = site_guard("VaryingCommandNames")
    ok = False
    for s, gs in sg:
        if gs:
            c = gs[0][0]["cond"]
            p = A.resolve(c, envs.get(id(gs[0][0])))
            ok = p[0] == "bin" and p[1] == ">" and p[2][0] == "mcall" and p[2][1] == "len" and p[3] == ("lit", "1") and ("iter_call_variants" in A.show(p[2]) or "iter_call_variants" in A.reach_calls(c, envs.get(id(gs[0][0])), fn=fn, envs=envs))
            # `after dedup by name`: before the test, the list was handed mutably to a function of the module that drops repeated keys
            # (a `retain` driven by a set insertion), whatever that helper is called
            lst = None
            for x in A.walk(c):
                if x["k"] == "MethodCall" and x["method"] == "len" and x["recv"]["k"] == "Path":
                    lst = x["recv"]["path"]
            dd = []
            for x in P.find_calls(fn.body):
                if x["k"] != "Call" or not A.before(x, gs[0][0]) or x["func"]["k"] != "Path":
                    continue
                takes = any(a["k"] == "Ref" and a.get("mut") and a["expr"]["k"] == "Path" and a["expr"]["path"] == lst for a in x["args"])
                callee = repo.fn("check::" + x["func"]["path"].split("::")[-1])
                if takes and callee is not None and any(m["k"] == "MethodCall" and m["method"] == "retain" for m in A.walk(callee.body)) and any(m["k"] == "MethodCall" and m["method"] == "insert" for m in A.walk(callee.body)):
                    dd.append(x)
            ok = ok and len(dd) == 1
            why = f"under `{A.show(p)[:100]}` after dedup by name"
    res.check(ok, rule, f"{rule}:{fq}:VaryingCommandNames", why, fn.loc())
    # InvalidCommandName <= !is_valid_command_name(command)
    sg = site_guard("InvalidCommandName")
    ok = False
    for s, gs in sg:
        if gs:
            p = A.resolve(gs[0][0]["cond"], envs.get(id(gs[0][0])))
            ok = p[0] == "un" and p[1] == "!" and p[2][0] == "call" and P.last(p[2][1]) == "is_valid_command_name"
            why = f"under `{A.show(p)[:100]}`"
    res.check(ok, rule, f"{rule}:{fq}:InvalidCommandName", why, fn.loc())
    f2 = repo.fn("check::is_valid_command_name")
    ok = False
    if f2 is not None:
        for n in A.walk(f2.body):
            if n["k"] == "If":
                t = cond_text(repo, f2, n["cond"])
                rets = [r for r in A.walk(n["then"]) if r["k"] == "Return" and r["expr"] is not None and r["expr"].get("v") is False]
                if "contains('/')" in t.replace(" ", "") and rets:
                    ok = True
        if not ok:
            # or the function's value is directly `!name.contains('/')`
            val = A.resolve(f2.body, A.fn_env(f2))
            ok = val[0] == "un" and val[1] == "!" and val[2][0] == "mcall" and val[2][1] == "contains" and val[2][3] and val[2][3][0] == ("lit", "/")
    res.check(ok, rule, f"{rule}:check::is_valid_command_name:slash", "a name containing '/' is invalid", f2.loc() if f2 else "")
    # DuplicateNonterminalDefinition (plain) <= an earlier plain definition of the same name exists
    sg = site_guard("DuplicateNonterminalDefinition")
    ok = False
    why = f"{len(sg)} sites"
    for s, gs in sg:
        if gs and gs[0][0]["cond"]["k"] == "Let":
            p = A.resolve(gs[0][0]["cond"]["expr"], envs.get(id(gs[0][0])))
            in_loop = any(g[0]["k"] == "ForLoop" and "iter_nonterm_defns" in A.show(A.resolve(g[0]["iter"], envs.get(id(g[0])))) for g in A.guards_of(s, pm))
            key_ok = p[0] == "mcall" and p[1] == "get" and p[3] and p[3][0][0] == "field" and p[3][0][2] == "lhs_name"
            # plain definitions only: `if defn.shell.is_some() { continue }` precedes
            pg = A.preceding_guards(s, pm)
            # however it is spelled (`if d.shell.is_some() { continue }`, `.filter(|d| d.shell.is_none())`, ...): at this site the
            # definition is known to be a plain one
            from vlib import preds
            shell_skip = any(k.endswith(".shell.is_none()") for k in preds.known(repo, fn, s, envs, pm))
            a0 = A.resolve(s["args"][0], envs.get(id(s)))
            a1 = A.resolve(s["args"][1], envs.get(id(s)))
            order_ok = a0[0] == "field" and a0[2] == "lhs_span" and a0[1][0] == "bind" and a1[0] == "field" and a1[2] == "lhs_span" and a1[1][0] == "elem"
            ok = in_loop and key_ok and shell_skip and order_ok
            why = f"loop over all definitions={in_loop} keyed by name={key_ok} plain only={shell_skip} (first=stored, second=current)={order_ok}"
    res.check(ok, rule, f"{rule}:{fq}:DuplicateNonterminalDefinition", why, fn.loc())

    # get_specializations: duplicate specialisation for the target shell, unknown shell, non-command
    fq3 = "parse::Grammar::get_specializations"
    f3 = repo.fn(fq3)
    if f3 is None:
        res.undecided(rule, f"{rule}:{fq3}", "function not found")
    else:
        env3 = A.collect_envs(f3)
        pm3 = A.parent_map(f3.body)
        dups = list(P.ctor_sites(f3.body, "Error::DuplicateNonterminalDefinition"))
        ok = False
        for s in dups:
            gs = [g for g in A.guards_of(s, pm3) if g[0]["k"] == "If" and g[1] == "then" and g[0]["cond"]["k"] == "Let"]
            if gs:
                p = A.resolve(gs[0][0]["cond"]["expr"], env3.get(id(gs[0][0])))
                if p[0] == "mcall" and p[1] == "get" and p[2][0] == "local" and p[3][0][0] == "field" and p[3][0][2] == "lhs_name":
                    # the map probed is the one UserSpecs are inserted into
                    us = [u for u in P.ctor_sites(f3.body, "UserSpec") if u["k"] == "Struct"]
                    if us:
                        ok = True
        res.check(ok, rule, f"{rule}:{fq3}:duplicate-specialisation", "second <X@S> for the target shell is rejected before insertion", f3.loc())
        ncs = list(P.ctor_sites(f3.body, "Error::NonCommandSpecialization"))
        ok = len(ncs) >= 1
        for s in ncs[:1]:
            # raised when the right-hand side is not Expr::Command (wildcard arm / let-else of a match on rhs)
            gs = A.guards_of(s, pm3)
            arms = [g for g in gs if g[0]["k"] == "Arm"]
            ok = bool(arms) and arms[0][0]["pat"]["k"] == "PWild"
            if ok:
                mt = pm3[id(arms[0][0])][0]
                others = [P.last(v[0]) for a in mt["arms"] for v in A.pat_variants(a["pat"])]
                ok = others == ["Command"]
            else:
                # .. or in the else block of `let Expr::Command { .. } = rhs else { .. }` (how a two-armed match is read, vlib/canon.py)
                cur = s
                while id(cur) in pm3:
                    par, key = pm3[id(cur)]
                    if par["k"] == "Local" and key == "else":
                        ok = [P.last(v[0]) for v in A.pat_variants(par["pat"])] == ["Command"]
                        break
                    if par["k"] in ("ForLoop", "While", "Loop", "Closure"):
                        break
                    cur = par
        res.check(ok, rule, f"{rule}:{fq3}:NonCommandSpecialization", "raised for every shell-specific definition whose right-hand side is not a {{{ }}} command", f3.loc())
    f4 = repo.fn("parse::Shell::from_str")
    ok = False
    if f4 is not None:
        for n in A.walk(f4.body):
            if n["k"] == "Match":
                names = []
                wild_err = False
                for a in n["arms"]:
                    if a["pat"]["k"] == "PLit":
                        names.append(a["pat"]["lit"]["v"])
                    elif a["pat"]["k"] == "PWild":
                        wild_err = any(True for s in P.ctor_sites(a["body"], "Error::UnknownShell"))
                ok = sorted(names) == ["bash", "fish", "pwsh", "zsh"] and wild_err
        if not ok:
            # .. or a lookup in a constant table of (name, Shell) pairs: found by equality with the given name, anything else is the error
            pairs = []
            for path_, c_ in repo.files.items():
                if not path_.endswith("parse.rs"):
                    continue
                for it in c_.get("items", []):
                    for cst in ([it] if it.get("k") == "Const" else [x for x in it.get("items", []) if x.get("k") == "Const"] if it.get("k") == "Impl" else []):
                        for tup in A.walk(cst):
                            if tup.get("k") == "Tuple" and len(tup.get("elems", [])) == 2 and tup["elems"][0].get("k") == "Lit" and tup["elems"][0].get("lit") == "str" and tup["elems"][1].get("k") == "Path" and "Shell::" in tup["elems"][1]["path"].replace("Self::", "Shell::"):
                                pairs.append((tup["elems"][0]["v"], tup["elems"][1]["path"].split("::")[-1]))
            finds = [m for m in A.walk(f4.body) if m["k"] == "MethodCall" and m["method"] in ("find", "position") and m["args"] and m["args"][0]["k"] == "Closure"
                     and any(b["k"] == "Binary" and b["op"] == "==" for b in A.walk(m["args"][0]["body"]))]
            okor = [m for m in A.walk(f4.body) if m["k"] == "MethodCall" and m["method"] in ("ok_or", "ok_or_else") and any(True for _ in P.ctor_sites(m, "Error::UnknownShell"))]
            ok = sorted(pairs) == [("bash", "Bash"), ("fish", "Fish"), ("pwsh", "Pwsh"), ("zsh", "Zsh")] and len(finds) == 1 and len(okor) == 1 and not any(x["k"] == "Return" for x in A.walk(f4.body))
    res.check(ok, rule, f"{rule}:parse::Shell::from_str:UnknownShell", "any name other than bash/fish/zsh/pwsh after @ is UnknownShell", f4.loc() if f4 else "")

    # SubwordSpaces <= two adjacent children of a Sequence inside a word whose tail/head are both Terminal
    fq5 = "check::do_check_subword_spaces"
    f5 = repo.fn(fq5)
    if f5 is None:
        res.undecided(rule, f"{rule}:{fq5}", "function not found")
    else:
        env5 = A.collect_envs(f5)
        pm5 = A.parent_map(f5.body)
        # the mode: the parameter that the recursion below a Subword node sets to a constant (`true`, or a variant of a two-valued enum)
        mode_idx, mode_on = None, None
        sarm, _sm = RPL.arm_for(repo, f5, "Expr", "Subword")
        if sarm is not None:
            for c in P.find_calls(sarm["body"], names={f5.name}):
                for i_, x_ in enumerate(c["args"]):
                    r_ = A.resolve(x_, env5.get(id(c)))
                    if r_ == ("lit", True) or (r_[0] == "path" and "::" in str(r_[1]) and str(r_[1]).split("::")[-1][:1].isupper()):
                        mode_idx, mode_on = i_, r_

        def mode_test(cnd, env, hf=None):
            """+1: `cnd` says the mode is on (`flag`, `mode == On`); -1: it says the mode is off (`!flag`, `mode != On`); 0: neither.
            In a helper the flag is whatever parameter of it the test reads (the helper was handed the caller's flag)."""
            neg = 1
            while cnd["k"] in ("Paren",) or (cnd["k"] == "Unary" and cnd.get("op") == "!"):
                if cnd["k"] == "Unary":
                    neg = -neg
                cnd = cnd["expr"]
            r_ = A.resolve(cnd, env)
            if r_[0] == "param" and (hf not in (None, f5) or mode_idx is None or r_[1] == mode_idx) and (mode_on in (None, ("lit", True))):
                return neg
            if cnd["k"] == "Binary" and cnd["op"] in ("==", "!=") and mode_on is not None:
                a_, b_ = A.resolve(cnd["left"], env), A.resolve(cnd["right"], env)
                for u, v in ((a_, b_), (b_, a_)):
                    if u[0] == "param" and (hf not in (None, f5) or u[1] == mode_idx) and v == mode_on:
                        return neg if cnd["op"] == "==" else -neg
            return 0
        ss = list(P.ctor_sites(f5.body, "Error::SubwordSpaces"))
        ok = len(ss) == 1
        why = f"{len(ss)} sites"
        if ok:
            s = ss[0]
            gs = A.guards_of(s, pm5)
            arm = [g for g in gs if g[0]["k"] == "Arm"]
            loops = [g for g in gs if g[0]["k"] == "ForLoop"]
            iflets = [g for g in gs if g[0]["k"] == "If" and g[0]["cond"]["k"] == "Let"]
            ok = bool(arm) and bool(loops) and bool(iflets)
            if ok:
                a = arm[-1][0]
                guard_ok = a["guard"] is not None and mode_test(a["guard"], env5.get(id(a["body"])) or A.fn_env(f5)) == 1
                if not guard_ok and a["guard"] is None:
                    # the same mode test as an early `if !within_subword { return Ok(()) }` standing in the arm before the check
                    for kind, cnd, st in A.preceding_guards(s, pm5):
                        if kind == "if" and A.before(a["body"], st) and mode_test(cnd, env5.get(id(cnd)) or env5.get(id(st["expr"])) or A.fn_env(f5)) == -1:
                            guard_ok = True
                vs = [P.last(v[0]) for v in A.pat_variants(a["pat"])]
                it = A.resolve(loops[0][0]["iter"], env5.get(id(loops[0][0])))
                win = it[0] == "mcall" and it[1] == "windows" and it[3] and it[3][0] == ("lit", "2") and P.has_bind_root("Sequence", "children")(it[2])
                c = A.resolve(iflets[0][0]["cond"]["expr"], env5.get(id(iflets[0][0])))
                pat = iflets[0][0]["cond"]["pat"]
                both_term = pat["k"] == "PTuple" and [P.last(v[0]) for e in pat["elems"] for v in A.pat_variants(e)] == ["Terminal", "Terminal"]
                tail_head = c[0] == "tuple" and "expr_get_tail" in A.show(c[1][0]) and "expr_get_head" in A.show(c[1][1])
                ok = vs == ["Sequence"] and guard_ok and win and both_term and tail_head
                why = f"Sequence arm under within_subword={guard_ok}; children.windows(2)={win}; (tail(left), head(right)) both Terminal={both_term and tail_head}"
        if not ok:
            # written another way (helper, find_map, zip): locate the check by what it does
            core = RPL.subword_spaces_core(repo)
            if core.get("ok"):
                # and it still runs only inside a word: the core is reached only under the flag (arm guard / early return / `if flag`)
                cf = repo.fn(core["core"])
                under = False
                for hf in {f5, repo.fn(core["raiser"])} - {None}:
                    hpm = A.parent_map(hf.body)
                    henv = A.collect_envs(hf)
                    anchors = list(P.ctor_sites(hf.body, "Error::SubwordSpaces")) + (list(P.find_calls(hf.body, names={cf.name})) if cf is not hf else [])
                    for s_ in anchors:
                        for g, role in A.guards_of(s_, hpm):
                            if g["k"] == "Arm" and g.get("guard") is not None and mode_test(g["guard"], henv.get(id(g["body"])) or A.fn_env(hf), hf) == 1:
                                under = True
                            if g["k"] == "If" and role == "then" and mode_test(g["cond"], henv.get(id(g)) or A.fn_env(hf), hf) == 1:
                                under = True
                        for kind_, cnd, st in A.preceding_guards(s_, hpm):
                            if kind_ == "if" and mode_test(cnd, henv.get(id(cnd)) or A.fn_env(hf), hf) == -1:
                                under = True
                ok = under
                why = core["why"] + f"; only within a word={under}"
        res.check(ok, rule, f"{rule}:{fq5}:SubwordSpaces", why, f5.loc())
        # Subword arm switches the flag on; NontermRef arm follows the definition with the flag unchanged
        arm, m = RPL.arm_for(repo, f5, "Expr", "Subword")
        ok = False
        if arm is not None:
            ok = mode_idx is not None
            if ok and mode_on != ("lit", True):
                # an enum mode: the entry point must start in the OTHER value (a wrapper that starts in the within-word value checks
                # every sequence of the grammar, not only those inside a word)
                starts = [A.resolve(c["args"][mode_idx], A.collect_envs(g).get(id(c)) or A.fn_env(g)) for g in repo.fns_in(f5.module) if g is not f5
                          for c in P.find_calls(g.body, names={f5.name}) if mode_idx < len(c["args"])]
                ok = bool(starts) and all(st_[0] == "path" and st_ != mode_on for st_ in starts)
        res.check(ok, rule, f"{rule}:{fq5}:Subword-sets-flag", "recursion below a Subword node runs with the within-word mode switched on", f5.loc())
        arm, m = RPL.arm_for(repo, f5, "Expr", "NontermRef")
        ok = False
        why = "no NontermRef arm"
        if arm is not None:
            for c in P.find_calls(arm["body"], names={f5.name}):
                a = [A.resolve(x, env5.get(id(c))) for x in c["args"]]
                ok = a[1][0] == "field" and a[1][2] == "rhs_expr_id" and "get(" in A.show(a[1]) and a[-1][0] == "param"
                why = f"recurses into {A.show(a[1])[:100]} with the flag unchanged"
        res.check(ok, rule, f"{rule}:{fq5}:follows-definitions", why, f5.loc())


def handler_rules(repo, res, rule="HANDLER"):
    fq = "main::handle_error"
    fn = repo.fn(fq)
    if fn is None:
        res.undecided(rule, f"{rule}:{fq}", "function not found")
        return
    en = repo.enum("Error")
    variants = [v["name"] for v in en["variants"]] if en else []
    for v in SEMANTIC:
        res.check(v in variants, rule, f"{rule}:variant:{v}", f"Error::{v} exists", en["_file"] if en else "")
    # constructed somewhere outside tests
    for v in SEMANTIC:
        where = [q for q, f in repo.fns.items() if any(True for _ in P.ctor_sites(f.body, "Error::" + v))]
        res.check(bool(where), rule, f"{rule}:constructed:{v}", f"Error::{v} constructed in {where}", "")
    mts = [n for n in A.walk(fn.body) if n["k"] == "Match"]
    arms = {}
    if mts:
        for a in mts[0]["arms"]:
            for pth, pn in A.pat_variants(a["pat"]):
                arms[P.last(pth)] = a
    located = [v["name"] for v in en["variants"] if any("HumanSpan" in f["ty"] for f in v["fields"])] if en else []
    for v in located + ["ConflictingDescriptions", "AmbiguousDFA"]:
        a = arms.get(v)
        ok = a is not None
        why = "dedicated arm" if ok else "no dedicated arm: falls into the generic printer without a location"
        if ok:
            eps = [n for n in A.walk(a["body"]) if n["k"] == "Macro" and P.last(n["name"]) == "eprintln"]
            ok = bool(eps)
            if v in located:
                errs = [c for c in P.find_calls(a["body"], methods={"error"})]
                ok = ok and bool(errs)
                why = f"dedicated arm printing {len(errs)} located message(s)"
        res.check(ok, rule, f"{rule}:{fq}:{v}", why, fn.loc())
    # the function ends in exit(1), unconditionally
    last = fn.body["stmts"][-1] if fn.body["stmts"] else None
    ok = last is not None and last["k"] == "ExprStmt" and last["expr"]["k"] == "Call" and P.last(last["expr"]["func"]["path"]) == "exit" and last["expr"]["args"][0].get("v") == "1"
    early = [n for n in A.walk(fn.body) if n["k"] == "Return"]
    res.check(ok and not early, rule, f"{rule}:{fq}:exit-1", "every rendered error ends in exit(1)" if ok and not early else f"last stmt exit(1)={ok}, early returns={len(early)}", fn.loc())


def mpt_rules(repo, res, rule="MPT"):
    RPL.from_grammar_order(repo, res)
    # the three command-name / duplicate checks are on the straight path (their `return Err` sit in top-level ifs)
    # Regex::from_valid_grammar -> check_ambiguities(..)?
    fq = "regex::Regex::from_valid_grammar"
    fn = repo.fn(fq)
    if fn is None:
        res.undecided(rule, f"{rule}:{fq}", "function not found")
    else:
        pm = A.parent_map(fn.body)
        cs = list(P.find_calls(fn.body, methods={"check_ambiguities"}))
        ok = len(cs) == 1 and A.propagates(cs[0], pm) and not A.guards_of(cs[0], pm)
        if ok:
            envs = A.collect_envs(fn)
            r = A.resolve(cs[0]["recv"], envs.get(id(cs[0])))
            ok = "from_expr" in A.show(r)
        res.check(ok, rule, f"{rule}:{fq}:check_ambiguities", "regex.check_ambiguities(..)? on every path, on the regex just built", fn.loc())
    fq = "regex::Regex::check_ambiguities"
    fn = repo.fn(fq)
    if fn is not None:
        cs = list(P.find_calls(fn.body, methods={"check_subwords"}))
        pm = A.parent_map(fn.body)
        # its error leaves the function: `check_subwords(..)?`, or the call is the function's own value
        tail = fn.body["stmts"][-1] if fn.body.get("stmts") else None
        is_value = len(cs) == 1 and tail is not None and tail["k"] == "ExprStmt" and not tail.get("semi") and tail["expr"] is cs[0]
        ok = len(cs) == 1 and (A.propagates(cs[0], pm) or is_value) and not A.guards_of(cs[0], pm)
        res.check(ok, rule, f"{rule}:{fq}:check_subwords", "check_subwords(firstpos, followpos, ..)? from the start positions", fn.loc())
    # Inp::from_input: every within-word automaton is checked before it is interned
    fq = "dfa::Inp::from_input"
    fn = repo.fn(fq)
    if fn is None:
        res.undecided(rule, f"{rule}:{fq}", "function not found")
    else:
        pm = A.parent_map(fn.body)
        envs = A.collect_envs(fn)
        interns = list(P.find_calls(fn.body, methods={"intern"}))
        ok = len(interns) == 1
        why = f"{len(interns)} intern sites"
        if ok:
            a = A.resolve(interns[0]["args"][0], envs.get(id(interns[0])))
            chk = [c for c in P.find_calls(fn.body, methods={"check_ambiguity_best_effort"}) if A.propagates(c, pm)]
            same = [c for c in chk if A.resolve(c["recv"], envs.get(id(c))) == a and A.before(c, interns[0])]
            same_block = [c for c in same if [id(g[0]) for g in A.guards_of(c, pm)] == [id(g[0]) for g in A.guards_of(interns[0], pm)]]
            ok = bool(same_block)
            why = f"subdfa.check_ambiguity_best_effort()? precedes subdfas.intern(subdfa) in the same block: {ok}; interned value {A.show(a)[:90]}"
            # plus the regex-level DFA::from_regex check (conflicts before minimisation)
        res.check(ok, rule, f"{rule}:{fq}:subdfa-checked", why, fn.loc())
    # aot: check_ambiguity_best_effort on the emitted automaton, error -> handle_error
    fq = "main::aot"
    fn = repo.fn(fq)
    if fn is None:
        res.undecided(rule, f"{rule}:{fq}", "function not found")
    else:
        pm = A.parent_map(fn.body)
        envs = A.collect_envs(fn)
        cs = list(P.find_calls(fn.body, methods={"check_ambiguity_best_effort"}))
        ok = len(cs) == 1
        why = f"{len(cs)} sites"
        if ok:
            c = cs[0]
            gs = A.guards_of(c, pm)
            st = A.stmt_of(c, pm)
            idx = A.top_stmt_index(fn, c, pm)
            handled = st is not None and any(True for _ in P.find_calls(st, names={"handle_error"}))
            emit = [e for e in P.find_calls(fn.body, names={"write_completion_script"})]
            before_emit = all(A.before(c, e) for e in emit) and bool(emit)
            r = A.resolve(c["recv"], envs.get(id(c)))
            same = all(A.resolve(e["args"][2], envs.get(id(e))) == r for e in emit)
            ok = not gs and handled and before_emit and same and idx is not None
            why = f"unconditional={not gs} error->handle_error={handled} before emission={before_emit} same automaton={same}"
        res.check(ok, rule, f"{rule}:{fq}:check_ambiguity_best_effort", why, fn.loc())
        for name in ("parse", "from_grammar", "from_valid_grammar", "from_regex_raw"):
            cs = [c for c in P.find_calls(fn.body, names={name})]
            ok = len(cs) == 1
            if ok:
                c = cs[0]
                st = A.stmt_of(c, pm)
                handled = st is not None and any(True for _ in P.find_calls(st, names={"handle_error"}))
                ok = handled and not [g for g in A.guards_of(c, pm)]
            res.check(ok, rule, f"{rule}:{fq}:{name}:error-handled", f"Err of {name}(..) goes to handle_error, call is unconditional", fn.loc())


def graph_walkers(repo, res, rule="GW"):
    """self-recursive graph walks visit every successor that was not visited yet"""
    specs = [
        ("dfa::DFA::do_check_ambiguity_best_effort", "iter_transitions_from"),
        ("regex::Regex::check_subwords", None),
        ("regex::Regex::do_check_ambiguous_inputs_tail_only_subword", None),
    ]
    for fq, itname in specs:
        fn = repo.fn(fq)
        if fn is None:
            res.undecided(rule, f"{rule}:{fq}", "function not found")
            continue
        envs = A.collect_envs(fn)
        pm = A.parent_map(fn.body)
        recs = list(P.find_calls(fn.body, methods={fn.name}))
        ok = len(recs) == 1
        why = f"{len(recs)} recursive calls"
        if ok:
            c = recs[0]
            gs = A.guards_of(c, pm)
            loops = [g for g in gs if g[0]["k"] == "ForLoop"]
            conds = [g for g in gs if g[0]["k"] == "If"]
            ok = len(loops) == 1
            if ok:
                lp = loops[0][0]
                it = A.resolve(lp["iter"], envs.get(id(lp)))
                if itname:
                    it_ok = it[0] == "mcall" and it[1] == itname and it[2][0] == "param" and it[3] and it[3][0][0] == "param"
                else:
                    itp = it
                    while itp[0] in ("ref", "deref") or (itp[0] == "mcall" and itp[1] in ("iter", "into_iter")):
                        itp = itp[1] if itp[0] != "mcall" else itp[2]
                    it_ok = itp[0] == "param"
                # only `visited` may prune: enclosing ifs test visited; preceding early-continues test visited or a missing follow set
                # the visited sets are the `&mut` set parameters of the walk, the follow map its map parameter (by type, not by name)
                vis = [prm["name"] for prm in fn.params if prm.get("name") and "mut" in (prm.get("ty") or "") and re.search(r"RoaringBitmap|Set", prm.get("ty") or "")]
                maps = [prm["name"] for prm in fn.params if prm.get("name") and re.search(r"Map", prm.get("ty") or "")]
                tests_vis = lambda t: any(re.search(r"\b%s\b" % re.escape(v), t) for v in vis)
                # a condition is read together with what its locals were computed from (`let first = visited.insert(x); if !first`)
                ctext = lambda cnd: cond_text(repo, fn, cnd) + " " + A.show(A.resolve(cnd, envs.get(id(cnd)) or envs.get(id(c))))
                cond_ok = all(tests_vis(ctext(g[0]["cond"])) for g in conds)
                pg = [x for x in A.preceding_guards(c, pm) if A.before(lp, x[2])]
                pg_ok = all(tests_vis(ctext(x[1])) if x[0] == "if" else any((m + ".get") in cond_text(repo, fn, x[1]["init"]).replace(" ", "") for m in maps) for x in pg)
                # the successor handed on is the loop's own target / follow set
                a0 = A.resolve(c["args"][0], envs.get(id(c)))
                succ_ok = any(r[0] in ("param",) for r in A.roots(a0)) and ("elem" in str(a0))
                ok = it_ok and cond_ok and pg_ok and succ_ok
                why = f"loop over {A.show(it)[:60]} ok={it_ok}; pruned only by visited={cond_ok and pg_ok}; recurses into {A.show(a0)[:70]}"
        res.check(ok, rule, f"{rule}:{fq}", why, fn.loc())
        # the visited set only grows: a walk that forgets a vertex when it returns from it explores every simple path (exponential in
        # the number of alternatives: the compiler does not come back)
        vis_all = [prm["name"] for prm in fn.params if prm.get("name") and "mut" in (prm.get("ty") or "") and re.search(r"RoaringBitmap|Set", prm.get("ty") or "")]
        shr = [c for c in A.walk(fn.body) if c["k"] == "MethodCall" and c["method"] in ("remove", "clear", "retain", "pop", "truncate", "drain", "take") and c["recv"]["k"] == "Path" and c["recv"]["path"] in vis_all]
        res.check(not shr, rule, f"{rule}:{fq}:visited-only-grows", f"visited sets {vis_all} are only added to" if not shr else f"`{shr[0]['recv']['path']}.{shr[0]['method']}(..)` at line {shr[0]['l']}: a vertex is forgotten again, so it is re-explored along every path that reaches it", fn.loc())
    # the per-state checks happen before the recursion, unconditionally (every visited state is inspected)
    fn = repo.fn("dfa::DFA::do_check_ambiguity_best_effort")
    if fn is not None:
        pm = A.parent_map(fn.body)
        for v in ("ConflictingDescriptions", "AmbiguousDFA"):
            ss = list(P.ctor_sites(fn.body, "Error::" + v))
            ok = len(ss) == 1
            if ok:
                gs = A.guards_of(ss[0], pm)
                recs = list(P.find_calls(fn.body, methods={fn.name}))
                ok = all(A.before(ss[0], r) for r in recs)
            res.check(ok, rule, f"{rule}:dfa::DFA::do_check_ambiguity_best_effort:{v}:per-state", f"{v} is looked for at every visited state before descending", fn.loc())
    # entry points start from the start state / start positions with an empty visited set
    fn = repo.fn("dfa::DFA::check_ambiguity_best_effort")
    if fn is not None:
        envs = A.collect_envs(fn)
        cs = list(P.find_calls(fn.body, methods={"do_check_ambiguity_best_effort"}))
        ok = len(cs) == 1 and A.show(A.resolve(cs[0]["args"][0], envs.get(id(cs[0])))).endswith(".starting_state")
        res.check(ok, rule, f"{rule}:dfa::DFA::check_ambiguity_best_effort:entry", "walk starts at self.starting_state", fn.loc())


def conflicting_descr_rule(repo, res, rule="GUARD"):
    """same literal, two different descriptions at one state -> ConflictingDescriptions"""
    fq = "dfa::DFA::do_check_ambiguity_best_effort"
    fn = repo.fn(fq)
    if fn is None:
        return
    envs = A.collect_envs(fn)
    pm = A.parent_map(fn.body)
    ss = list(P.ctor_sites(fn.body, "Error::ConflictingDescriptions"))
    if len(ss) != 1:
        res.undecided(rule, f"{rule}:{fq}:ConflictingDescriptions", "site not found", fn.loc())
        return
    s = ss[0]
    # what is known to hold where the error is built, however the two tests are spelled (two `continue`s, one `find` predicate, ...):
    # an equality between the FIRST components (literals) and an inequality between the SECOND components (descriptions) of the two
    # neighbours of a windows(2) pass
    from vlib import preds as PR
    kn = PR.known(repo, fn, s, envs, pm)

    def sides(k):
        k = k.strip()
        negated = False
        while k.startswith("!"):
            negated = not negated
            k = k[1:].strip()
        m = re.fullmatch(r"\((.*) (==|!=) (.*)\)", k)
        if not m or "windows('2')" not in k:
            return None
        eq = (m.group(2) == "==") != negated
        comp = [re.search(r"\.(\d+)$", x.strip()) for x in (m.group(1), m.group(3))]
        if not all(comp):
            return None
        return eq, comp[0].group(1), comp[1].group(1)

    got = [x for x in map(sides, kn) if x]
    ok = any(eq and a == b == "0" for eq, a, b in got) and any((not eq) and a == b == "1" for eq, a, b in got)
    calls = set()
    for g, role in A.guards_of(s, pm):
        if g["k"] == "ForLoop":
            calls |= A.reach_calls(g["iter"], envs.get(id(g)))
        elif g["k"] == "If" and g["cond"]["k"] == "Let":
            calls |= A.reach_calls(g["cond"]["expr"], envs.get(id(g["cond"]["expr"])) or envs.get(id(g)))
    win = "windows" in calls and "iter_transitions_from" in calls
    srt = any(True for _ in P.find_calls(fn.body, methods={"sort_by_key", "sort", "sort_unstable_by_key", "sort_unstable", "sort_by", "sort_unstable_by"}))
    res.check(ok and win and srt, rule, f"{rule}:{fq}:ConflictingDescriptions",
              f"adjacent pairs of the state's (literal, description) list sorted by literal: equal literal & different description -> error (pair-guards={ok}, windows(2) over this state's transitions={win}, sorted={srt})", fn.loc())


def cycseed(repo, res, rule="CYCSEED"):
    fq = "check::get_nonterminals_resolution_order"
    fn = repo.fn(fq)
    if fn is None:
        res.undecided(rule, f"{rule}:{fq}", "function not found")
        return False
    envs = A.collect_envs(fn)
    pm = A.parent_map(fn.body)
    dfs = repo.fn("check::traverse_nonterminal_dependencies_dfs")
    # start-up helpers extracted from the seeding loops count as starts of the DFS
    starters = {"traverse_nonterminal_dependencies_dfs": dfs}
    if dfs is not None:
        for w in repo.fns_in("check"):
            if w is not dfs and w is not fn and list(P.find_calls(w.body, names={dfs.name})):
                starters[w.name] = w
    calls = list(P.find_calls(fn.body, names=set(starters)))
    seeded_all = False
    details = []
    for c in calls:
        loops = [g for g in A.guards_of(c, pm) if g[0]["k"] == "ForLoop"]
        if not loops:
            details.append("single start vertex")
            continue
        lp = loops[0][0]
        it = A.resolve(lp["iter"], envs.get(id(lp)))
        names = P.spine(it)
        details.append("loop over " + A.show(it)[:60])
        def _whole(t):
            while t[0] in ("ref", "deref"):
                t = t[1]
            if t[0] == "mcall" and t[1] == "chain":
                # two vertex lists walked one after the other cover the graph when one of them does
                return _whole(t[2]) or any(_whole(a) for a in t[3] if isinstance(a, tuple))
            if t[0] == "mcall" and t[1] in ("copied", "cloned", "into_iter") and not t[3]:
                return _whole(t[2])
            if any("get_not_depended_on_nonterminals" in n for n in P.spine(t)):
                return False
            return t[0] in ("local", "param") or (t[0] == "mcall" and t[1] in ("keys", "iter") and t[2][0] in ("local", "param"))
        through_roots = any("get_not_depended_on_nonterminals" in n for n in names)
        whole_graph = _whole(it)
        if whole_graph:
            # nothing but the visited test may skip a vertex
            gs = [g for g in A.guards_of(c, pm, stop=lp) if g[0]["k"] == "If"]
            pg = [x for x in A.preceding_guards(c, pm) if A.before(lp, x[2])]
            # the visited set is whatever this call passes for the callee's `&mut UstrSet` parameter (names are not assumed)
            callee = starters.get(c["func"]["path"].split("::")[-1]) if c["func"]["k"] == "Path" else dfs
            vis = "visited"
            if callee is not None:
                for pi, prm in enumerate(callee.params):
                    if "UstrSet" in (prm.get("ty") or "") and "mut" in (prm.get("ty") or "") and pi < len(c["args"]):
                        vis = "".join(repo.text(fn.file, c["args"][pi]).split()).replace("&mut", "")
            vtest = vis + ".contains"
            only_visited = all(vtest in cond_text(repo, fn, g[0]["cond"]).replace(" ", "") for g in gs) and all(x[0] == "if" and vtest in cond_text(repo, fn, x[1]).replace(" ", "") for x in pg)
            # errors propagate
            tr = A.propagates(c, pm)
            if only_visited and tr:
                seeded_all = True
    res.check(seeded_all, rule, f"{rule}:{fq}:seeded-from-every-vertex",
              "the cycle-detecting DFS is started from every vertex of the dependency graph that is still unvisited" if seeded_all else
              f"the DFS is started only from: {details}; a cycle that no in-degree-0 vertex reaches is never entered (accepted silently, later passes recurse through it)", fn.loc())
    # the graph has a vertex per plain definition and an edge per reference to a plain definition
    ins = [c for c in P.find_calls(fn.body, methods={"insert"})]
    ok = False
    for c in ins:
        r = A.resolve(c["recv"], envs.get(id(c)))
        if r[0] == "local":
            loops = [g for g in A.guards_of(c, pm) if g[0]["k"] == "ForLoop"]
            itp = A.resolve(loops[0][0]["iter"], envs.get(id(loops[0][0]))) if loops else ("none",)
            while itp[0] in ("ref", "deref") or (itp[0] == "mcall" and itp[1] in ("iter", "into_iter")):
                itp = itp[1] if itp[0] != "mcall" else itp[2]
            if loops and itp[0] == "param":
                v = A.resolve(c["args"][1], envs.get(id(c)))
                ok = "get_nonterm_refs" in A.show(v)
    res.check(ok, rule, f"{rule}:{fq}:graph-complete", "one vertex per plain definition, edges from get_nonterm_refs(definition body)", fn.loc())
    # DFS: back edge to a vertex on the current path is an error; visited vertices are skipped only after that test
    f2 = repo.fn("check::traverse_nonterminal_dependencies_dfs")
    ok = False
    if f2 is not None:
        pm2 = A.parent_map(f2.body)
        errs = list(P.ctor_sites(f2.body, "Error::NonterminalDefinitionsCycle"))
        if not errs and calls and all(any(m["args"] and m["args"][0].get("k") == "Path" and m["args"][0]["path"].endswith("Error::NonterminalDefinitionsCycle") for m in A.err_adaptors_above(c, pm)) for c in calls):
            # the walker returns the bare payload and every caller wraps it: `dfs(..).map_err(Error::NonterminalDefinitionsCycle)?`
            errs = [n for n in A.walk(f2.body) if n["k"] == "Call" and n["func"]["k"] == "Path" and n["func"]["path"] == "Err"]
        recs = list(P.find_calls(f2.body, names={f2.name}))
        if len(errs) == 1 and len(recs) == 1:
            gs = [g for g in A.guards_of(errs[0], pm2) if g[0]["k"] == "If"]
            # the current path is the `&mut Vec<(name, span)>` parameter
            pname = next((prm["name"] for prm in f2.params if "Vec<(" in "".join((prm.get("ty") or "").split())), "path")
            has = lambda t: re.search(r"(?<![A-Za-z0-9_])%s(?![A-Za-z0-9_])" % re.escape(pname), t) is not None
            ctext = cond_text(repo, f2, gs[0][0]["cond"]) if gs else ""
            if gs and not has(ctext):
                # the test may be a local computed from the path just before (`let on_path = path.iter().any(..)`)
                envs2 = A.collect_envs(f2)
                ctext = A.show(A.resolve(gs[0][0]["cond"], envs2.get(id(gs[0][0]["cond"])) or envs2.get(id(gs[0][0]))))
            searched = "any" in ctext
            if gs and not has(ctext):
                # or a flag set by a search loop over the path (`let mut on_path = false; for e in path.iter() { if .. { on_path = true; break } }`)
                cnd = gs[0][0]["cond"]
                while cnd["k"] in ("Paren",):
                    cnd = cnd["expr"]
                if cnd["k"] == "Path":
                    for asg in A.walk(f2.body):
                        if asg["k"] == "Assign" and asg["left"].get("k") == "Path" and asg["left"]["path"] == cnd["path"] and asg["right"].get("v") is True:
                            lps = [g for g in A.guards_of(asg, pm2) if g[0]["k"] == "ForLoop"]
                            if lps and A.before(lps[0][0], gs[0][0]):
                                ctext = cond_text(repo, f2, lps[0][0]["iter"])
                                searched = True
            onpath = bool(gs) and has(ctext) and searched
            pg = A.preceding_guards(recs[0], pm2)
            vname = next((prm["name"] for prm in f2.params if "UstrSet" in (prm.get("ty") or "")), "visited")
            skip = [x for x in pg if x[0] == "if" and (vname + ".contains") in cond_text(repo, f2, x[1]).replace(" ", "")]
            ok = onpath and bool(skip) and A.before(gs[0][0], skip[0][2]) and A.propagates(recs[0], pm2)
    res.check(ok, rule, "CYCSEED:check::traverse_nonterminal_dependencies_dfs:back-edge", "edge to a vertex on the current path -> NonterminalDefinitionsCycle, tested before the visited skip; errors propagate with `?`", f2.loc() if f2 else "")
    return seeded_all


def run(repo, res, tier):
    guard_rules(repo, res)
    conflicting_descr_rule(repo, res)
    handler_rules(repo, res)
    mpt_rules(repo, res)
    graph_walkers(repo, res)
    cycseed(repo, res)
    from . import c02
    c02.postorder(repo, res)
    from . import c11
    from vlib import rules_skips as SK, tables, rules_pairing as RPAIR
    RPAIR.pairing_rule(repo, res, only={"check::traverse_nonterminal_dependencies_dfs", "check::get_nonterminals_resolution_order", "check::do_check_subword_spaces", "dfa::DFA::do_check_ambiguity_best_effort"})
    n = SK.skips_rule(repo, res, tables.load("skips")["row"], exclude=set(SK.CORES))  # the validators; the algorithmic cores belong to C02 / C03
    res.floor("SKIPS", n, 14)
    c11.dom_get_specializations(repo, res)  # unknown-shell / non-command / duplicate checks precede the target-shell filter
    common.run_traversals(repo, res, only={"check::do_check_subword_spaces", "check::do_get_nonterm_refs", "check::expr_get_head", "check::expr_get_tail"}, rp=False)
    # the checks look at what the earlier passes hand them: `Adjacent literals` compares the LAST leaf of the left neighbour with the
    # FIRST of the right one (ENDS, shared with C13); `Conflicting descriptions` sees a description only if the passes before the
    # automaton keep it on its literal (RP of the two rebuilding passes, shared with C02); and every kind of item answers the level
    # question the table builders ask (FIELDCOVER, shared with C02 / C06)
    from . import c13 as _c13
    _c13.ends_rule(repo, res)
    common.run_traversals(repo, res, only={"check::do_propagate_fallback_levels", "check::do_distribute_descriptions"}, flows=c02.flows_table())
    from vlib import rules_fieldcover as FC
    FC.fieldcover(repo, res, "dfa::Inp::get_fallback_level", "Inp", "fallback_level", "value")
    res.floor("GUARD", res.count("GUARD"), 6)
    res.floor("HANDLER", res.count("HANDLER"), 19)
    res.floor("MPT", res.count("MPT"), 11)
    res.floor("GW", res.count("GW"), 3)
    res.floor("CYCSEED", res.count("CYCSEED"), 1)
    res.floor("TC", res.count("TC"), 15)
