"""C15 -- warnings are complete, precise and harmless (bookkeeping sites)."""
from vlib import ast as A, prov as P
from vlib import rules_pipeline as RPL
from . import common

LEVEL = "other"
EXPLANATION = (
    "Decides on /repo's current source the bookkeeping that makes the three warning sets what C15 says they are: "
    "BOOK (unused_nonterminals starts from all plain definitions; every reference met by specialize_nonterminals/resolve_nonterminals removes "
    "its name before any exit of the arm; `used` is set exactly in the branch that takes the target-shell specialisation; unused_specializations is "
    "the !used filter of that same map; undefined_nonterminals is computed from the fully expanded expression), TC+MPT (the passes visit every "
    "reference at every nesting in every definition and the call variants), WARN (main::aot prints one line per map entry with the label of that map, "
    "exempts only `_`, and the warning blocks contain no exit / return / `?` and touch nothing the emitter reads). "
    "NOT decided: set equality 'exactly these names' for all reference structures (value-level)."
    " TOPO (shared with C02): a definition expanded before the definitions it uses leaves their references behind, which are then warned about as Undefined."
)
ASSUMPTIONS = ["rustc accepts the tree", "UstrMap<HumanSpan> holds one entry per name (type fact read from the struct definition)"]


def book_rules(repo, res, rule="BOOK"):
    fq = "check::ValidGrammar::from_grammar"
    fn = repo.fn(fq)
    if fn is None:
        res.undecided(rule, f"{rule}:{fq}", "function not found")
        return
    envs = A.collect_envs(fn)
    pm = A.parent_map(fn.body)
    sites = [s for s in P.ctor_sites(fn.body, "ValidGrammar") if s["k"] == "Struct"]
    if len(sites) != 1:
        res.undecided(rule, f"{rule}:{fq}:ctor", "ValidGrammar constructor not found", fn.loc())
        return
    site = sites[0]
    env = envs.get(id(site))
    loc = f"{fn.file}:{site['l']}"
    # unused_nonterminals: initialised from all plain definitions (name -> lhs_span), no filter
    un = A.resolve(P.ctor_field(site, "unused_nonterminals"), env)
    ok = False
    why = A.show(un)
    if un[0] == "mcall" and un[1] == "collect" and un[2][0] == "mcall" and un[2][1] == "map" and un[2][2][0] == "mcall" and un[2][2][1] == "iter":
        clo = [a for a in un[2][3] if a[0] == "closure"]
        src = un[2][2][2]
        body_ok = False
        for n in A.walk(fn.body):
            if clo and id(n) == clo[0][1]:
                b = n["body"]
                if b["k"] == "Tuple" and len(b["elems"]) == 2:
                    cenv = envs.get(id(b))
                    k = A.resolve(b["elems"][0], cenv)
                    v = A.resolve(b["elems"][1], cenv)
                    body_ok = k[0] == "proj" and k[2] == 0 and v[0] == "field" and v[2] == "lhs_span"
        ok = body_ok
        why = f"all entries of {A.show(src)[:60]} mapped to (name, lhs_span)" if ok else why
    res.check(ok, rule, f"{rule}:{fq}:unused_nonterminals:init", why, loc)
    # the map iterated is the plain-definitions map that resolve_nonterminals expands from
    defs_ok = False
    for c in P.find_calls(fn.body, names={"resolve_nonterminals"}):
        if len(c["args"]) >= 3 and ok:
            v = A.resolve(c["args"][2], envs.get(id(c)))
            defs_ok = v[0] == "local" and v == un[2][2][2]
    res.check(defs_ok, rule, f"{rule}:{fq}:unused_nonterminals:same-map-as-expansion", "initialised from the same definitions map that resolve_nonterminals expands from", loc)
    # ... and that map is the one handed to both passes (same local)
    for pname in ("specialize_nonterminals", "resolve_nonterminals"):
        for c in P.find_calls(fn.body, names={pname}):
            a = c["args"][-1]
            r = A.resolve(a, envs.get(id(c)))
            res.check(r == un, rule, f"{rule}:{fq}:{pname}:shares-unused-map", f"{pname}(.., {A.show(r)[:50]}..)", f"{fn.file}:{c['l']}")
    # unused_specializations = !used filter of the map the lookup marks
    us = A.resolve(P.ctor_field(site, "unused_specializations"), env)
    ok = False
    if us[0] == "mcall" and us[1] == "collect" and us[2][0] == "mcall" and us[2][1] == "map" and us[2][2][0] == "mcall" and us[2][2][1] == "filter":
        flt = us[2][2]
        clo = [a for a in flt[3] if a[0] == "closure"]
        src = flt[2]
        from_user = RPL.call_nest(src, {"get_specializations"}) == ["get_specializations"]
        neg_used = False
        for n in A.walk(fn.body):
            if clo and id(n) == clo[0][1]:
                b = n["body"]
                if b["k"] == "Unary" and b["op"] == "!" and b["expr"]["k"] == "Field" and b["expr"]["member"] == "used":
                    neg_used = True
        ok = from_user and neg_used
    res.check(ok, rule, f"{rule}:{fq}:unused_specializations", "filter(!spec.used) over the target-shell specialisation map" if ok else A.show(us)[:200], loc)
    # computed after both specialize calls
    spec_calls = list(P.find_calls(fn.body, names={"specialize_nonterminals"}))
    # the filter that computes the set (the one whose closure tests `!spec.used`), wherever other filters stand
    flt_nodes = []
    for n in P.find_calls(fn.body, methods={"filter"}):
        for a in n["args"]:
            if a["k"] == "Closure":
                b = a["body"]
                while b["k"] == "Block" and len(b["stmts"]) == 1 and b["stmts"][0]["k"] == "ExprStmt":
                    b = b["stmts"][0]["expr"]
                if b["k"] == "Unary" and b["op"] == "!" and b["expr"]["k"] == "Field" and b["expr"]["member"] == "used":
                    flt_nodes.append(n)
    ok = bool(flt_nodes) and all(A.before(c, flt_nodes[0]) for c in spec_calls)
    res.check(ok, rule, f"{rule}:{fq}:unused_specializations:after-specialize", "computed after the expression and every definition were specialised", loc)
    # undefined = get_nonterm_refs(final expression)
    ud = A.resolve(P.ctor_field(site, "undefined_nonterminals"), env)
    names_ = {"get_nonterm_refs", "propagate_fallback_levels", "collapse_subwords", "resolve_nonterminals", "specialize_nonterminals"}
    nest = [n[3:] if n.startswith("do_") and n[3:] in names_ else n for n in RPL.call_nest(ud, names_ | {"do_" + x for x in names_})]  # a pass may be called as its worker `do_X`
    want = ["get_nonterm_refs", "propagate_fallback_levels", "collapse_subwords", "resolve_nonterminals", "specialize_nonterminals"]
    res.check(nest == want, rule, f"{rule}:{fq}:undefined_nonterminals", "undefined = " + " <- ".join(nest), loc)
    ex = A.resolve(P.ctor_field(site, "expr"), env)
    if ud[0] == "call" and len(ud[2]) == 2:
        res.check(ud[2][1] == ex, rule, f"{rule}:{fq}:undefined-of-emitted-expr", "references are collected from the very expression that is compiled", loc)

    # --- specialize_nonterminals, NontermRef arm
    fq2 = "check::specialize_nonterminals"
    f2 = repo.fn(fq2)
    if f2 is None:
        res.undecided(rule, f"{rule}:{fq2}", "function not found")
        return
    env2 = A.collect_envs(f2)
    pm2 = A.parent_map(f2.body)
    arm, m = RPL.arm_for(repo, f2, "Expr", "NontermRef")
    if arm is None:
        res.undecided(rule, f"{rule}:{fq2}:arm", "no NontermRef arm", f2.loc())
        return
    rem = [c for c in P.find_calls(arm["body"], methods={"remove"})]
    ok = False
    why = f"{len(rem)} remove() calls"
    for c in rem:
        e = env2.get(id(c))
        r = A.resolve(c["recv"], e)
        k = A.resolve(c["args"][0], e) if c["args"] else ("none",)
        if r[0] == "param" and r[2] == f2.params[-1]["name"] and k[0] == "bind" and P.last(k[1]) == "NontermRef" and k[2] == "nonterm":
            gs = A.guards_of(c, pm2, stop=arm)
            exits_before = [n for n in A.walk(arm["body"]) if n["k"] in ("Return", "Try") and A.before(n, c)]
            ok = not gs and not exits_before
            why = "unused.remove(&nonterm) dominates every exit of the arm" if ok else f"guards={[g[0]['k'] for g in gs]} exits-before={len(exits_before)}"
    res.check(ok, rule, f"{rule}:{fq2}:remove-on-every-reference", why, f"{f2.file}:{arm['l']}")
    # used = true exactly in the branch that returns the user specialisation
    assigns = [n for n in A.walk(f2.body) if n["k"] == "Assign" and n["left"]["k"] == "Field" and n["left"]["member"] == "used"]
    ok = len(assigns) == 1
    why = f"{len(assigns)} assignments to .used"
    if not assigns:
        # the lookup (and the marking) may live in a helper of the module that the arm calls
        for hc in P.find_calls(arm["body"]):
            h = repo.fn(f"{f2.module}::{hc['func']['path'].split('::')[-1]}") if hc["k"] == "Call" and hc["func"]["k"] == "Path" else None
            if h is None or h is f2:
                continue
            ha = [n for n in A.walk(h.body) if n["k"] == "Assign" and n["left"]["k"] == "Field" and n["left"]["member"] == "used"]
            if len(ha) == 1:
                henv, hpm = A.collect_envs(h), A.parent_map(h.body)
                a = ha[0]
                base = P.peel(A.resolve(a["left"]["base"], henv.get(id(a))))
                val = A.resolve(a["right"], henv.get(id(a)))
                # the map is the helper's parameter that receives the target-shell specialisations, the key the one that receives the name
                okh = base[0] == "mcall" and base[1] == "get_mut" and base[2][0] == "param" and base[3] and base[3][0][0] in ("param", "ref", "deref")
                gs = [g for g in A.guards_of(a, hpm) if g[0]["k"] == "If"]
                in_then = len(gs) == 1 and gs[0][1] == "then"
                same_branch_cmd = in_then and any(x["k"] == "Field" and str(x.get("member")) == "cmd" and P.peel(A.resolve(x["base"], henv.get(id(x)) or henv.get(id(a)))) == base for x in A.walk(gs[0][0]["then"]))
                ok = okh and val == ("lit", True) and in_then and same_branch_cmd
                why = f"in helper {h.qname}: `{A.show(base)[:70]}.used = true` in the branch of the target-shell lookup, which also takes that spec's cmd: {ok}"
                res.check(ok, rule, f"{rule}:{fq2}:used-set-where-taken", why, f"{h.file}:{a['l']}")
                assigns = None
                break
    if assigns is None:
        pass
    elif ok:
        a = assigns[0]
        e = env2.get(id(a))
        base = A.resolve(a["left"]["base"], e)
        val = A.resolve(a["right"], e)
        b = P.peel(base)
        is_user = b[0] == "mcall" and b[1] in ("get_mut",) and b[2][0] == "param" and b[3] and b[3][0][0] == "bind" and b[3][0][2] == "nonterm"
        gs = A.guards_of(a, pm2, stop=arm)
        in_then = len(gs) == 1 and gs[0][0]["k"] == "If" and gs[0][1] == "then"
        ok = is_user and val == ("lit", True) and in_then
        why = f"`{A.show(base)[:80]}.used = {A.show(val)}` in the then-branch of the target-shell lookup" if ok else f"base={A.show(base)[:80]} val={A.show(val)} guards={[(g[0]['k'], g[1]) for g in gs]}"
        if ok:
            # and that branch's value takes this spec's command
            iff = gs[0][0]
            tv = A.resolve(iff["then"], A.bind_pattern(env2.get(id(iff)), iff["cond"]["pat"], iff["cond"]["expr"], env2.get(id(iff)), "bind", iff["cond"]))
            t0 = tv[1][0] if tv[0] == "tuple" else tv
            ok = t0[0] == "field" and t0[2] == "cmd" and P.peel(t0[1]) == b
            why += "; the same branch yields spec.cmd" if ok else f"; but the branch yields {A.show(tv)[:80]}"
    if assigns is not None:
        res.check(ok, rule, f"{rule}:{fq2}:used-set-where-taken", why, f"{f2.file}:{arm['l']}")
    all_used = []
    for q, f in repo.fns.items():
        for n in A.walk(f.body):
            if n["k"] == "Assign" and n["left"]["k"] == "Field" and n["left"]["member"] == "used":
                all_used.append(q)
    # the only writer is the pass itself, or a lookup helper of the module that only the pass calls
    def _only_from_pass(q):
        h = repo.fns.get(q)
        if h is None or h.module != f2.module:
            return False
        callers = [g.qname for g in repo.fns.values() if g is not h and list(P.find_calls(g.body, names={h.name}))]
        return callers == [fq2]
    res.check(bool(all_used) and all(q == fq2 or _only_from_pass(q) for q in all_used), rule, f"{rule}:used-writers", f".used is written in {all_used}", "")

    # --- resolve_nonterminals, NontermRef arm: a reference that is expanded counts as a use
    fq3 = "check::resolve_nonterminals"
    f3 = repo.fn(fq3)
    if f3 is None:
        res.undecided(rule, f"{rule}:{fq3}", "function not found")
        return
    env3 = A.collect_envs(f3)
    arm, m = RPL.arm_for(repo, f3, "Expr", "NontermRef")
    ok = False
    why = "no NontermRef arm"
    if arm is not None:
        val, _ = RPL.arm_value(f3, env3, arm, m)
        alts = val[1] if val[0] == "alt" else (val,)
        repl = [t for t in alts if t[0] == "field" and t[2] == "rhs_expr_id"]
        keep = [t for t in alts if t[0] == "param"]
        ok = len(repl) == 1 and len(keep) == 1 and len(alts) == 2
        why = f"NontermRef => {A.show(val)[:160]}"
        if ok:
            b = P.peel(repl[0][1])
            ok = b[0] == "mcall" and b[1] == "get" and b[2][0] == "param" and b[3][0][0] == "bind" and b[3][0][2] == "nonterm"
    res.check(ok, rule, f"{rule}:{fq3}:replaced-by-definition-or-kept", why, f3.loc())


def warn_rules(repo, res, rule="WARN"):
    fq = "main::aot"
    fn = repo.fn(fq)
    if fn is None:
        res.undecided(rule, f"{rule}:{fq}", "function not found")
        return
    envs = A.collect_envs(fn)
    pm = A.parent_map(fn.body)
    labels = {"undefined_nonterminals": "Undefined", "unused_nonterminals": "Unused", "unused_specializations": "Unused specialization"}
    # anchored on the construction of the warning (WarnMsg::new("<label>")), not on the shape of the code around it: the top-level
    # statement of aot that holds it is the warning's region, whether it is an `if !set.is_empty() { for .. }` or an iterator chain
    for fld, lab in labels.items():
        key = f"{rule}:{fq}:{fld}"
        news = [c for c in P.find_calls(fn.body, names={"new"}) if c["args"] and ((c["args"][0]["k"] == "Lit" and c["args"][0]["v"] == lab)
                or (c["args"][0]["k"] == "Path" and P.peel(A.resolve(c["args"][0], envs.get(id(c)) or A.fn_env(fn))) == ("lit", lab)))]   # the label may sit in a row of a small literal table
        if len(news) != 1:
            res.undecided(rule, key, f"{len(news)} constructions of the {lab!r} warning in aot", fn.loc())
            continue
        site = news[0]
        idx = A.top_stmt_index(fn, site, pm)
        region = fn.body["stmts"][idx]
        loc = f"{fn.file}:{region['l']}"
        # harmless: no exit edge, nothing but stderr
        bad = [n for n in A.walk(region) if n["k"] in ("Return", "Try", "Break") or (n["k"] == "Call" and n["func"]["k"] == "Path" and P.last(n["func"]["path"]) in ("exit", "handle_error", "abort")) or (n["k"] == "Macro" and P.last(n["name"]) in ("panic", "unreachable", "todo", "write", "writeln", "println", "print"))]
        res.check(not bad, rule, key + ":harmless", "no return / `?` / exit / panic / stdout write inside the warning's statement" if not bad else f"exit edges in the warning's statement: {[b['k'] for b in bad]}", loc)
        # one line per entry of .values(), label of this map
        warns = [c for c in P.find_calls(region, methods={"warning"}) if any(x is site for x in A.walk(c["recv"]))]
        from_values = no_filter = span_ok = False
        for w in warns:
            a0 = A.resolve(w["args"][0], envs.get(id(w)))
            while a0[0] in ("ref", "deref"):
                a0 = a0[1]
            span_ok = a0[0] == "elem"
            names = P.spine(a0)
            from_values = ".values" in names and f"field:{fld}" in names
            no_filter = not any(x in names for x in (".filter", ".take", ".skip", ".dedup", ".truncate", ".step_by", ".skip_while", ".take_while", ".filter_map"))
        eps = [n for n in A.walk(region) if n["k"] == "Macro" and P.last(n["name"]) == "eprintln"]
        unguarded = False
        if len(eps) == 1:
            gs = [g for g in A.guards_of(eps[0], pm) if g[0]["k"] in ("If", "Arm", "While") or g[0]["k"] == "Binary"]
            # the only condition allowed around the print is the emptiness test of this very set
            def _empty_test_of_this_set(c):
                if f".{fld}.is_empty()" in repo.text(fn.file, c).replace(" ", ""):
                    return True
                while c["k"] in ("Paren",) or (c["k"] == "Unary" and c.get("op") == "!"):
                    c = c["expr"]
                if c["k"] == "MethodCall" and c["method"] == "is_empty" and not c["args"]:
                    return f"field:{fld}" in P.spine(A.resolve(c["recv"], envs.get(id(c)) or A.fn_env(fn)))
                return False
            unguarded = all(g[0]["k"] == "If" and _empty_test_of_this_set(g[0]["cond"]) for g in gs)
            # .. also when written as an early `if set.is_empty() { continue }` in front of the print
            for kind_, c_, st_ in A.preceding_guards(eps[0], pm):
                if kind_ == "if" and A.top_stmt_index(fn, st_, pm) == idx and not _empty_test_of_this_set(c_):
                    unguarded = False
        ok = from_values and no_filter and span_ok and len(eps) == 1 and unguarded
        why = f"one eprintln per entry of validated.{fld}.values(), label {lab!r}" if ok else f"values={from_values} nofilter={no_filter} span={span_ok} eprintln={len(eps)} unconditional={unguarded}"
        res.check(ok, rule, key + ":one-line-per-entry", why, loc)
    # `_` is exempted, nothing else is removed
    rem = [c for c in P.find_calls(fn.body, methods={"remove", "retain", "clear", "drain"})]
    rem = [c for c in rem if any(f in repo.text(fn.file, c["recv"]) for f in labels)]
    ok = len(rem) == 1 and rem[0]["method"] == "remove" and "undefined_nonterminals" in repo.text(fn.file, rem[0]["recv"])
    if ok:
        lits = [x["v"] for x in A.walk(rem[0]["args"][0]) if x["k"] == "Lit"]
        ok = lits == ["_"]
    res.check(ok, rule, f"{rule}:{fq}:only-underscore-exempt", "the only entry removed from a warning set is `_` (undefined)" if ok else f"{len(rem)} mutations of warning sets", fn.loc())
    # the warning maps are one-entry-per-name maps
    st = repo.struct("ValidGrammar")
    if st:
        for f in st["fields"]:
            if f["name"] in labels:
                t = A.norm_ty(f["ty"])
                res.check(t.startswith("UstrMap<"), rule, f"{rule}:type:{f['name']}", f"{f['name']}: {t}", f"{st['_file']}:{f['l']}")


def run(repo, res, tier):
    from . import c11
    c11.lookup_rule(repo, res)  # which names count as defined (PATH / DIRECTORY built in unless a PLAIN definition exists): decides the Undefined set
    book_rules(repo, res)
    warn_rules(repo, res)
    common.run_traversals(repo, res, only={"check::specialize_nonterminals", "check::resolve_nonterminals", "check::do_get_nonterm_refs"}, rp=False)
    from . import c02 as _c02
    _c02.postorder(repo, res)  # a definition expanded before the definitions it uses leaves their references in place: they are then reported as Undefined (TOPO, shared with C02)
    RPL.from_grammar_order(repo, res)
    # which definitions are in the map the Unused set is initialised from: the exemptions of from_grammar are the listed ones (shared with C08 / C11)
    from vlib import rules_skips as SK, tables
    SK.skips_rule(repo, res, tables.load("skips")["row"], only={"check::ValidGrammar::from_grammar"})
    res.floor("BOOK", res.count("BOOK"), 7)  # 13 + definitions-map identity
    res.floor("WARN", res.count("WARN"), 5)
    res.floor("TC", res.count("TC"), 11)
