"""C01 -- bash completions produced by the emitted script equal the grammar's meaning (structural clauses)."""
import re

from vlib import ast as A, prov as P
from . import sk_bash, c04

LEVEL = "other"
EXPLANATION = (
    "Decided on /repo's current source: PIPE (main::aot hands every emitter the command name of the validated grammar and the automaton minimize(from_regex_raw(from_valid_grammar(from_grammar(parse(input), shell)))) of that same validated grammar -- read off the "
    "provenance term of the call arguments), ARMS (--bash/--fish/--zsh/--pwsh select the Shell variant of the same name and `match shell` calls the module of the same name), "
    "and on the parsed bash skeleton of every flag assignment examined: SK-WALK (W1 the walk runs while word_index < cword from word_index=1 and the automaton's start state; W2 the transition blocks are tried in the order literal > within-word > command > "
    "any-word, each guarded by the table written for it; W3 every state update reads the block's own table cell for the current state, is followed by exactly one word_index increment and a continue of the walk; W4 a word matched by no block ends the "
    "function with a non-zero status; W5 the literal test is an equality with the double-quoted word and requires a transition), SK-FB (F1 levels 0..=max ascending with max from the tables; F2 each level's literal / within-word / command source is "
    "the level table read at the current state; F3 every source is filtered with the typed word; F4 the first level with a match sets COMPREPLY and stops; F5 COMP_WORDBREAKS is used only to trim the reply: suffix after the LAST occurrence, shortest "
    "suffix wins, prefix stripped from every match), SK-MATCHFN (the prefix filter applies no condition beyond the prefix pattern), SK-FRESH (scratch arrays compared with a word are reset per iteration), FLAGS (tables and the code reading them are "
    "emitted under the same flags; one command-id set is shared). "
    "NOT decided: that bash executes the skeleton as these rules assume; the automaton's correctness (C02/C03) and the within-word function (C12); readline's own behaviour. One open finding (W4: `break` out of the walk at a command point)."
    " Added after the fourth held-out round: SK-SUB S7/S8 (the shared within-word matcher walks its own `||` levels from 0 and every variable it reads from its caller is declared by each wrapper), LOOKUP (shared with C02/C11) and LITLIST (shared with C04)."
)
ASSUMPTIONS = [
    "vlib/bashparse.py parses the bash subset the templates use; loop targets of continue N / break N are computed from the parse",
    "the reference algorithm is the one written in the property's anchors (priority literal > subword > command > star; first level with >= 1 prefix match wins)",
]


def pipe_rule(repo, res, rule="PIPE"):
    fn = repo.fn("main::aot")
    if fn is None:
        res.undecided(rule, f"{rule}:main::aot", "function not found")
        return
    envs = A.collect_envs(fn)
    calls = list(P.find_calls(fn.body, names={"write_completion_script"}))
    res.check(len(calls) == 4, rule, f"{rule}:main::aot:emitter-calls", f"{len(calls)} calls of write_completion_script (one per shell)", fn.loc())
    for c in calls:
        mod = c["func"]["path"].split("::")[-2] if "::" in c["func"]["path"] else "?"
        if len(c["args"]) != 3:
            res.bad(rule, f"{rule}:main::aot:{mod}:arity", f"{len(c['args'])} arguments", f"{fn.file}:{c['l']}")
            continue
        # success-path wrappers (`?`, `Ok(v) => v`, `.or_else(..)`, borrows) are taken off at every level before comparing shapes
        cmd = A.show(P.deep_peel(A.resolve(c["args"][1], envs.get(id(c)))))
        cmd = re.sub(r"(\.(as_str|as_ref|borrow|deref)\(\))+$", "", cmd)  # the same string handed on as &str
        dfa = A.show(P.deep_peel(A.resolve(c["args"][2], envs.get(id(c)))))
        m = re.fullmatch(r"(ValidGrammar::from_grammar\(Grammar::parse\((.*?)\), (.*)\))\.command", cmd)
        res.check(bool(m), rule, f"{rule}:main::aot:{mod}:command-name", f"command <= {cmd[:140]}" + ("" if m else ": must be the `command` of ValidGrammar::from_grammar(Grammar::parse(input), shell)"), f"{fn.file}:{c['l']}")
        ok = False
        if m:
            v = re.escape(m.group(1))
            ok = bool(re.fullmatch(rf"DFA::from_regex_raw\(Regex::from_valid_grammar\({v}, (\S+)\), \1\)\.minimize\(\)", dfa))
        res.check(ok, rule, f"{rule}:main::aot:{mod}:automaton", f"automaton <= {dfa[:60]}..{dfa[-40:]}" + ("" if ok else ": must be minimize(from_regex_raw(from_valid_grammar(<the same validated grammar>, pool), pool))"), f"{fn.file}:{c['l']}")
    # ARMS: Shell::X arm calls module x
    n = 0
    for mt in A.walk(fn.body):
        if mt["k"] != "Match":
            continue
        for a in mt["arms"]:
            vs = [v[0] for v in A.pat_variants(a["pat"]) if v[0].startswith("Shell::")]
            cs = list(P.find_calls(a["body"], names={"write_completion_script"}))
            if len(vs) == 1 and cs:
                n += 1
                v = vs[0].split("::")[-1]
                mods = {c["func"]["path"].split("::")[-2] for c in cs}
                res.check(mods == {v.lower()}, "ARMS", f"ARMS:main::aot:{v}", f"Shell::{v} => {sorted(mods)}::write_completion_script", f"{fn.file}:{a['l']}")
        # (Some(path), None, None, None) => (Shell::Bash, path)
        sc = mt["scrut"]
        if sc["k"] == "Tuple" and len(sc["elems"]) == 4:
            fields = []
            envs_m = envs
            for e in sc["elems"]:
                while e["k"] in ("Ref", "Unary"):
                    e = e["expr"]
                if e["k"] == "Field":
                    fields.append(e["member"])
                else:
                    # a local bound from the options struct (`let Cli { bash: bash_path, .. } = args`, `let b = &args.bash`)
                    q = A.resolve(e, envs_m.get(id(e)) or envs_m.get(id(mt)))
                    while q[0] in ("ref", "deref") or (q[0] == "mcall" and q[1] in ("as_ref", "as_deref", "clone")):
                        q = q[1] if q[0] != "mcall" else q[2]
                    fields.append(q[2] if q[0] in ("field", "bind") else "?")
            for a in mt["arms"]:
                p = a["pat"]
                if p["k"] == "PTuple" and len(p["elems"]) == 4:
                    somes = [i for i, x in enumerate(p["elems"]) if x["k"] == "PTupleStruct" and x["path"] == "Some"]
                    b = a["body"]
                    if len(somes) == 1 and b["k"] == "Tuple" and b["elems"] and b["elems"][0]["k"] == "Path":
                        n += 1
                        v = b["elems"][0]["path"].split("::")[-1]
                        res.check(v.lower() == fields[somes[0]], "ARMS", f"ARMS:main::aot:option-{fields[somes[0]]}", f"--{fields[somes[0]]} selects Shell::{v}", f"{fn.file}:{a['l']}")
    res.floor("ARMS", n, 4)


def _bash_printer_skips(repo, res):
    from vlib import rules_declguard as DG
    DG.declguard_rule(repo, res, modules=("bash",))


def run(repo, res, tier):
    _bash_printer_skips(repo, res)
    from . import c02
    c02.postorder(repo, res)  # the automaton handed to the emitter is built from the fully expanded grammar (definitions expanded in dependency order)
    pipe_rule(repo, res)
    sk_bash.walk_rule(repo, res, tier)
    sk_bash.fb_rule(repo, res, tier)
    sk_bash.matchfn_rule(repo, res, tier)
    sk_bash.fresh_rule(repo, res, tier)
    sk_bash.subacc_rule(repo, res, tier)
    sk_bash.scope_rule(repo, res, tier)
    from vlib import rules_pipeline as RPL
    RPL.from_grammar_order(repo, res)  # levels are assigned after expansion, on the expression that is compiled
    c04.shared_cmd_ids(repo, res)
    # shared with C04 / C02 / C12: two within-word expressions may share one table set only if every table printed for them is
    # compared (ISOCOV); every item leaves level propagation with the level of the `||` branch it is written in, and no pass edits a
    # shared node in place (LEVEL, ARENA-IMMUT); in matches mode a proper prefix of a literal does not end the scan of a complete word (SK-SUB)
    c04.isocov(repo, res)
    c02.levelfield(repo, res)
    c02.arena_immut(repo, res, tier)
    sk_bash.sub_rule(repo, res, tier)
    # what a nonterminal stands for in bash (a `<X@bash>` definition before the built-in, a plain definition before both): LOOKUP,
    # shared with C02 / C11; and the positional `literals` array holds the automaton's literals one for one (LITLIST, shared with C04)
    from . import c11 as _c11
    _c11.lookup_rule(repo, res)
    c04.litlist(repo, res, c04.typer(repo))
    # W5 compares the typed word with the *quoted* literal, and the walk steps over a word produced by an external command only if
    # that word equals a candidate: both need the text in the script to read back as the grammar's text / the command's first
    # tab field -- ENC for bash's encoder (shared with C07 / C04) and SK-CMD V4 for the top-level match site (shared with C17)
    from . import c07 as _c07
    _c07.enc_rule(repo, res, tier=tier, shells=("bash",))
    sk_bash.cmd_rule(repo, res, tier, only="V4:top-level match")
    res.floor("PIPE", res.count("PIPE"), 4)
    res.floor("SK-WALK", res.count("SK-WALK"), 30)
    res.floor("SK-FB", res.count("SK-FB"), 14)
    res.floor("SK-MATCHFN", res.count("SK-MATCHFN"), 6)
    res.floor("FLAGS", res.count("FLAGS"), 11)
