"""C14 -- layout and statement order do not change the output (non-interference by types)."""
import re, collections

from vlib import ast as A, prov as P, mir as M, witness as W

LEVEL = "other"
EXPLANATION = (
    "Layout can reach the output only through (a) the tree the parser builds, (b) source spans, (c) statement order. (b) and (c) are decided here on /repo's current source: "
    "TYREACH (rustc-checked auto-trait witnesses, each with a failing twin: no HumanSpan and no ExprId is reachable in the field types of dfa::DFA / dfa::Inp, i.e. of everything the emitters receive besides the command name), "
    "ABSTRACT (ExprId / RegexNodeId have no ordering -- compile-fail witnesses E0369 with compiling twins; ExprId's number is read only by the Index impls, alloc and Display, and Display is unreachable from main), "
    "SPANUSE (outside parse.rs/check.rs/main.rs a span is only read in regex.rs and only into Error constructors or another span field; dfa.rs discards it in every arm of Inp::from_input; a RegexId -- whose equality does include spans -- is used "
    "only as cache key / lookup index), ORDER (plain definitions are entered into a name-keyed map before any pass runs; the definition passes are keyed by name), "
    "NEUTRAL (parenthesized_expr allocates no node; the `::=`/`=` and `;`/EOF alternatives yield no value). "
    "NOT decided: (a) -- that every token boundary skips blanks/comments and that the tree is the same (C05's territory); uniqueness of the expansion result across topological orders is argued, not checked."
    " SPANKEY: no hash container iterated in code reachable from main has a key type that holds a HumanSpan (resolved types, engine M); HASHORD shared with C10."
)
ASSUMPTIONS = ["rustc's trait solver for the auto-trait witnesses (nightly features auto_traits, negative_impls)", "rustc's MIR call graph for reachability of <ExprId as Display>::fmt"]


def witness_rule(res, names, rule="TYREACH"):
    r = W.run_all()
    for n in names:
        v = r.get(n)
        if v is None:
            res.undecided(rule, f"{rule}:{n}", "witness not run")
            continue
        want = "must compile" if v["want"] is None else f"must fail with {v['want']}"
        got = "compiled" if v["compiled"] else f"failed with {v['codes']}"
        res.check(v["ok"], rule, f"{rule}:{n}", f"{want}: {got}" + (f" -- {v['msg']}" if not v["ok"] else ""), f"tools/witness/bins/{n}.rs")


def abstract_rule(repo, mir, res, rule="ABSTRACT"):
    # `.0` of an ExprId is read only in parse.rs (Index impls, Display)
    readers = []
    for q, f in repo.fns.items():
        envs = None
        for n in A.walk(f.body):
            if n["k"] == "Field" and n["member"] == "0":
                base = n["base"]
                # typed by parameter declaration: `index: ExprId` / `self` of impl ... for ExprId
                if base["k"] == "Path":
                    nm = base["path"]
                    for p in f.params:
                        if p["name"] != nm or not p["ty"]:
                            continue
                        ty = A.norm_ty(p["ty"]).replace("&", "").replace("mut ", "").strip()
                        if ty == "ExprId" or (nm == "self" and f.self_ty == "ExprId"):
                            readers.append(q)
    allowed = {"parse::<Vec<Expr> as Index>::index", "parse::<[Expr] as Index>::index", "parse::<ExprId as Display>::fmt"}
    res.check(set(readers) <= allowed and len(set(readers)) >= 2, rule, f"{rule}:ExprId.0-readers", f"ExprId's number is read in {sorted(set(readers))}", "")
    # no derive of PartialOrd/Ord on the id newtypes
    for name in ("ExprId", "RegexNodeId"):
        st = repo.struct(name)
        ok = st is not None and not ({"PartialOrd", "Ord"} & set(st["derives"]))
        manual = [i for i in repo.impls if i[1] == name and i[2] and ("Ord" in i[2])]
        res.check(ok and not manual, rule, f"{rule}:{name}:no-ord", f"{name} derives {st['derives'] if st else None}; manual Ord impls: {len(manual)}", "")
    # Display for ExprId is not reachable from main
    reach = mir.reachable(["main::main"])
    disp = [p for p in mir.fns if "parse::ExprId as std::fmt::Display" in p]
    res.check(bool(disp) and not any(p in reach for p in disp), rule, f"{rule}:ExprId-display-unreachable", f"{disp} not reachable from main ({len(reach)} reachable functions)", "")
    # ExprId is never cast / converted to an integer outside those readers
    casts = []
    for q, f in repo.fns.items():
        for n in A.walk(f.body):
            if n["k"] == "Cast" and "expr_id" in repo.text(f.file, n["expr"]):
                casts.append(q)
    res.check(not casts, rule, f"{rule}:no-id-casts", f"no `expr_id as _` casts ({casts})", "")


def spanuse_rule(repo, res, rule="SPANUSE"):
    quiet_modules = ("dfa", "tables", "bash", "fish", "zsh", "pwsh", "lib")
    for mod in quiet_modules:
        reads = []
        for f in repo.fns_in(mod):
            for n in A.walk(f.body):
                if n["k"] == "Field" and n["member"] in ("span", "lhs_span", "name_span"):
                    reads.append(f"{f.qname}:.{n['member']}")
                if n["k"] == "MethodCall" and n["method"] == "get_span":
                    reads.append(f"{f.qname}:get_span()")
                if n["k"] == "PField" and n["name"] == "span" and n["pat"]["k"] != "PWild":
                    reads.append(f"{f.qname}:span-binding")
        res.check(not reads, rule, f"{rule}:{mod}:no-span-reads", f"module {mod} never reads a span" if not reads else f"span read in {reads}", "")
    # regex.rs: span reads flow only into Error constructors, get_span's own return, or a `span` field
    bad = []
    n_reads = 0
    for f in repo.fns_in("regex"):
        pm = None
        fenvs = A.collect_envs(f)

        def _span_binding(n, fenvs=fenvs):
            # a variable bound from a `span` field by a pattern (named `span` by shorthand, or anything else)
            if n["k"] != "Path" or "::" in n["path"]:
                return False
            q = A.resolve(n, fenvs.get(id(n)))
            alts = q[1] if q[0] == "alt" else (q,)
            return any(a[0] == "bind" and a[2] == "span" for a in alts)

        for n in A.walk(f.body):
            is_read = (n["k"] == "MethodCall" and n["method"] == "get_span") or _span_binding(n)
            if not is_read:
                continue
            n_reads += 1
            if pm is None:
                pm = A.parent_map(f.body)
            # climb to the consuming construct
            cur = n
            sink = None
            while id(cur) in pm:
                par, key = pm[id(cur)]
                if par["k"] == "Call" and par["func"]["k"] == "Path" and par["func"]["path"].startswith("Error::"):
                    sink = "Error"
                    break
                if par["k"] == "FieldInit" and par["name"] == "span":
                    sink = "span-field"
                    break
                if par["k"] in ("Arm",) and f.name == "get_span":
                    sink = "get_span"
                    break
                if par["k"] in ("Local", "ExprStmt", "Block", "Closure"):
                    break
                cur = par
            if sink is None:
                bad.append(f"{f.qname}:{n['l']}")
    res.check(not bad and n_reads >= 8, rule, f"{rule}:regex:span-sinks", f"{n_reads} span reads in regex.rs, all into Error(..) / span fields / get_span" if not bad else f"span read flows elsewhere at {bad}", "")
    # Inp::from_input discards the span in every arm that has one
    f = repo.fn("dfa::Inp::from_input")
    if f is None:
        res.undecided(rule, f"{rule}:dfa::Inp::from_input", "function not found")
    else:
        n = 0
        ok = True
        for m in [x for x in A.walk(f.body) if x["k"] == "Match"][:1]:
            for a in m["arms"]:
                for pth, pn in A.pat_variants(a["pat"]):
                    if pn["k"] == "PStruct":
                        sp = [fl for fl in pn["fields"] if fl["name"] == "span"]
                        if sp:
                            n += 1
                            ok = ok and sp[0]["pat"]["k"] == "PWild"
                        else:
                            ok = ok and pn["rest"]
        res.check(ok and n >= 3, rule, f"{rule}:dfa::Inp::from_input:span-discarded", f"{n} arms bind `span: _`", f.loc())
        # RegexId: only cache key / lookup index
        envs = A.collect_envs(f)
        pm = A.parent_map(f.body)
        uses = []
        def _is_regex_id(nd):
            # a use of the value bound from the `subword_regex_id` field, whatever the binding is called
            if nd["k"] != "Path" or "::" in nd["path"]:
                return False
            q = A.resolve(nd, envs.get(id(nd)))
            return q[0] == "bind" and q[2] == "subword_regex_id"

        for nd in A.walk(f.body):
            if _is_regex_id(nd):
                par, key = pm.get(id(nd), (None, None))
                while par is not None and par["k"] in ("Ref", "Unary"):
                    par, key = pm.get(id(par), (None, None))
                if par is not None and par["k"] == "MethodCall" and key == "args" and par["method"] in ("get", "lookup", "insert", "contains_key"):
                    uses.append("ok")
                else:
                    uses.append(par["k"] if par else "?")
        res.check(uses and all(u == "ok" for u in uses), rule, f"{rule}:RegexId-uses", f"subword_regex_id used {len(uses)}x, only as cache key / lookup index: {uses}", f.loc())


def order_rule(repo, res, rule="ORDER"):
    f = repo.fn("check::ValidGrammar::from_grammar")
    if f is None:
        res.undecided(rule, f"{rule}:from_grammar", "function not found")
        return
    envs = A.collect_envs(f)
    pm = A.parent_map(f.body)
    ins = [c for c in P.find_calls(f.body, methods={"insert"}) if "lhs_name" in repo.text(f.file, c) or any(x.get("k") == "Field" and x.get("member") == "lhs_name" for x in A.walk(c))]
    passes = [c for c in P.find_calls(f.body, names={"distribute_descriptions", "specialize_nonterminals", "resolve_nonterminals", "get_nonterminals_resolution_order", "check_subword_spaces"})]
    ok = len(ins) == 1 and passes and all(A.before(ins[0], c) for c in passes)
    res.check(ok, rule, f"{rule}:definitions-collected-first", "every plain definition is entered into the name-keyed map before any pass runs", f.loc())
    st = repo.text(f.file, f.body)
    res.check("UstrMap<NontermDefn>" in st, rule, f"{rule}:name-keyed", "definitions live in UstrMap<NontermDefn> (keyed by name, not by position)", f.loc())
    # definition passes are applied per name (loop over the map / over the resolution order), never by statement index
    idx = [n for n in A.walk(f.body) if n["k"] == "Index" and "statements" in repo.text(f.file, n)]
    res.check(not idx, rule, f"{rule}:no-positional-statement-access", "no statements[i] access in from_grammar", f.loc())
    # call variants are aggregated in file order (not permuted by the property)
    f2 = repo.fn("parse::Grammar::iter_call_variants")
    ok2 = False
    if f2 is not None:
        meths = {n["method"] for n in A.walk(f2.body) if n["k"] == "MethodCall"}
        reads = any(n["k"] == "Field" and str(n.get("member")) == "statements" for n in A.walk(f2.body))
        ok2 = reads and not (meths & {"rev", "reverse", "sort", "sort_by", "sort_by_key", "sort_unstable", "sort_unstable_by", "sort_unstable_by_key", "sorted", "sorted_by", "sorted_by_key", "swap", "rotate_left", "rotate_right", "skip", "take", "step_by", "dedup", "unique"})
    res.check(ok2, rule, f"{rule}:call-variants-in-file-order", "call variants are taken in file order", f2.loc() if f2 else "")


def twopass_rule(repo, res, rule="TWOPASS"):
    """Which plain definitions are held against `a specialised nonterminal must be a command` cannot depend on where they stand in the
    file: in Grammar::get_specializations every loop that can raise NonCommandSpecialization walks ALL definitions
    (`self.iter_nonterm_defns()`), and the loop that tests membership in the set of specialised names starts after the loop that
    fills that set has ended.  A list of candidates collected while the set is still being filled misses the definitions that stand
    before their specialisation."""
    fq = "parse::Grammar::get_specializations"
    fn = repo.fn(fq)
    if fn is None:
        res.undecided(rule, f"{rule}:{fq}", "function not found")
        return
    envs = A.collect_envs(fn)
    pm = A.parent_map(fn.body)
    sites = list(P.ctor_sites(fn.body, "Error::NonCommandSpecialization"))
    ok = bool(sites)
    why = f"{len(sites)} NonCommandSpecialization site(s)"
    for s in sites:
        loops = [g[0] for g in A.guards_of(s, pm) if g[0]["k"] == "ForLoop"]
        if not loops:
            ok = False
            why = "a NonCommandSpecialization site outside any loop over the definitions"
            continue
        it = A.resolve(loops[-1]["iter"], envs.get(id(loops[-1])))
        while it[0] in ("ref", "deref") or (it[0] == "mcall" and it[1] in ("iter", "into_iter")):
            it = it[1] if it[0] != "mcall" else it[2]
        if not (it[0] == "mcall" and it[1] == "iter_nonterm_defns"):
            ok = False
            why = f"a loop that can raise NonCommandSpecialization walks {A.show(it)[:70]}, not all definitions"
    res.check(ok, rule, f"{rule}:{fq}:checks-walk-all-definitions", why, fn.loc())
    # membership tests on a set are made only after the loop that fills it
    bad = []
    for ins in P.find_calls(fn.body, methods={"insert"}):
        r = ins["recv"]
        if r["k"] != "Path" or len(ins["args"]) != 1:
            continue
        fill = [g[0] for g in A.guards_of(ins, pm) if g[0]["k"] == "ForLoop"]
        if not fill:
            continue
        for c in P.find_calls(fn.body, methods={"contains"}):
            if c["recv"]["k"] == "Path" and c["recv"]["path"] == r["path"]:
                inside = any(g[0] is fill[-1] for g in A.guards_of(c, pm))
                if inside:
                    bad.append(f"{r['path']}.contains at line {c['l']} inside the loop that fills it")
    res.check(not bad, rule, f"{rule}:{fq}:set-complete-before-tested", "the set of specialised names is tested only after the loop that fills it" if not bad else "; ".join(bad[:2]), fn.loc())


def neutral_rule(repo, res, rule="NEUTRAL"):
    f = repo.fn("parse::parenthesized_expr")
    ok = False
    if f is not None:
        allocs = list(P.find_calls(f.body, names={"alloc"}))
        envs = A.collect_envs(f)
        v = A.resolve(f.body, A.fn_env(f))
        vv = P.peel(v)
        inner = vv[2][0] if vv[0] == "call" and P.last(vv[1]) == "Ok" else None
        ok = not allocs and inner is not None and inner[0] == "tuple" and "expr(" in A.show(inner[1][1])
    res.check(ok, rule, f"{rule}:parenthesized_expr", "parentheses allocate no node and return the inner expression id", f.loc() if f else "")
    f = repo.fn("parse::nonterm_def_statement")
    ok = False
    if f is not None:
        for n in A.walk(f.body):
            if n["k"] == "Local" and n.get("init") is not None and "tag(\"::=\")" in repo.text(f.file, n["init"]) and "tag(\"=\")" in repo.text(f.file, n["init"]):
                # `let (rest, _) = alt((tag("::="), tag("=")))(..)?`: only the remaining input is bound, the operator's text is dropped
                pt = n["pat"]
                while pt["k"] == "PType":
                    pt = pt["pat"]
                dropped = pt["k"] == "PTuple" and len(pt["elems"]) == 2 and (pt["elems"][1]["k"] == "PWild" or (pt["elems"][1]["k"] == "PIdent" and pt["elems"][1]["name"].startswith("_")))
                ok = dropped and "alt(" in repo.text(f.file, n["init"])
    res.check(ok, rule, f"{rule}:define-operator", "`::=` and `=` are alternatives of one alt() whose value is discarded", f.loc() if f else "")
    f = repo.fn("parse::end_of_statement")
    ok = False
    if f is not None:
        # structural: an alt that reaches both char(';') and eof, and the function's value type is () (nothing of the terminator is kept)
        noms = {n["path"].split("::")[-1] for n in A.walk(f.body) if n["k"] == "Path"}
        semis = [n for n in A.walk(f.body) if n["k"] == "Lit" and n.get("lit") == "char" and n["v"] == ";"]
        ok = "alt" in noms and "eof" in noms and bool(semis) and "()" in "".join((f.node.get("ret") or "").split())
    res.check(ok, rule, f"{rule}:end-of-statement", "`;` and end of input both yield ()", f.loc() if f else "")
    for q in ("parse::call_variant", "parse::nonterm_def_statement"):
        f = repo.fn(q)
        ok = f is not None and len(list(P.find_calls(f.body, names={"end_of_statement"}))) == 1
        res.check(ok, rule, f"{rule}:{q}:terminator", f"{q} ends with end_of_statement", f.loc() if f else "")
    # blanks(): whitespace, comments and form feed are one alternative each, value discarded
    f = repo.fn("parse::blanks")
    ok = False
    if f is not None:
        # structural: one `alt` whose alternatives reach a whitespace parser, a parser of '#' and a parser of the form feed character
        by_name = {g.name: g for g in repo.fns_in("parse")}
        seen_fns, work, lits, noms = set(), [f], set(), set()
        while work:
            g = work.pop()
            if g.name in seen_fns:
                continue
            seen_fns.add(g.name)
            for n in A.walk(g.body):
                if n["k"] == "Path":
                    c = n["path"].split("::")[-1]
                    noms.add(c)
                    if c in by_name:
                        work.append(by_name[c])
                if n["k"] == "Lit" and n.get("lit") == "char":
                    lits.add(n["v"])
        ok = "alt" in noms and ("multispace1" in noms or "multispace0" in noms) and "#" in lits and "\x0c" in lits
    res.check(ok, rule, f"{rule}:blanks", "blanks = alt of whitespace | a parser of `#` | a parser of the form feed character", f.loc() if f else "")


def blanks_rule(repo, res, rule="BLANKS"):
    """Whitespace, line breaks, # comments and form feeds are skipped by the parser's own skippers (blanks / multiblanks0 /
    multiblanks1 / comment ...).  nom's raw whitespace parsers (multispace0/1, space0/1, line_ending, newline, char(' ') ...)
    do not know comments or form feeds: they may be called only from inside those skippers.  A token boundary that uses one
    directly accepts some layouts of a grammar and rejects (or mis-tokenises) others."""
    raw = {"multispace0", "multispace1", "space0", "space1", "line_ending", "newline", "crlf", "tab", "not_line_ending"}
    skippers = set()
    users = {}
    for fn in repo.fns_in("parse"):
        for n in A.walk(fn.body):
            name = None
            if n["k"] == "Path":
                name = n["path"].split("::")[-1]
            if name in raw:
                users.setdefault(fn.qname, set()).add(name)
    # a skipper is multiblanks0 / multiblanks1 and whatever they call (blanks, comment, form_feed ...): the call closure, not a name pattern
    by_name = {f.name: f for f in repo.fns_in("parse")}
    work = [n for n in ("multiblanks0", "multiblanks1") if n in by_name]
    closure = set(work)
    while work:
        f = by_name[work.pop()]
        for n in A.walk(f.body):
            if n["k"] == "Path":
                c = n["path"].split("::")[-1]
                if c in by_name and c not in closure:
                    closure.add(c)
                    work.append(c)
    skippers = {by_name[n].qname for n in closure}
    tabled = {"parse::parse_escaped_whitespace": "inside a quoted description: a backslash followed by a run of whitespace is part of the string syntax, not a token boundary"}
    skippers |= set(tabled)
    for q, names in sorted(users.items()):
        res.check(q in skippers, rule, f"{rule}:{q}", f"uses nom's raw {sorted(names)}" + (" inside a blank/comment skipper" if q in skippers else ": a token-level parser skips plain whitespace only here -- comments and form feeds at this boundary are not skipped (layout changes the parse)"), repo.fns[q].loc())
    # the same knowledge at the level of str / char: `trim_start`, `split_whitespace`, `char::is_whitespace` .. know blanks and line
    # breaks but not `#` comments, so a parser that looks ahead over `input.fragment().trim_start()` sees the next token in one
    # layout and a comment in another.  Allowed inside the skippers and where tabled (text *inside* a token).
    str_ws = {"trim", "trim_start", "trim_end", "trim_ascii", "trim_ascii_start", "trim_ascii_end", "split_whitespace", "split_ascii_whitespace", "is_whitespace", "is_ascii_whitespace",
              "trim_left", "trim_right", "trim_start_matches", "trim_end_matches", "trim_matches"}
    str_tabled = {"parse::triple_bracket_command": "the text between {{{ and }}} is one token; its surrounding blanks are not part of the command"}
    for fn in repo.fns_in("parse"):
        if fn.cfg_test if hasattr(fn, "cfg_test") else False:
            continue
        used = sorted({n["method"] for n in A.walk(fn.body) if n["k"] == "MethodCall" and n["method"] in str_ws} |
                      {n["path"].split("::")[-1] for n in A.walk(fn.body) if n["k"] == "Path" and "::" in n["path"] and n["path"].split("::")[-1] in str_ws})
        if used:
            okq = fn.qname in skippers or fn.qname in str_tabled
            res.check(okq, rule, f"{rule}:{fn.qname}:str-whitespace", f"uses {used}" + (f" ({str_tabled.get(fn.qname, 'inside a skipper')})" if okq else ": str/char whitespace tests do not know `#` comments or form feeds; a look-ahead or a skip built on them treats two layouts of the same grammar differently"), fn.loc())
    res.check(len(skippers) >= 1, rule, f"{rule}:skippers-found", f"skippers that may use the raw parsers: {sorted(skippers)}", "")
    # inside the skippers: the combinators they are built from.  A comment may be empty (`#` at the end of a line), a form feed is one
    # character, blank runs need at least one character to make progress: the zero-or-more / one-or-more choice of each is part of what
    # "a comment" is.  The combinators used today were read one by one; a different one in a skipper is reported.
    allowed = {"parse::comment": {"char", "take_till"}, "parse::form_feed": {"char"}, "parse::blanks": {"alt", "multispace1", "comment", "form_feed"},
               "parse::multiblanks0": {"blanks"}, "parse::multiblanks1": {"blanks", "multiblanks0"}}
    nomlike = {"char", "tag", "take_till", "take_till1", "take_while", "take_while1", "is_not", "is_a", "many0", "many1", "opt", "alt", "multispace0", "multispace1", "space0", "space1", "not_line_ending", "line_ending",
               "anychar", "none_of", "one_of", "take", "take_until", "take_until1", "recognize", "preceded", "terminated", "delimited", "pair", "tuple", "eof", "fold_many0", "fold_many1", "satisfy", "newline", "tab", "crlf"} | set(by_name)
    named = {k.split("::")[-1] for k in allowed}

    def flat(f, seen=()):
        """combinators a skipper is built from; local helpers that are not themselves named skippers are looked through"""
        out = set()
        for n in A.walk(f.body):
            if n["k"] == "Path":
                c = n["path"].split("::")[-1]
                if c == f.name or c not in nomlike:
                    continue
                if c in ("preceded", "terminated", "delimited", "pair", "tuple", "recognize"):
                    continue  # pure sequencing: `preceded(a, b)` accepts what `a` then `b` written as two steps accept
                if c in by_name and c not in named and c not in seen:
                    out |= flat(by_name[c], seen + (c,))
                else:
                    out.add(c)
        return out

    for q in sorted(k for k in allowed if k in repo.fns):
        f = repo.fns[q]
        used = flat(f)
        extra = sorted(used - allowed.get(q, set()))
        res.check(not extra, rule, f"{rule}:{q}:combinators", f"built from {sorted(used)}" + ("" if not extra else f": {extra} is not among the combinators read for this skipper ({sorted(allowed.get(q, set()))}) -- e.g. a one-or-more body makes the bare `#` of an empty comment a literal"), f.loc())
    # and the statement / expression parsers do call the skippers
    callers = 0
    for fn in repo.fns_in("parse"):
        for n in A.walk(fn.body):
            if n["k"] == "Path" and n["path"].split("::")[-1] in ("multiblanks0", "multiblanks1"):
                callers += 1
    res.check(callers >= 20, rule, f"{rule}:skipper-use-floor", f"{callers} uses of multiblanks0/multiblanks1 in parse.rs (floor 20)", "")


SKIPPER_FNS = {"multiblanks0", "multiblanks1"}
WRAP_FIRST = {"preceded", "pair", "tuple", "delimited", "terminated", "map", "opt", "many0", "many1", "recognize", "cut", "context", "fold_many0"}


def _parser_expr(e):
    while e is not None and e["k"] in ("Try", "Ref", "Unary", "Paren"):
        e = e["expr"]
    if e is not None and e["k"] == "MethodCall" and e["method"] == "parse":
        return _parser_expr(e["recv"])
    return e


def _callee(e):
    if e is None:
        return None
    if e["k"] == "Call":
        f = e["func"]
        if f["k"] == "Path":
            return f["path"].split("::")[-1]
        if f["k"] == "Call":
            return _callee(f)
    if e["k"] == "Path":
        return e["path"].split("::")[-1]
    return None


def starts_with_skipper(repo, e, depth=0):
    """does parser expression e skip blanks/comments before consuming its first token, on every alternative?"""
    e = _parser_expr(e)
    if e is None or depth > 6:
        return False
    name = _callee(e)
    if name in SKIPPER_FNS:
        return True
    if e["k"] == "Call" and name == "alt" and e["args"]:
        alts = e["args"][0]["elems"] if e["args"][0]["k"] == "Tuple" else e["args"]
        return bool(alts) and all(starts_with_skipper(repo, a, depth + 1) for a in alts)
    if e["k"] == "Call" and name in WRAP_FIRST and e["args"]:
        first = e["args"][0]
        if first["k"] == "Tuple" and first["elems"]:
            first = first["elems"][0]
        return starts_with_skipper(repo, first, depth + 1)
    if e["k"] == "Closure":
        return starts_with_skipper(repo, e["body"], depth + 1)
    if e["k"] == "Block":
        for st in e["stmts"]:
            if st["k"] == "Local" and st.get("init") is not None and _is_parser_call(repo, st["init"]):
                return starts_with_skipper(repo, st["init"], depth + 1)
            if st["k"] == "ExprStmt":
                return starts_with_skipper(repo, st["expr"], depth + 1)
        return False
    # a local parser function: its first parser statement
    cands = [f for f in repo.fns_in("parse") if f.name == name]
    if len(cands) == 1 and (e["k"] == "Call" or e["k"] == "Path"):
        for st in cands[0].body["stmts"]:
            if st["k"] == "Local" and st.get("init") is not None and _is_parser_call(repo, st["init"]):
                return starts_with_skipper(repo, st["init"], depth + 1)
            if st["k"] == "ExprStmt" and not st["semi"]:
                return starts_with_skipper(repo, st["expr"], depth + 1)
    return False


NOM = {"char", "tag", "alt", "opt", "map", "preceded", "terminated", "delimited", "many0", "many1", "pair", "tuple", "eof", "take_till", "take_while1", "is_not", "recognize", "fold_many0", "one_of", "none_of"}


def _is_parser_call(repo, init):
    e = _parser_expr(init)
    name = _callee(e)
    if name is None:
        return False
    if name in NOM or name in SKIPPER_FNS:
        return True
    fs = [f for f in repo.fns_in("parse") if f.name == name]
    return len(fs) == 1 and "IResult" in (fs[0].node.get("ret") or "")


def seqskip_rule(repo, res, rule="SEQSKIP"):
    """`Whitespace, newlines, form feeds and # comments between tokens never change` what is parsed: in every parser function written as
    a sequence of `let (input, x) = <parser>(input)?;` steps that skips blanks at all, any two consecutive token-consuming steps are
    separated by a skipper (multiblanks0/1), or the second step itself starts with a skipper on every one of its alternatives.
    A boundary without one accepts `a;` and rejects `a ;` / `a # note\n;`, or accepts a file and rejects it with a final newline."""
    n = 0
    for fn in sorted(repo.fns_in("parse"), key=lambda f: f.node["l"]):
        steps = []
        for st in fn.body["stmts"]:
            if st["k"] == "Local" and st.get("init") is not None and _is_parser_call(repo, st["init"]):
                steps.append(st)
        names = [_callee(_parser_expr(s["init"])) for s in steps]
        if not any(x in SKIPPER_FNS for x in names) or fn.name in SKIPPER_FNS or fn.name == "blanks":
            continue
        prev_token = None
        for s, nm in zip(steps, names):
            if nm in SKIPPER_FNS:
                prev_token = None
                continue
            if prev_token is not None:
                n += 1
                ok = starts_with_skipper(repo, s["init"])
                res.check(ok, rule, f"{rule}:parse::{fn.name}:{prev_token}->{nm}", f"`{nm}` follows `{prev_token}` " + ("and skips blanks itself before its first token" if ok else "with no blank/comment skipper between them (and does not start with one on every alternative): layout at this boundary changes whether the file parses"), f"{fn.file}:{s['l']}")
            prev_token = nm
        n += 1
        res.ok(rule, f"{rule}:parse::{fn.name}:sequence", f"steps {names}", fn.loc())
    res.floor(rule, n, 8)


def span_bearing_types(repo):
    """names of the crate's structs / enums that hold a source position (HumanSpan), directly or through a field of such a type"""
    defs = {}
    for st in repo.structs.values() if hasattr(repo, "structs") else []:
        defs[st["name"]] = " ".join(str(f.get("ty")) for f in st["fields"])
    for en in repo.enums.values() if hasattr(repo, "enums") else []:
        defs[en["name"]] = " ".join(str(f.get("ty")) for v in en["variants"] for f in v["fields"])
    bearing = {"HumanSpan"}
    changed = True
    while changed:
        changed = False
        for n, txt in defs.items():
            if n not in bearing and set(re.findall(r"[A-Za-z_]\w*", txt)) & bearing:
                bearing.add(n)
                changed = True
    return bearing


def _first_type_arg(ty):
    i = ty.find("<")
    if i < 0:
        return ""
    d, j = 0, i
    for j in range(i, len(ty)):
        ch = ty[j]
        d += ch == "<"
        d -= ch == ">"
        if (ch == "," and d == 1) or d == 0:
            break
    return ty[i + 1:j]


def spankey_rule(repo, res, tier, rule="SPANKEY"):
    """`only the tokens and their order matter`: the order in which a hash container hands out its elements depends on the hash of the
    KEY; a key that contains a source position (line / column of a token) makes that order -- and whatever is numbered in that order
    -- follow the layout of the grammar file.  Every iteration over a hash container reachable from main (engine M, resolved types)
    must have a key type free of HumanSpan."""
    from . import c10
    it_sites, random_uses, sens = c10.iteration_sites(tier)
    bearing = span_bearing_types(repo)
    groups = collections.Counter((s_["fn"], s_["ty"]) for s_ in it_sites)
    bad = 0
    for (fn, ty), n in sorted(groups.items()):
        key = _first_type_arg(ty)
        hit = sorted(set(re.findall(r"[A-Za-z_]\w*", key)) & bearing)
        if hit:
            bad += 1
            res.bad(rule, f"{rule}:{fn}:{key[:60]}", f"{n} iteration(s) over {ty[:90]}: the key holds a source position ({hit}), so the iteration order changes when the grammar is laid out differently", "")
    res.check(len(groups) >= 10, rule, f"{rule}:scan", f"{len(groups)} hash-container iteration sites reachable from main inspected ({len(bearing)} position-bearing types: {sorted(bearing)[:8]}..): {bad} with a position in the key", "")
    # a container whose order is seeded per process is not a function of the text at all (HASHORD, shared with C10)
    c10.hashord_rule(res, it_sites, random_uses, sens)


def run(repo, res, tier):
    spankey_rule(repo, res, tier)
    twopass_rule(repo, res)
    from . import c08
    c08.guard_rules(repo, res)  # order of definitions: each rejection is decided by a predicate that does not depend on which definition comes first (e.g. duplicates among plain definitions only)
    seqskip_rule(repo, res)
    blanks_rule(repo, res)
    from . import common, c02
    # statement order: the dependency graph sees every reference (also inside `||`), and expansion is post-order over it, so every
    # topological order of the definitions yields the same expanded expression
    common.run_traversals(repo, res, only={"check::do_get_nonterm_refs"}, rp=False)
    c02.postorder(repo, res)
    mir = M.get_mir(tier)
    res.engines["M"] = {"functions": len(mir.fns)}
    witness_rule(res, ["w_nospan_dfa", "t_nospan_regex", "w_noexprid_regex_dfa", "t_noexprid_expr"], "TYREACH")
    witness_rule(res, ["t_exprid_ord", "w_exprid_eq", "t_regexnodeid_ord", "w_regexnodeid_eq"], "ABSTRACT")
    res.engines["W"] = {"witnesses": 8}
    abstract_rule(repo, mir, res)
    spanuse_rule(repo, res)
    order_rule(repo, res)
    neutral_rule(repo, res)
    res.floor("TYREACH", res.count("TYREACH"), 2)
    res.floor("ABSTRACT", res.count("ABSTRACT"), 4)
    res.floor("SPANUSE", res.count("SPANUSE"), 5)
