"""C17 -- external commands run only when expected, with the documented arguments/output."""
from vlib import rules_pipeline as RPL
from . import sk_bash, common, c11, c04

LEVEL = "other"
EXPLANATION = (
    "Decided on /repo's current source, on the parsed bash skeleton of every flag assignment examined (SK-CMD): V1 the body of _<cmd>_cmd_<id> is the raw command text (trimmed, `:` when empty) and V2 <id> is the index in the one command-id set shared by "
    "all tables; V3 the arguments at each of the four call-site classes are the documented ones, each double-quoted (top-level completion \"$prefix\" \"\"; top-level matching \"\" \"\"; within-word completion \"$completed_prefix\" \"$matched_prefix\"; "
    "within-word matching \"$subword\" \"$matched_prefix\"); V4 each output line contributes the text before its first tab (read with IFS set to a tab only, first field echoed, one candidate per line); V5 in completion the list passes "
    "through the prefix filter with the same prefix the command received (SK-MATCHFN: that filter applies no other condition); V6 every invocation iterates the ids of the command-table cell of the current state, under the `-v` test of that cell / "
    "the level table read at that state; V7 in matching the only state change is under the equality of a candidate with the quoted word, and (SK-FRESH) the candidate arrays compared are reset in every iteration. "
    "FF/TC/RP/LOOKUP (shared with C11): the command text that reaches the automaton is the one of the definition chosen for the target shell, in every position of the grammar. "
    "NOT decided: what the user's command prints; process substitution / readarray semantics of a real bash. One open finding: when the unmatched word is the last complete one the walk is left without failing."
    " SK-SUB S7/S8, LEVEL and ARENA-IMMUT are shared with C01/C02: a command inside `||`, also inside a word, keeps the level of its own branch."
)
ASSUMPTIONS = [
    "vlib/bashparse.py parses the bash subset the templates use; nothing is executed",
    "the four call-site classes are told apart by function (top-level / _subword) and by loop (word walk vs. fallback-level loop)",
]


def _bash_printer_skips(repo, res):
    from vlib import rules_declguard as DG
    DG.declguard_rule(repo, res, modules=("bash",))


def run(repo, res, tier):
    _bash_printer_skips(repo, res)
    sk_bash.cmd_rule(repo, res, tier)
    sk_bash.fresh_rule(repo, res, tier)
    sk_bash.candord_rule(repo, res, tier)
    sk_bash.matchfn_rule(repo, res, tier)
    # inside a word the same `||` order holds only if the shared matcher walks its own levels from 0 on its own tables (S7, S8; shared with C01 / C12)
    sk_bash.sub_rule(repo, res, tier)
    c04.shared_cmd_ids(repo, res)
    c04.names_rule(repo, res)  # the body of _<cmd>_cmd_<id> is fed from the command set; the names called are the names defined
    from vlib import rules_fieldcover as FC
    FC.fieldcover(repo, res, "dfa::DFA::get_commands", "Inp", "cmd", "call:insert", min_matches=2)  # V2: one command-id set numbers the _cmd_<id> functions and every table, main and within-word
    c11.lookup_rule(repo, res)
    c11.ff_specialized_command(repo, res)
    common.run_traversals(repo, res, only={"check::specialize_nonterminals", "check::resolve_nonterminals"})
    from . import c02 as _c02b
    _c02b.levelfield(repo, res)      # a command inside `||` carries the index of its branch (LEVEL, shared with C02)
    _c02b.arena_immut(repo, res, tier)  # .. and a definition used at two levels is relabelled in a copy, not in the node both uses share (ARENA-IMMUT, shared with C02 / C09)
    # a command deep in a chain of definitions is reached only if definitions are expanded in dependency order (TOPO, shared with C02);
    # the command tables of two within-word expressions are shared only when compared (ISOCOV, shared with C04)
    from . import c02
    c02.postorder(repo, res)
    c04.isocov(repo, res)
    res.floor("SK-CMD", res.count("SK-CMD"), 17)
    res.floor("SK-MATCHFN", res.count("SK-MATCHFN"), 6)
    res.floor("FF", res.count("FF"), 3)  # one arm per shell today (4 x 4 fields); a single shared constructor is 4 instances
    res.floor("TC", res.count("TC"), 7)
