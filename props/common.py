"""Rule bundles shared by several properties."""
from vlib import tables
from vlib import rules_tree as T


def run_traversals(repo, res, enum=None, only=None, rp=True, flows=None):
    """TC (+RP for rebuilding passes) on every tabled traversal; returns number of TC instances."""
    t, allow = tables.tree_tables()
    n = 0
    for tr in t["traversal"]:
        if enum and tr["enum"] != enum:
            continue
        if only and tr["fn"] not in only:
            continue
        base_acc = {"flatten_expr"} if tr["enum"] == "Expr" else {"nullable", "firstpos", "lastpos", "do_firstpos", "do_lastpos", "do_followpos"}
        acc = base_acc | set(tr.get("accepts", []))
        n += T.tc_check(repo, res, tr["fn"], tr["enum"], acc, allow.get(tr["fn"], {}), tr.get("ok_adaptors", ()))
        if rp and tr.get("rebuilds"):
            T.rp_check(repo, res, tr["fn"], tr["enum"], acc, (flows or {}).get(tr["fn"], {}))
    return n


def cross_check_sm(repo, res, rule="XCHECK"):
    """thorough tier: the syn view (engine S) and the compiler's view (engine M) must agree on which free / inherent functions
    exist in the shipped crates -- a function one extractor does not see is a blind spot of every rule built on it"""
    from vlib import mir as M

    mir = M.get_mir()
    mp = {p for p, f in mir.fns.items() if not f.parent and "<" not in p}
    sp = {q for q in repo.fns if "<" not in q and not q.startswith("build::")}
    sp = {q[5:] if q.startswith("lib::") else q for q in sp}
    # helpers that engine S reads in place of their calls (vlib/canon.py) exist as functions for the compiler only
    inl = set(getattr(repo, "inlined_helpers", []) or [])
    mp = {p for p in mp if p.split("::")[-1] not in inl}
    only_s, only_m = sorted(sp - mp), sorted(mp - sp)
    res.check(not only_s and not only_m, rule, f"{rule}:S-vs-M:functions", f"{len(sp)} free/inherent functions in the syntax trees, {len(mp)} in the MIR of lib + bin" + ("" if not only_s and not only_m else f"; only in S: {only_s[:8]}; only in M: {only_m[:8]}"), "")


def bash_n_cross_check(repo, res, rule="XCHECK"):
    """thorough tier: bash's own parser (`bash -n`, which reads but never runs its input) must accept every assembled skeleton that
    engine K's parser accepted -- a disagreement means K misreads the program it reasons about.  Holes are plain word tokens."""
    import itertools
    import shutil
    import subprocess
    from vlib import emission as E

    if shutil.which("bash") is None:
        res.advisory("bash is not installed: K's parse of the skeleton has no second opinion")
        return
    fn = repo.fn("bash::write_completion_script")
    names = [n for n, _ in E.flag_names(repo, fn)]
    bad = []
    n = 0
    for v in itertools.product([False, True], repeat=len(names)):
        text, origin, asm = E.assemble(repo, "bash::write_completion_script", dict(zip(names, v)))
        r = subprocess.run(["bash", "-n"], input=text, text=True, capture_output=True)
        n += 1
        if r.returncode != 0:
            bad.append((v, r.stderr.strip()[:120]))
    res.check(not bad, rule, f"{rule}:bash-n:skeletons", f"bash -n accepts {n - len(bad)} of {n} assembled skeletons" + ("" if not bad else f"; first rejection: {bad[0]}"), "")


def discover_traversals(repo, res, rule="TC-DISCOVER"):
    """Every non-test function with a near-exhaustive match over Expr / RegexNode must be tabled
    (as a traversal or as a listed non-traversal): a new pass gets reviewed instead of ignored."""
    t, _ = tables.tree_tables()
    known = {x["fn"] for x in t["traversal"]} | {x["fn"] for x in t.get("not_a_traversal", [])}
    from vlib import ast as A
    for q in sorted(known):
        f = repo.fn(q)
        d = A.delegate(repo, f) if f is not None else None
        if d is not None:
            known.add(d[0].qname)  # a tabled function that became a wrapper: TC follows it into its delegate
    for q, fn in sorted(repo.fns.items()):
        for enum, minv in (("Expr", 6), ("RegexNode", 5)):
            if T.find_enum_matches(repo, fn, enum, minv):
                res.check(q in known, rule, f"{rule}:{q}", f"match over {enum} in {q} " + ("is tabled" if q in known else "is not in tables/tree.toml: new traversal must be reviewed"), fn.loc())
