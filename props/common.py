"""Rule bundles shared by several properties."""
from vlib import tables
from vlib import rules_tree as T


def run_traversals(repo, res, enum=None, only=None, rp=True, flows=None):
    """TC (+RP for rebuilding passes) on every tabled traversal; returns number of TC instances."""
    t, allow = tables.tree_tables()
    n = 0
    for tr in t["traversal"]:
        if enum and tr["enum"] != enum:
            continue
        if only and tr["fn"] not in only:
            continue
        base_acc = {"flatten_expr"} if tr["enum"] == "Expr" else {"nullable", "firstpos", "lastpos", "do_firstpos", "do_lastpos", "do_followpos"}
        acc = base_acc | set(tr.get("accepts", []))
        n += T.tc_check(repo, res, tr["fn"], tr["enum"], acc, allow.get(tr["fn"], {}), tr.get("ok_adaptors", ()))
        if rp and tr.get("rebuilds"):
            T.rp_check(repo, res, tr["fn"], tr["enum"], acc, (flows or {}).get(tr["fn"], {}))
    return n


def discover_traversals(repo, res, rule="TC-DISCOVER"):
    """Every non-test function with a near-exhaustive match over Expr / RegexNode must be tabled
    (as a traversal or as a listed non-traversal): a new pass gets reviewed instead of ignored."""
    t, _ = tables.tree_tables()
    known = {x["fn"] for x in t["traversal"]} | {x["fn"] for x in t.get("not_a_traversal", [])}
    for q, fn in sorted(repo.fns.items()):
        for enum, minv in (("Expr", 6), ("RegexNode", 5)):
            if T.find_enum_matches(repo, fn, enum, minv):
                res.check(q in known, rule, f"{rule}:{q}", f"match over {enum} in {q} " + ("is tabled" if q in known else "is not in tables/tree.toml: new traversal must be reviewed"), fn.loc())
