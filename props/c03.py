"""C03 -- minimisation preserves the language and yields the trim minimal automaton (structural clauses)."""
import re
from vlib import ast as A, prov as P
from vlib import rules_pipeline as RPL

LEVEL = "other"
EXPLANATION = (
    "Hopcroft's refinement loop cannot be certified by a shape rule. Decided on /repo's current source are its structural necessary conditions: NOIDRET (dfa::do_minimize never returns its argument unchanged: an identity "
    "return is right only for an already minimal input), CHAIN (the result is built from keep_only_states_with_input_transitions -> eliminate_nonaccepting_states_without_output_transitions -> renumber_states -> "
    "hashmap_transitions_from_vec, each consuming the previous one's output, and carries the input's symbol pool and within-word pool), REP (start state, accepting states and every transition target are mapped through the "
    "representative map computed from the final partition; representatives are min() of their block), DEAD (make_transitions_image completes every (state, symbol) pair without a transition with a transition to DEAD_STATE_ID; "
    "the initial partition is {dead} + the non-empty ones of {accepting, live non-accepting}, all disjoint by construction), GROUPS (only non-empty blocks are interned: min()/max() are safe), "
    "MPT (minimize is applied to the main automaton before emission and to every within-word automaton before interning). "
    "NOT decided: that the refinement loop computes the coarsest partition; find_bounds' window; minimality in general."
    " NOIDRET also covers DFA::minimize itself (no early return of `self`: a cheaper `already minimal` test is right only if it is state equivalence)."
)
ASSUMPTIONS = ["rustc accepts the tree", "RoaringBitmap set algebra (difference/intersection) is correct"]


C03_CORES = {"dfa::do_minimize", "dfa::find_bounds", "dfa::keep_only_states_with_input_transitions", "dfa::eliminate_nonaccepting_states_without_output_transitions",
             "dfa::renumber_states", "dfa::DFA::make_transitions_image", "dfa::hashmap_transitions_from_vec"}


def core_skips(repo, res):
    """SKIPS over the minimiser: every condition under which a splitter, a symbol, a block or a transition is skipped, every loop
    exit and every guarded update of partition / worklist is one of the rows confirmed by reading against Hopcroft's algorithm
    (tables/skips.toml).  The refinement loop's *correctness* is not decided by this; what is decided is that its control
    skeleton is the reviewed one -- e.g. that all symbols of a splitter are processed even when the splitter itself was split."""
    from vlib import rules_skips as SK, tables

    n = SK.skips_rule(repo, res, tables.load("skips")["row"], only=C03_CORES)
    res.floor("SKIPS", n, 9)


RAW_CTORS = ("DFA::from_regex", "DFA::from_regex_raw", "DFA::from_regex_lenient", "dfa_from_regex")


def minonce(repo, res, rule="MINONCE"):
    """do_minimize reserves state number 0 (DEAD_STATE_ID) for the implicit sink and relies on real states starting at
    FIRST_STATE_ID = 1, which holds for an automaton fresh from the subset construction; its own result is renumbered from 0.
    Minimising a minimised automaton therefore merges the start state with the sink.  Every `.minimize()` call outside tests must
    take an automaton that comes straight from one of the raw constructors and from nothing that was minimised already."""
    n = 0
    for q, f in sorted(repo.fns.items()):
        envs = None
        for c in P.find_calls(f.body, methods={"minimize"}):
            envs = envs or A.collect_envs(f)
            p = A.show(A.resolve(c["recv"], envs.get(id(c))))
            n += 1
            raw = any(r + "(" in p for r in RAW_CTORS)
            twice = ".minimize()" in p
            res.check(raw and not twice, rule, f"{rule}:{q}", f"minimize() receives {p[:90]}" + ("" if raw and not twice else ": not (only) a fresh result of the subset construction -- a renumbered automaton has a real state 0, which do_minimize takes for the dead state"), f"{f.file}:{c['l']}")
    # the two constants the argument rests on
    dead = repo.consts.get("dfa::DEAD_STATE_ID")
    first = repo.consts.get("dfa::FIRST_STATE_ID")
    ok = dead is not None and first is not None and str(dead["expr"].get("v")) == "0" and str(first["expr"].get("v")) == "1"
    res.check(ok, rule, f"{rule}:constants", f"DEAD_STATE_ID = {dead['expr'].get('v') if dead else '?'} < FIRST_STATE_ID = {first['expr'].get('v') if first else '?'}: raw automata never use the sink's number", "src/dfa.rs")
    res.floor(rule, n, 2)


def run(repo, res, tier):
    core_skips(repo, res)
    minonce(repo, res)
    structure_rules(repo, res)


def structure_rules(repo, res):
    """NOIDRET / CHAIN / REP / DEAD / GROUPS / MPT on dfa::do_minimize and its callers (shared with C09: the automaton that is
    interned is the minimised, trimmed, canonically renumbered one)"""
    fq = "dfa::do_minimize"
    fn = repo.fn(fq)
    if fn is None:
        res.undecided("NOIDRET", f"NOIDRET:{fq}", "function not found")
        return
    envs = A.collect_envs(fn)
    pm = A.parent_map(fn.body)
    param = fn.params[0]["name"]
    # ---- NOIDRET
    rets = [n for n in A.walk(fn.body) if n["k"] == "Return"]
    ident = []
    for r in rets:
        if r["expr"] is not None:
            p = A.resolve(r["expr"], envs.get(id(r)))
            if p[0] == "param":
                ident.append(r)
    final = A.resolve(fn.body, A.fn_env(fn))
    res.check(not ident, "NOIDRET", f"NOIDRET:{fq}:no-identity-return",
              "no `return dfa`" if not ident else f"returns its argument unchanged at line(s) {[r['l'] for r in ident]}: equivalent states of such automata are never merged", fn.loc())
    alts = final[1] if final[0] == "alt" else (final,)
    res.check(all(a[0] == "ctor" and P.last(a[1]) == "DFA" for a in alts), "NOIDRET", f"NOIDRET:{fq}:result-is-rebuilt", f"result = {A.show(final)[:80]}", fn.loc())
    res.check(len(rets) == len(ident), "NOIDRET", f"NOIDRET:{fq}:single-exit", f"{len(rets)} early returns", fn.loc())
    # ---- CHAIN
    sites = [s for s in P.ctor_sites(fn.body, "DFA") if s["k"] == "Struct"]
    if len(sites) != 1:
        res.undecided("CHAIN", f"CHAIN:{fq}:ctor", f"{len(sites)} DFA constructor sites")
        return
    site = sites[0]
    env = envs.get(id(site))
    chain = {"hashmap_transitions_from_vec", "renumber_states", "eliminate_nonaccepting_states_without_output_transitions", "keep_only_states_with_input_transitions"}
    tr = A.resolve(P.ctor_field(site, "transitions"), env)
    nest = RPL.call_nest(tr, chain)
    want = ["hashmap_transitions_from_vec", "renumber_states", "eliminate_nonaccepting_states_without_output_transitions", "keep_only_states_with_input_transitions"]
    # call_nest follows all args; dedupe while keeping order
    seen = []
    for x in nest:
        if x not in seen:
            seen.append(x)
    res.check(seen == want, "CHAIN", f"CHAIN:{fq}:transitions", "transitions = " + " <- ".join(seen), f"{fn.file}:{site['l']}")
    st = A.resolve(P.ctor_field(site, "starting_state"), env)
    ac = A.resolve(P.ctor_field(site, "accepting_states"), env)
    # the component of renumber_states' result that is taken (by position in a tuple, or by name in a struct) must be the one
    # renumber_states computes from its own start / accepting parameter
    rfn = repo.fn("dfa::renumber_states")

    def component_from(term, want_param):
        sel = None
        if term[0] == "proj" and "renumber_states" in A.show(term):
            sel = term[2]
        elif term[0] == "bind" and "renumber_states" in A.show(term):
            sel = term[2]
        if sel is None or rfn is None:
            return False
        tail = rfn.body
        while tail.get("k") == "Block" and tail.get("stmts") and tail["stmts"][-1].get("k") == "ExprStmt" and not tail["stmts"][-1].get("semi"):
            tail = tail["stmts"][-1]["expr"]
        comp = None
        if tail.get("k") == "Tuple" and isinstance(sel, int) and sel < len(tail["elems"]):
            comp = tail["elems"][sel]
        elif tail.get("k") == "Struct":
            comp = next((fi["expr"] for fi in tail["fields"] if fi["name"] == str(sel)), None)
        if comp is None:
            return False
        renvs = A.collect_envs(rfn)
        t = A.resolve(comp, renvs.get(id(comp)) or renvs.get(id(tail)) or A.fn_env(rfn))
        found = []

        seen_locals = set()

        def visit(x):
            if isinstance(x, tuple):
                if x and x[0] == "param" and x[1] == want_param:
                    found.append(x)
                if x and x[0] == "local" and x[1] not in seen_locals:
                    # a container filled by a loop: what is put into it counts
                    seen_locals.add(x[1])
                    for m in A.walk(rfn.body):
                        if m["k"] == "MethodCall" and m["method"] in ("insert", "push", "extend", "append") and m["recv"].get("k") == "Path" and m["recv"]["path"] == x[1]:
                            for a in m["args"]:
                                visit(A.resolve(a, renvs.get(id(m)) or A.fn_env(rfn)))
                for y in x:
                    visit(y)
        visit(t)
        return bool(found)
    res.check(component_from(st, 0), "CHAIN", f"CHAIN:{fq}:starting_state", f"starting_state = {A.show(st)[:70]}", f"{fn.file}:{site['l']}")
    res.check(component_from(ac, 2), "CHAIN", f"CHAIN:{fq}:accepting_states", f"accepting_states = {A.show(ac)[:70]}", f"{fn.file}:{site['l']}")
    for fld in ("inputs", "subdfas"):
        p = A.resolve(P.ctor_field(site, fld), env)
        res.check(p == ("field", ("param", 0, param), fld), "CHAIN", f"CHAIN:{fq}:{fld}", f"{fld} = {A.show(p)}", f"{fn.file}:{site['l']}")
    # renumber_states gets the trimmed transitions and the accepting set of keep_only
    for c in P.find_calls(fn.body, names={"renumber_states"}):
        a = [A.resolve(x, envs.get(id(c))) for x in c["args"]]
        ok = "eliminate_nonaccepting_states_without_output_transitions" in A.show(a[1]) and "keep_only_states_with_input_transitions" in A.show(a[2]) and a[2][0] == "proj" and a[2][2] == 1
        res.check(ok, "CHAIN", f"CHAIN:{fq}:renumber-args", f"renumber_states(start, trimmed transitions, alive accepting states)", f"{fn.file}:{c['l']}")
    # ---- REP
    # the representative map is the local that receives `insert(state, <block>.min())`, whatever it is called
    rep_inserts = []
    for c in P.find_calls(fn.body, methods={"insert"}):
        if len(c["args"]) == 2 and "min()" in A.show(A.resolve(c["args"][1], envs.get(id(c)))).replace(" ", ""):
            r = c["recv"]
            while r["k"] in ("Ref", "Unary", "Paren"):
                r = r["expr"]
            if r["k"] == "Path":
                rep_inserts.append((c, r["path"]))
    rep_name = rep_inserts[0][1] if len({n for _, n in rep_inserts}) == 1 else None
    # ... or the map is built by a helper of the module (extracted from here): the helper holds the `insert(state, <block>.min())`, and the
    # map is what the helper returns
    rep_fn, rep_helper, rep_envs, rep_pm, rep_call = fn, None, envs, pm, None
    if not rep_inserts:
        for h in repo.fns_in(fn.module):
            if h is fn or not list(P.find_calls(fn.body, names={h.name})):
                continue
            he = A.collect_envs(h)
            found = []
            for c in P.find_calls(h.body, methods={"insert"}):
                if len(c["args"]) == 2 and "min()" in A.show(A.resolve(c["args"][1], he.get(id(c)))).replace(" ", ""):
                    r = c["recv"]
                    while r["k"] in ("Ref", "Unary", "Paren"):
                        r = r["expr"]
                    if r["k"] == "Path":
                        found.append((c, r["path"]))
            if found:
                rep_inserts, rep_helper, rep_fn, rep_envs, rep_pm = found, h, h, he, A.parent_map(h.body)
                rep_call = list(P.find_calls(fn.body, names={h.name}))[0]
                break

    def rep_get(p, keypred):
        p = P.peel(p)
        if not (p[0] == "mcall" and p[1] == "get" and keypred(p[3][0])):
            return False
        m = P.peel(p[2])
        if rep_helper is not None:
            return m[0] == "call" and P.last(m[1]) == rep_helper.name
        return m[0] == "local" and m[1] == rep_name

    ks = [c for c in P.find_calls(fn.body, names={"keep_only_states_with_input_transitions"})]
    if ks:
        a = [A.resolve(x, envs.get(id(ks[0]))) for x in ks[0]["args"]]
        ok = rep_get(a[0], lambda k: k == ("field", ("param", 0, param), "starting_state"))
        res.check(ok, "REP", f"REP:{fq}:start", f"start state = {A.show(a[0])[:90]}", fn.loc())
        acc = a[2]
    # the new accepting set: the representative is looked up for each element of the old automaton's accepting_states (inserted one
    # by one, or mapped and collected)
    ok = False
    for c in P.find_calls(fn.body, methods={"get"}):
        v = A.resolve(c, envs.get(id(c)))
        ok = ok or rep_get(v, lambda k: k[0] == "elem" and "accepting_states" in A.show(k))
    res.check(ok, "REP", f"REP:{fq}:accepting", "every accepting state is replaced by its representative", fn.loc())
    ts = [s for s in P.ctor_sites(fn.body, "Transition") if s["k"] == "Struct"]
    ok = len(ts) == 1
    if ok:
        e = envs.get(id(ts[0]))
        to = A.resolve(P.ctor_field(ts[0], "to"), e)
        fr = A.resolve(P.ctor_field(ts[0], "from"), e)
        inp = A.resolve(P.ctor_field(ts[0], "input"), e)
        ok = rep_get(to, lambda k: k[0] == "proj" and k[2] == 1) and fr[0] == "proj" and fr[2] == 0 and inp[0] == "proj" and inp[2] == 0 and "transitions" in A.show(fr)
    res.check(ok, "REP", f"REP:{fq}:targets", "every transition target is replaced by its representative; source and symbol are kept", fn.loc())
    # representative = min of its block, for every state of every block of the final partition
    reps = [c for c, _ in rep_inserts]
    ok = len(reps) == 1
    if ok:
        c = reps[0]
        a = [A.resolve(x, rep_envs.get(id(c))) for x in c["args"]]
        loops = [g for g in A.guards_of(c, rep_pm) if g[0]["k"] == "ForLoop"]
        ok = len(loops) == 2 and "min()" in A.show(a[1]).replace(" ", "") and P.peel(a[0])[0] == "call" and "elem" in A.show(a[0])
        if ok:
            # the outer loop walks the partition itself: a local container (the one the refinement loop edits), not a filtered view
            ie = loops[1][0]["iter"]
            while ie["k"] in ("Ref", "Unary", "Paren") or (ie["k"] == "MethodCall" and ie["method"] in ("iter", "into_iter") and not ie["args"]):
                ie = ie["expr"] if ie["k"] != "MethodCall" else ie["recv"]
            ok = False
            if rep_helper is not None and ie["k"] == "Path":
                # inside the helper the partition is a parameter: take what the caller passes for it
                pi = next((i for i, prm in enumerate(rep_helper.params) if prm.get("name") == ie["path"]), None)
                if pi is not None and pi < len(rep_call["args"]):
                    ie = rep_call["args"][pi]
                    while ie["k"] in ("Ref", "Unary", "Paren") or (ie["k"] == "MethodCall" and ie["method"] in ("iter", "into_iter") and not ie["args"]):
                        ie = ie["expr"] if ie["k"] != "MethodCall" else ie["recv"]
            if ie["k"] == "Path" and "::" not in ie["path"]:
                df = (envs.get(id(rep_call)) if rep_call is not None else (envs.get(id(loops[1][0])) or A.fn_env(fn))).get(ie["path"])
                edited = [c for c in P.find_calls(fn.body, methods={"remove", "insert"}) if c["recv"]["k"] == "Path" and c["recv"]["path"] == ie["path"]]
                ok = df is not None and df.kind == "let" and len(edited) >= 2
    res.check(ok, "REP", f"REP:{fq}:representative-is-min-of-block", "for every block of `partitions`, every member maps to the block's min()", fn.loc())
    # ---- DEAD
    f2 = repo.fn("dfa::DFA::make_transitions_image")
    if f2 is None:
        res.undecided("DEAD", "DEAD:make_transitions_image", "function not found")
    else:
        e2 = A.collect_envs(f2)
        pm2 = A.parent_map(f2.body)
        ts2 = [s for s in P.ctor_sites(f2.body, "Transition") if s["k"] == "Struct"]
        dead = []
        for s in ts2:
            to = A.resolve(P.ctor_field(s, "to"), e2.get(id(s)))
            if to == ("path", "DEAD_STATE_ID"):
                dead.append(s)
        ok = len(dead) == 1
        why = f"{len(dead)} dead-transition sites"
        if ok:
            s = dead[0]
            loops = [g for g in A.guards_of(s, pm2) if g[0]["k"] == "ForLoop"]
            inner = A.resolve(loops[0][0]["iter"], e2.get(id(loops[0][0]))) if loops else ("none",)
            # the state rows: the outermost enclosing loop (the symbols may come from an inner loop or from an iterator chain)
            outer = A.resolve(loops[-1][0]["iter"], e2.get(id(loops[-1][0]))) if loops else ("none",)
            # what is known to hold where the dead transition is pushed, however the test is spelled (`if present { continue }`,
            # `.filter(|i| !present)`, a local naming the filtered iterator): exactly one negative membership test
            from vlib import preds as PR
            kn = PR.known(repo, f2, s, e2, pm2)
            neg_member = [k for k in kn if re.match(r"^!.*\.contains(_key)?\(", k)]
            g_ok = len(neg_member) == 1 and len(kn) == 1
            fr = A.resolve(P.ctor_field(s, "from"), e2.get(id(s)))
            ii = A.resolve(P.ctor_field(s, "input"), e2.get(id(s)))
            isp = P.spine(ii)
            ok = ".ids" in isp and "field:inputs" in isp and "transitions" in A.show(outer) and g_ok and fr[0] == "proj" and ii[0] == "elem"
            why = f"for every state row and every symbol of self.inputs.ids() that has no transition: push (state, symbol) -> DEAD_STATE_ID (loop={A.show(inner)[:40]}, skip-if-present={g_ok})"
        res.check(ok, "DEAD", "DEAD:make_transitions_image:completion", why, f2.loc())
        srt = [c for c in P.find_calls(f2.body, methods={"sort_unstable_by_key", "sort_by_key"})]
        ok = len(srt) == 1 and ".to" in repo.text(f2.file, srt[0]["args"][0])
        res.check(ok, "DEAD", "DEAD:make_transitions_image:sorted-by-target", "image sorted by target state (find_bounds binary-searches on it)", f2.loc())
    c0 = repo.consts.get("dfa::DEAD_STATE_ID")
    c1 = repo.consts.get("dfa::FIRST_STATE_ID")
    ok = c0 and c1 and c0["expr"].get("v") == "0" and c1["expr"].get("v") == "1"
    res.check(bool(ok), "DEAD", "DEAD:ids", "DEAD_STATE_ID = 0 is never a live state: numbering of constructed states starts at FIRST_STATE_ID = 1", "src/dfa.rs")
    f3 = repo.fn("dfa::dfa_from_regex")
    if f3 is not None:
        e3 = A.collect_envs(f3)
        ok = False
        for n in A.walk(f3.body):
            if n["k"] == "Local" and n.get("init") is not None and A.resolve(n["init"], e3.get(id(n["init"]))) == ("path", "FIRST_STATE_ID"):
                ok = True  # the state counter (whatever its name) starts there
        res.check(ok, "DEAD", "DEAD:first-id", "dfa_from_regex numbers states from FIRST_STATE_ID", f3.loc())
    # ---- GROUPS: initial partition = non-empty groups, pairwise disjoint by construction
    interns = [c for c in P.find_calls(fn.body, methods={"intern"})]
    init = [c for c in interns if any(g[0]["k"] == "Block" for g in [(pm[id(c)][0], 0)]) or True]
    # the three initial groups
    # some `[a, b, c].difference()` whose operands are: all states of the automaton, its accepting states, the singleton {dead}
    diff_ok = False
    for c in P.find_calls(fn.body, methods={"difference"}):
        shown = A.show(A.resolve(c["recv"], envs.get(id(c)))).replace(" ", "")
        parts = shown.strip("[]").split(",")
        if len(parts) == 3 and "get_all_states()" in parts[0] and parts[1].endswith(".accepting_states") and "DEAD_STATE_ID" in parts[2]:
            diff_ok = True
    res.check(diff_ok, "GROUPS", f"GROUPS:{fq}:nonaccepting-is-complement", "live non-accepting = all states - accepting - {dead}", fn.loc())
    guarded = 0
    unguarded = []
    for c in interns:
        arg = A.resolve(c["args"][0], envs.get(id(c)))
        gs = [g for g in A.guards_of(c, pm) if g[0]["k"] == "If"]
        pg = A.preceding_guards(c, pm)
        t = A.show(arg)
        if any("is_empty" in repo.text(fn.file, g[0]["cond"]) for g in gs) or any(k == "if" and "is_empty" in repo.text(fn.file, cnd) for k, cnd, st_ in pg):
            guarded += 1
        elif "from_iter" in t and "DEAD_STATE_ID" in t:
            guarded += 1  # the singleton {dead}
        elif "intersection" in t:
            guarded += 1  # states_to_remove: block came from the `overlapping_sets` filter (!is_disjoint), so the intersection is non-empty
        else:
            unguarded.append(t[:60])
    res.check(not unguarded and guarded >= 4, "GROUPS", f"GROUPS:{fq}:only-nonempty-blocks-interned",
              f"{guarded} intern sites, each the singleton {{dead}}, an intersection with an overlapping block, or under an is_empty() test" if not unguarded else f"possibly empty block interned: {unguarded} (min()/max() of an empty block panic)", fn.loc())
    # ---- MPT
    f4 = repo.fn("main::aot")
    if f4 is not None:
        e4 = A.collect_envs(f4)
        for c in list(P.find_calls(f4.body, names={"write_completion_script"}))[:4]:
            sp = P.spine(A.resolve(c["args"][2], e4.get(id(c))))
            res.check(sp[:2] == [".minimize", "DFA::from_regex_raw"], "MPT", f"MPT:main::aot:emits-minimized:{c['func']['path'].split('::')[-2]}", "emitted automaton = " + " <- ".join(sp[:3]), f"{f4.file}:{c['l']}")
        for c in P.find_calls(f4.body, methods={"to_dot"}):
            if len(c["args"]) == 2 and "array_start" in repo.text(f4.file, c["args"][1]):
                sp = P.spine(A.resolve(c["recv"], e4.get(id(c))))
                res.check(sp[:1] == [".minimize"], "MPT", "MPT:main::aot:dumps-minimized", "--dfa dumps the minimised automaton", f"{f4.file}:{c['l']}")
    f5 = repo.fn("dfa::Inp::from_input")
    if f5 is not None:
        e5 = A.collect_envs(f5)
        for c in P.find_calls(f5.body, methods={"intern"}):
            sp = P.spine(A.resolve(c["args"][0], e5.get(id(c))))
            res.check(sp[:2] == [".minimize", "DFA::from_regex"], "MPT", "MPT:dfa::Inp::from_input:interns-minimized", "interned within-word automaton = " + " <- ".join(sp[:3]), f5.loc())
    f6 = repo.fn("dfa::DFA::minimize")
    if f6 is not None:
        v = A.resolve(f6.body, A.fn_env(f6))
        res.check(v[0] == "call" and P.last(v[1]) == "do_minimize" and v[2][0][0] == "param", "MPT", "MPT:dfa::DFA::minimize", f"minimize(self) = {A.show(v)}", f6.loc())
        # .. on every path: no early return hands the automaton back as it came (a cheaper test for `already minimal` is right only if
        # it is exactly state equivalence, which is what the refinement computes)
        env6 = A.collect_envs(f6)
        early = [r_ for r_ in A.walk(f6.body) if r_["k"] == "Return"]
        ident = [r_ for r_ in early if r_.get("expr") is not None and P.peel(A.resolve(r_["expr"], env6.get(id(r_)) or A.fn_env(f6)))[0] == "param"]
        res.check(not ident, "NOIDRET", "NOIDRET:dfa::DFA::minimize:no-identity-return", "minimize never returns its argument unchanged" if not ident else
                  f"minimize returns `self` unchanged at line {ident[0]['l']}: an automaton that the shortcut takes for minimal is emitted with its equivalent states unmerged", f6.loc())
    res.floor("CHAIN", res.count("CHAIN"), 3)
    res.floor("REP", res.count("REP"), 2)
    res.floor("DEAD", res.count("DEAD"), 2)
    res.floor("MPT", res.count("MPT"), 3)
