"""C11 -- the definition chosen for a nonterminal is the one for the target shell."""
from vlib import ast as A, prov as P
from vlib import rules_pipeline as RPL
from . import common

LEVEL = "other"
EXPLANATION = (
    "Decides on /repo's current source: LOOKUP (the order in which check::specialize_nonterminals consults the target-shell "
    "specialisations, the plain definitions and the builtins, with the roles of the maps resolved from where from_grammar builds them), "
    "DOM (a specialisation is recorded only for the target shell; unknown-shell / non-command checks precede that filter), "
    "FF (the command text flows definition -> UserSpec.cmd -> Expr::Command.cmd unchanged; compadd only for zsh), "
    "TC+MPT (specialisation visits every reference at every nesting in every definition and in the call variants), "
    "ARMS (each shell's builtin constant sits in that shell's arm; PATH gets the file spec, DIRECTORY the directory spec). "
    "NOT decided: that the builtin command strings do what their names say in each shell; value-level behaviour of emitted scripts."
    " ARMS evaluates the built-in command text for every value of the Shell parameter (own vocabulary, directory vs file, PATH and DIRECTORY differ); DECLGUARD and RP of the level pass are shared."
)
ASSUMPTIONS = [
    "rustc accepts the tree; syn view equals the compiled program for non-macro code",
    "the roles of the lookup maps are read from check::ValidGrammar::from_grammar's call sites, not from parameter names",
]

SHELL_TOKENS = {
    "Bash": ["compgen"],
    "Fish": ["__fish_", "$argv"],
    "Zsh": ["_path_files", "_files"],
    "Pwsh": ["Get-ChildItem", "ForEach-Object"],
}


def map_roles(repo, res):
    """param index of specialize_nonterminals -> role, from from_grammar's call sites."""
    fq = "check::ValidGrammar::from_grammar"
    fn = repo.fn(fq)
    sp = repo.fn("check::specialize_nonterminals")
    if fn is None or sp is None:
        return None
    envs = A.collect_envs(fn)
    roles = {}
    calls = list(P.find_calls(fn.body, names={"specialize_nonterminals"}))
    for c in calls:
        env = envs.get(id(c))
        for i, a in enumerate(c["args"]):
            p = A.resolve(a, env)
            nest = RPL.call_nest(p, {"get_specializations", "make_builtin_specializations"})
            role = None
            if nest == ["get_specializations"]:
                # which tuple component
                q = p
                while q[0] in ("try", "bind") or (q[0] == "mcall" and q[1] in ("as_mut", "as_ref")):
                    q = q[1] if q[0] == "try" else (q[3] if q[0] == "bind" else q[2])
                role = "user" if (q[0] == "proj" and q[2] == 0) else ("plainspec" if (q[0] == "proj" and q[2] == 1) else None)
            elif nest == ["make_builtin_specializations"]:
                role = "builtin"
            if role:
                roles.setdefault(i, set()).add(role)
    return {i: next(iter(r)) for i, r in roles.items() if len(r) == 1}, calls, fn, envs


def lookup_rule(repo, res, rule="LOOKUP"):
    fq = "check::specialize_nonterminals"
    fn = repo.fn(fq)
    mr = map_roles(repo, res)
    if fn is None or mr is None:
        res.undecided(rule, f"{rule}:{fq}", "function or caller not found")
        return
    roles, calls, caller, cenvs = mr
    res.check(len(calls) == 2 and set(roles.values()) >= {"user", "builtin"}, rule, f"{rule}:roles",
              f"specialize_nonterminals called {len(calls)}x from from_grammar; map roles by argument position: {roles}", caller.loc())
    envs = A.collect_envs(fn)
    arm, m = RPL.arm_for(repo, fn, "Expr", "NontermRef")
    if arm is None:
        res.undecided(rule, f"{rule}:{fq}:arm", "no NontermRef arm", fn.loc())
        return
    # walk the else-if chain that decides the command
    chain = []
    first_if = None
    for n in A.walk(arm["body"]):
        if n["k"] == "If" and n["cond"]["k"] == "Let":
            first_if = n
            break
    if first_if is None:
        if _lookup_via_helper(repo, res, rule, fq, fn, envs, arm, roles, caller, cenvs, calls):
            return
        res.undecided(rule, f"{rule}:{fq}:chain", "no if-let lookup chain in the NontermRef arm", f"{fn.file}:{arm['l']}")
        return
    cur = first_if
    final_else = None
    while cur is not None and cur["k"] == "If":
        c = cur["cond"]
        env = envs.get(id(cur))
        if c["k"] == "Let":
            p = A.resolve(c["expr"], env)
        else:
            p = A.resolve(c, env)
        role = None
        what = A.show(p)
        # <map param>.get / get_mut / contains_key (&nonterm)
        q = p
        if q[0] == "mcall" and q[1] in ("get", "get_mut", "contains_key") and q[2][0] == "param":
            key_ok = bool(q[3]) and q[3][0][0] == "bind" and P.last(q[3][0][1]) == "NontermRef" and q[3][0][2] == "nonterm"
            role = roles.get(q[2][1], f"param:{q[2][2]}") if key_ok else "other-key"
        chain.append((role, what, cur))
        nxt = cur["else"]
        if nxt is not None and nxt["k"] == "If":
            cur = nxt
        else:
            final_else = nxt
            cur = None
    order = [r for r, _, _ in chain]
    loc = f"{fn.file}:{first_if['l']}"
    res.check(order[:1] == ["user"], rule, f"{rule}:{fq}:first-is-target-shell-spec", f"lookup order {order}", loc)
    # the builtin may be consulted only if no plain definition exists
    if "builtin" in order:
        bi = order.index("builtin")
        plain_before = any(r in ("plain",) for r in order[:bi])
        filtered = builtin_filtered_by_plain_defs(repo, caller, cenvs, calls)
        ok = plain_before or filtered
        res.check(ok, rule, f"{rule}:{fq}:plain-definition-overrides-builtin",
                  ("builtin map is filtered by the plain definitions before use" if filtered else "a plain-definition test precedes the builtin lookup") if ok else
                  f"lookup order {order}: the builtin PATH/DIRECTORY meaning is taken although a plain definition may exist (nothing removes plainly defined names from the builtin map, and no plain-definition test precedes it)", loc)
    else:
        res.bad(rule, f"{rule}:{fq}:builtin", f"no builtin lookup found in chain {order}", loc)
    # found nowhere: the reference is returned unchanged (left for resolve_nonterminals / 'any word')
    ok = final_else is not None and A.diverges(final_else)
    if ok:
        rets = [n for n in A.walk(final_else) if n["k"] == "Return"]
        ok = len(rets) == 1 and rets[0]["expr"] is not None and A.resolve(rets[0]["expr"], envs.get(id(rets[0])))[0] == "param"
    res.check(ok, rule, f"{rule}:{fq}:unknown-left-unchanged", "a reference found in no map is returned unchanged", loc)


def _lookup_via_helper(repo, res, rule, fq, fn, envs, arm, roles, caller, cenvs, calls):
    """The lookup chain extracted into a helper of the module (`lookup_specialization(nonterm, user, builtin, fallback) -> Option<..>`):
    the maps are consulted in the source order of the `.get / .get_mut / .contains_key(&<the reference's name>)` calls on the helper's
    parameters, each parameter standing for the argument the arm passes (hence for a role)."""
    for c in P.find_calls(arm["body"]):
        if c["k"] != "Call" or c["func"]["k"] != "Path":
            continue
        h = repo.fn(f"{fn.module}::{c['func']['path'].split('::')[-1]}")
        if h is None or h is fn:
            continue
        # helper parameter -> role / "key"
        prole = {}
        for j, a in enumerate(c["args"]):
            p = A.resolve(a, envs.get(id(c)))
            while p[0] in ("ref", "deref"):
                p = p[1]
            if p[0] == "param" and p[1] in roles:
                prole[j] = roles[p[1]]
            elif p[0] == "param":
                prole[j] = f"param:{p[2]}"
            elif p[0] == "bind" and P.last(p[1]) == "NontermRef" and p[2] == "nonterm":
                prole[j] = "key"
        if "key" not in prole.values() or "user" not in prole.values():
            continue
        henvs = A.collect_envs(h)
        looks = []
        for m in A.walk(h.body):
            if m["k"] == "MethodCall" and m["method"] in ("get", "get_mut", "contains_key") and m["args"]:
                r = A.resolve(m["recv"], henvs.get(id(m)))
                k = A.resolve(m["args"][0], henvs.get(id(m)))
                while k[0] in ("ref", "deref"):
                    k = k[1]
                if r[0] == "param" and k[0] == "param" and prole.get(k[1]) == "key":
                    looks.append((m["l"], m["c"], prole.get(r[1], f"param:{r[2]}")))
        order = [r for _, _, r in sorted(looks)]
        if not order:
            continue
        loc = f"{h.file}:{h.node['l']}"
        res.check(order[:1] == ["user"], rule, f"{rule}:{fq}:first-is-target-shell-spec", f"lookup order {order} (in helper {h.qname})", loc)
        if "builtin" in order:
            bi = order.index("builtin")
            filtered = builtin_filtered_by_plain_defs(repo, caller, cenvs, calls)
            ok = any(r == "plain" for r in order[:bi]) or filtered
            res.check(ok, rule, f"{rule}:{fq}:plain-definition-overrides-builtin", "builtin map is filtered by the plain definitions before use" if filtered else f"lookup order {order}", loc)
        else:
            res.bad(rule, f"{rule}:{fq}:builtin", f"no builtin lookup found in {order}", loc)
        rets = [n for n in A.walk(arm["body"]) if n["k"] == "Return" and n.get("expr") is not None and A.resolve(n["expr"], envs.get(id(n)) or envs.get(id(n["expr"])))[0] == "param"]
        res.check(bool(rets), rule, f"{rule}:{fq}:unknown-left-unchanged", "a reference found in no map is returned unchanged", f"{fn.file}:{arm['l']}")
        return True
    return False


def builtin_filtered_by_plain_defs(repo, caller, envs, calls):
    """from_grammar removes plainly defined names from the builtin map before the first use:
    `<builtin>.retain(|name, _| !<plain defs>.contains_key(name))` at top level, before any specialize call."""
    pm = A.parent_map(caller.body)
    first_use = min((c for c in calls), key=A.pos)
    for n in P.find_calls(caller.body, methods={"retain"}):
        if not A.before(n, first_use) or A.guards_of(n, pm):
            continue
        env = envs.get(id(n))
        recv = A.resolve(n["recv"], env)
        if RPL.call_nest(recv, {"make_builtin_specializations"}) != ["make_builtin_specializations"]:
            continue
        if len(n["args"]) != 1 or n["args"][0]["k"] != "Closure":
            continue
        body = n["args"][0]["body"]
        while body["k"] == "Block" and len(body["stmts"]) == 1 and body["stmts"][0]["k"] == "ExprStmt":
            body = body["stmts"][0]["expr"]
        if body["k"] == "Unary" and body["op"] == "!" and body["expr"]["k"] == "MethodCall" and body["expr"]["method"] == "contains_key":
            r = body["expr"]["recv"]
            if r["k"] == "Path":
                # the map of plain definitions: the local that is filled (`insert(defn.lhs_name, ..)`) inside a loop over
                # iter_nonterm_defns() -- whether in the block that initialises it or in a loop after its declaration
                for ins in P.find_calls(caller.body, methods={"insert"}):
                    rv = ins["recv"]
                    while rv["k"] in ("Ref", "Unary"):
                        rv = rv["expr"]
                    if rv["k"] != "Path" or rv["path"] != r["path"]:
                        continue
                    for g, role in A.guards_of(ins, pm):
                        if g["k"] == "ForLoop" and "iter_nonterm_defns" in A.show(A.resolve(g["iter"], envs.get(id(g)))):
                            return True
    return False


def dom_get_specializations(repo, res, rule="DOM"):
    fq = "parse::Grammar::get_specializations"
    fn = repo.fn(fq)
    if fn is None:
        res.undecided(rule, f"{rule}:{fq}", "function not found")
        return
    envs = A.collect_envs(fn)
    pm = A.parent_map(fn.body)
    sites = [s for s in P.ctor_sites(fn.body, "UserSpec") if s["k"] == "Struct"]
    res.check(len(sites) >= 1, rule, f"{rule}:{fq}:sites", f"{len(sites)} UserSpec constructor sites", fn.loc())
    for idx, s in enumerate(sites):
        env = envs.get(id(s))
        gs = A.preceding_guards(s, pm)
        # shell filter: `if Shell::from_str(name, span)? != target_shell { continue }`
        filt = None
        for kind, cond, st in gs:
            if kind == "if":
                p = A.resolve(cond, envs.get(id(cond)) or env)
                if p[0] == "bin" and p[1] == "!=":
                    sides = [P.peel(p[2]), P.peel(p[3])]
                    calls = [x for x in sides if x[0] == "call" and P.last(x[1]) == "from_str"]
                    params = [x for x in sides if x[0] == "param"]
                    if calls and params:
                        filt = (st, calls[0], params[0])
        arm_shell = None
        for g, role in A.guards_of(s, pm):
            if g["k"] == "Arm":
                vs = A.pat_variants(g["pat"])
                if vs:
                    arm_shell = P.last(vs[0][0])
        tag = arm_shell or str(idx)
        res.check(filt is not None, rule, f"{rule}:{fq}:{tag}:shell-filter",
                  "recorded only after `Shell::from_str(<@shell>)? != target_shell -> continue`" if filt else "UserSpec is recorded without a dominating target-shell filter", f"{fn.file}:{s['l']}")
        if filt:
            # the compared name is the definition's own @shell
            a0 = filt[1][2][0] if filt[1][2] else ("none",)
            ok = any(r[0] == "bind" and r[2] == "shell" for r in A.roots(a0)) or "shell" in A.show(a0)
            res.check(ok, rule, f"{rule}:{fq}:{tag}:filter-uses-own-shell", f"filter parses {A.show(a0)}", f"{fn.file}:{filt[0]['l']}")
            # mistakes in other shells' definitions are still rejected: NonCommandSpecialization precedes the filter
            errs = [e for e in P.ctor_sites(fn.body, "Error::NonCommandSpecialization")]
            early = [e for e in errs if A.before(e, filt[0]) and any(g[0]["k"] == "ForLoop" for g in A.guards_of(e, pm))]
            res.check(bool(early), rule, f"{rule}:{fq}:{tag}:non-command-check-precedes-filter", f"{len(early)} NonCommandSpecialization site(s) before the shell filter", f"{fn.file}:{filt[0]['l']}")
        # row: cmd <= the definition's command text ; span <= lhs_span ; used <= false
        cmd = A.resolve(P.ctor_field(s, "cmd"), env)
        ok = cmd[0] == "bind" and P.last(cmd[1]) == "Command" and cmd[2] == "cmd" and "rhs_expr_id" in A.show(cmd[3])
        res.check(ok, "FF", f"FF:{fq}:{tag}:UserSpec.cmd", f"UserSpec.cmd <= {A.show(cmd)}", f"{fn.file}:{s['l']}")
        sp = A.resolve(P.ctor_field(s, "span"), env)
        ok = sp[0] == "field" and sp[2] == "lhs_span"
        res.check(ok, "FF", f"FF:{fq}:{tag}:UserSpec.span", f"UserSpec.span <= {A.show(sp)}", f"{fn.file}:{s['l']}")
        us = A.resolve(P.ctor_field(s, "used"), env)
        res.check(us == ("lit", False), "FF", f"FF:{fq}:{tag}:UserSpec.used", f"UserSpec.used <= {A.show(us)}", f"{fn.file}:{s['l']}")
        # inserted under the definition's own name
        st = A.stmt_of(s, pm)
        ent = [c for c in P.find_calls(st, methods={"entry", "insert"})] if st else []
        if not ent:
            # built into a local first: the map insertion (entry(k) / insert(k, v)) later in the same loop body
            loops = [g for g, _ in A.guards_of(s, pm) if g["k"] == "ForLoop"]
            scope = loops[0]["body"] if loops else fn.body
            ent = [c for c in P.find_calls(scope, methods={"entry", "insert"}) if A.before(s, c) and ((c["method"] == "entry" and len(c["args"]) == 1) or (c["method"] == "insert" and len(c["args"]) == 2))]
        ok = False
        for c in ent:
            if c["args"]:
                k = A.resolve(c["args"][0], envs.get(id(c)))
                if k[0] == "field" and k[2] == "lhs_name":
                    ok = True
        res.check(ok, "FF", f"FF:{fq}:{tag}:key", "inserted under defn.lhs_name", f"{fn.file}:{s['l']}")
    # every Shell arm records a row (if the insertion is split by shell)
    shells = [v["name"] for v in (repo.enum("Shell") or {"variants": []})["variants"]]
    arms_seen = set()
    for s in sites:
        for g, role in A.guards_of(s, pm):
            if g["k"] == "Arm":
                for pth, _ in A.pat_variants(g["pat"]):
                    arms_seen.add(P.last(pth))
    if arms_seen:
        res.check(arms_seen >= set(shells), "ARMS", f"ARMS:{fq}:all-shells", f"rows recorded in arms {sorted(arms_seen)} of {shells}", fn.loc())


def ff_specialized_command(repo, res, rule="FF"):
    fq = "check::specialize_nonterminals"
    fn = repo.fn(fq)
    if fn is None:
        res.undecided(rule, f"{rule}:{fq}", "function not found")
        return
    envs = A.collect_envs(fn)
    pm = A.parent_map(fn.body)
    arm, m = RPL.arm_for(repo, fn, "Expr", "NontermRef")
    if arm is None:
        res.undecided(rule, f"{rule}:{fq}:arm", "no NontermRef arm", fn.loc())
        return
    sites = [s for s in P.ctor_sites(arm["body"], "Expr::Command") if s["k"] == "Struct"]
    res.check(len(sites) >= 1, rule, f"{rule}:{fq}:sites", f"{len(sites)} Expr::Command constructor sites in the NontermRef arm", f"{fn.file}:{arm['l']}")
    seen = set()
    for s in sites:
        env = envs.get(id(s))
        shell = None
        for g, role in A.guards_of(s, pm, stop=arm):
            if g["k"] == "Arm":
                vs = A.pat_variants(g["pat"])
                if vs:
                    shell = P.last(vs[0][0])
        tag = shell or "any"
        seen.add(tag)
        loc = f"{fn.file}:{s['l']}"
        cmd = A.resolve(P.ctor_field(s, "cmd"), env)
        # cmd is the .cmd of whichever spec was found: every alternative is a `.cmd` field / Spec.cmd binding / tuple.0
        q = cmd
        if q[0] == "proj":
            q = q[1]
        alts = q[1] if q[0] == "alt" else (q,)
        def cmd_like(t):
            if t[0] == "tuple":
                t = t[1][0]
            if t[0] == "field" and t[2] == "cmd":
                return True
            if t[0] == "bind" and t[2] in ("cmd", "0"):
                return True
            if t[0] in ("deref", "ref"):
                return cmd_like(t[1])
            if t[0] == "proj" and t[2] == 0 and t[1][0] in ("bind", "elem"):
                return True  # Some((cmd, _)) of the plain-definition fallback map (matched, or mapped over the Option)
            return False
        ok = all(cmd_like(t) for t in alts) and len(alts) >= 2
        if not ok:
            # the command comes out of a lookup helper of the module: component 0 of what it returns, and every pair the helper returns
            # has a spec's command in that place
            t = P.peel(cmd)
            if t[0] == "proj" and t[2] == 0:
                src = t[1]
                while src[0] in ("bind", "try") or (src[0] == "mcall" and src[1] in ("unwrap", "expect")):
                    src = src[3] if src[0] == "bind" else (src[1] if src[0] == "try" else src[2])
                if src[0] == "call":
                    h = repo.fn(f"{fn.module}::{P.last(src[1])}")
                    if h is not None and h is not fn:
                        henvs = A.collect_envs(h)
                        firsts = []
                        for tp in A.walk(h.body):
                            if tp["k"] == "Tuple" and len(tp["elems"]) == 2:
                                firsts.append(A.resolve(tp["elems"][0], henvs.get(id(tp))))
                        ok = len(firsts) >= 2 and all(cmd_like(x) or cmd_like(("tuple", (x,))) for x in firsts)
        res.check(ok, rule, f"{rule}:{fq}:{tag}:Command.cmd", f"Expr::Command.cmd <= {A.show(cmd)[:200]}", loc)
        for fld, src in (("fallback", "fallback"), ("span", "span")):
            p = A.resolve(P.ctor_field(s, fld), env)
            ok = p[0] == "bind" and P.last(p[1]) == "NontermRef" and p[2] == src
            res.check(ok, rule, f"{rule}:{fq}:{tag}:Command.{fld}", f"Expr::Command.{fld} <= {A.show(p)}", loc)
        z = A.resolve(P.ctor_field(s, "zsh_compadd"), env)
        if shell == "Zsh":
            ok = z != ("lit", False) and z != ("lit", True)
            res.check(ok, rule, f"{rule}:{fq}:Zsh:Command.zsh_compadd", f"zsh arm: compadd flag <= {A.show(z)[:120]}", loc)
        elif shell is not None:
            res.check(z == ("lit", False), rule, f"{rule}:{fq}:{tag}:Command.zsh_compadd", f"{shell} arm: compadd flag <= {A.show(z)[:80]} (must be false outside zsh)", loc)
    shells = [v["name"] for v in (repo.enum("Shell") or {"variants": []})["variants"]]
    if seen != {"any"}:
        res.check(seen >= set(shells), "ARMS", f"ARMS:{fq}:all-shells", f"command nodes built in arms {sorted(seen)}", fn.loc())
    # the arm's scrutinee is the target shell parameter
    for s in sites[:1]:
        for g, role in A.guards_of(s, pm, stop=arm):
            if g["k"] == "Arm":
                mt = pm[id(g)][0]
                p = A.resolve(mt["scrut"], envs.get(id(mt)))
                res.check(p[0] == "param" and isinstance(p[1], int) and p[1] < len(fn.params) and "Shell" in (fn.params[p[1]].get("ty") or ""), "ARMS", f"ARMS:{fq}:scrutinee", f"arms selected by {A.show(p)}", f"{fn.file}:{mt['l']}")


def _shell_value(repo, fn, envs, e, env, shell, depth=0, binding=None):
    """the string an expression evaluates to when the function's Shell parameter is `shell` (None when it cannot be followed):
    literals, locals (with tuple projections), `match <shell param>`, struct literals (their `cmd` field), `ustr(..)`-like wrappers,
    and calls of helpers of the module that take the shell"""
    if depth > 12 or e is None:
        return None
    k = e["k"]
    rec = lambda x, env_=env, fn_=fn, envs_=envs, b=binding: _shell_value(repo, fn_, envs_, x, env_, shell, depth + 1, b)
    if k == "Lit":
        return e["v"] if e.get("lit") == "str" else None
    if k in ("Ref", "Paren", "Unary", "Try", "Cast"):
        return rec(e["expr"])
    if k == "Block":
        st = e["stmts"]
        return rec(st[-1]["expr"], envs.get(id(st[-1]["expr"])) or env) if st and st[-1]["k"] == "ExprStmt" and not st[-1].get("semi") else None
    if k == "Struct":
        f = [fi for fi in e["fields"] if fi["name"] == "cmd"] or e["fields"][:1]
        return rec(f[0]["expr"]) if f else None
    if k == "Tuple":
        return tuple(rec(x) for x in e["elems"])
    if k == "MethodCall" and not e["args"]:
        return rec(e["recv"])
    if k == "Match":
        sp = A.resolve(e["scrut"], envs.get(id(e)) or env)
        is_shell = sp[0] == "param" or (binding is not None and sp[0] == "param")
        if not is_shell:
            return None
        for arm in e["arms"]:
            vs = [P.last(v[0]) for v in A.pat_variants(arm["pat"])]
            if shell in vs or (not vs and arm["pat"]["k"] == "PWild"):
                return rec(arm["body"], envs.get(id(arm["body"])) or env)
        return None
    if k == "Call" and e["func"]["k"] == "Path":
        nm = e["func"]["path"].split("::")[-1]
        h = next((g for g in repo.fns_in(fn.module) if g.name == nm and g is not fn), None)
        if h is not None and any("Shell" in (prm.get("ty") or "") for prm in h.params):
            henvs = A.collect_envs(h)
            return _shell_value(repo, h, henvs, h.body, A.fn_env(h), shell, depth + 1, True)
        if len(e["args"]) == 1:
            return rec(e["args"][0])   # ustr(..), String::from(..), BuiltinSpec::new(..)
        return None
    if k == "Path" and "::" not in e["path"] and env is not None:
        df = env.get(e["path"])
        if df is None or df.init is None or df.kind not in ("let", "bind"):
            return None
        v = _shell_value(repo, fn, envs, df.init, df.env or env, shell, depth + 1, binding)
        for pr in (df.proj or ()):
            if isinstance(pr, tuple) and pr[0] == "tuple" and isinstance(v, tuple) and pr[1] < len(v):
                v = v[pr[1]]
            else:
                return None
        return v
    return None


def arms_builtin(repo, res, rule="ARMS"):
    """what <PATH> / <DIRECTORY> stand for in each shell: the command text inserted under each name is evaluated for every value of
    the Shell parameter (through locals, tuples, helper functions); it must be that shell's own vocabulary, the DIRECTORY text must be
    a directory completion, the PATH text must not be, and the two must differ"""
    fq = "check::make_builtin_specializations"
    fn = repo.fn(fq)
    if fn is None:
        res.undecided(rule, f"{rule}:{fq}", "function not found")
        return
    envs = A.collect_envs(fn)
    en = repo.enum("Shell")
    shells = [v["name"] for v in en["variants"]] if en else ["Bash", "Fish", "Zsh", "Pwsh"]
    n_arms = 0
    seen = {}
    for c in P.find_calls(fn.body, methods={"insert_entry", "insert"}):
        env = envs.get(id(c))
        keyname = None
        for r in list(A.walk(c["recv"])) + [x for a in c["args"][:-1] for x in A.walk(a)]:
            if r["k"] == "Lit" and r["lit"] == "str":
                keyname = r["v"]
        if keyname not in ("PATH", "DIRECTORY"):
            continue
        want = "file" if keyname == "PATH" else "directory"
        kinds = set()
        for shell in shells:
            text = _shell_value(repo, fn, envs, c["args"][-1], env, shell)
            if not isinstance(text, str):
                res.undecided(rule, f"{rule}:{fq}:{shell}@{keyname}", f"cannot follow the command text of <{keyname}> for {shell}")
                continue
            n_arms += 1
            seen[(keyname, shell)] = text
            foreign = [t for other, toks in SHELL_TOKENS.items() if other != shell for t in toks if t in text]
            res.check(not foreign, rule, f"{rule}:{fq}:{shell}@{keyname}", f"{shell} command for <{keyname}>: {text!r}" + (f" contains another shell's vocabulary {foreign}" if foreign else ""), f"{fn.file}:{c['l']}")
            low = text.lower()
            kinds.add("directory" if ("director" in low or "-/" in low) else "file")
        kind = kinds.pop() if len(kinds) == 1 else (None if not kinds else "mixed")
        res.check(kind == want, rule, f"{rule}:{fq}:{keyname}", f"<{keyname}> gets the {kind} completion spec", f"{fn.file}:{c['l']}")
    res.check(n_arms >= 8, rule, f"{rule}:{fq}:count", f"{n_arms} shell arms inspected", fn.loc())
    for shell in shells:
        a, b = seen.get(("PATH", shell)), seen.get(("DIRECTORY", shell))
        if a is not None and b is not None:
            res.check(a != b, rule, f"{rule}:{fq}:{shell}:distinct", f"{shell}: <PATH> and <DIRECTORY> stand for different commands" if a != b else f"{shell}: <DIRECTORY> runs the very command of <PATH> ({a!r}): it completes files as well", fn.loc())


def run(repo, res, tier):
    from vlib import rules_skips as SK, tables
    from . import c04
    # which definitions take part at all is decided by the skips of these two functions; and the chosen command text is what runs
    # only if the functions are numbered from the one shared command set
    SK.skips_rule(repo, res, tables.load("skips")["row"], only={"check::ValidGrammar::from_grammar", "parse::Grammar::get_specializations"})
    c04.shared_cmd_ids(repo, res)
    lookup_rule(repo, res)
    dom_get_specializations(repo, res)
    ff_specialized_command(repo, res)
    arms_builtin(repo, res)
    # the command of the chosen definition is what runs only if the within-word wrapper it is printed in declares its own tables
    # (otherwise the shared matcher runs whatever the caller's table of that name holds): DECLGUARD, shared with C01 / C04 / C09
    from vlib import rules_declguard as DG
    DG.declguard_rule(repo, res, modules=("bash",))
    from . import c02 as _c02b
    common.run_traversals(repo, res, only={"check::specialize_nonterminals", "check::resolve_nonterminals", "check::do_propagate_fallback_levels"}, flows=_c02b.flows_table())
    # a definition's body gets its own references replaced only if the dependency collector sees them wherever they stand (TC, shared with C08 / C15)
    common.run_traversals(repo, res, only={"check::do_get_nonterm_refs"}, rp=False)
    RPL.from_grammar_order(repo, res)
    # the chosen definition is what runs only if it is reached at all (definitions expanded in dependency order, TOPO, shared with C02)
    # and if the id under which its function is defined is the id the tables call (base-dimension typing of command-id holes, DIM, shared with C04)
    from . import c02
    c02.postorder(repo, res)
    from vlib import rules_emit as RE, types as TY
    ty = TY.Typer(repo, RE.ROARING_DIMS)
    for mod in RE.EMITTERS:
        base = RE.module_base(repo, mod)
        if base is not None:
            RE.dim_rule(repo, res, mod, ty, base)
    res.floor("LOOKUP", res.count("LOOKUP"), 2)
    res.floor("DOM", res.count("DOM"), 3)  # one site per shell arm today (4 x 3); a shared constructor gives 3-4
    res.floor("FF", res.count("FF"), 18)
    res.floor("ARMS", res.count("ARMS"), 7)
    res.floor("TC", res.count("TC"), 7)
