"""Skeleton rules on the bash program that bash.rs emits (engine K): SK-QUOTE (C07), SK-WALK / SK-FB (C01), SK-SUB (C12), SK-CMD (C17).
Everything is stated on the parsed skeleton (structure, def-use, loop targets), for every assignment of the guard flags examined."""
import itertools
import re

from vlib import ast as A, prov as P, emission as E, bashparse as B

ENTRY = "bash::write_completion_script"
MAIN = "_H__command__H"
SUB = "_H__command__H_subword"
_cache = {}
_asm = {}
_renames = {}


class Flags(dict):
    """one assignment of the emitter's guard flags: keyed by the LOCAL that holds the flag (what the assembler evaluates `if <local>`
    with); the rules ask by the DFA method the flag was read from (`needs_subwords_code`, ...), whatever the local is called"""

    def __init__(self, d, alias):
        super().__init__(d)
        self.alias = alias  # method name -> local name

    def get(self, k, default=None):
        if k in self:
            return self[k]
        if k in self.alias and self.alias[k] in self:
            return self[self.alias[k]]
        return default


def flag_sets(repo, tier):
    fn = repo.fn(ENTRY)
    pairs = E.flag_names(repo, fn)
    names = [n for n, _ in pairs]
    alias = {m: n for n, m in pairs}
    if tier == "thorough":
        return names, [Flags(dict(zip(names, v)), alias) for v in itertools.product([False, True], repeat=len(names))]
    sets = [Flags(dict.fromkeys(names, False), alias), Flags(dict.fromkeys(names, True), alias)]
    for n in names:
        d = dict.fromkeys(names, False)
        d[n] = True
        sets.append(Flags(d, alias))
    return names, sets


def skeleton(repo, flags):
    key = tuple(sorted(flags.items()))
    if key not in _cache:
        text, origin, asm = E.assemble(repo, ENTRY, flags)
        tree = B.parse(text)
        # canonical variable names by role (a consistent rename in the templates is not a change of the program)
        from vlib import shcanon
        mapping = shcanon.discover(tree, MAIN, SUB, "H__MATCH_FN_NAME__H")
        if mapping:
            text = shcanon.rename(text, mapping)
            tree = B.parse(text)
        _renames[key] = mapping
        _cache[key] = (text, tree, B.functions(tree), origin)
        _asm[key] = asm
    return _cache[key]


def fl(flags):
    back = {n: m for m, n in getattr(flags, "alias", {}).items()}
    on = [back.get(k, k).replace("needs_", "").replace("_code", "") for k, v in flags.items() if v]
    return "+".join(on) if on else "none"


def table_slots(repo):
    """shell variable names under which the printers define the tables, keyed by the Rust field they print.
    Read from the templates (slots), not constants of the checker."""
    slots = {}
    for fq, prefix in (("bash::write_match_transitions", "match"), ("bash::write_completion_tables", "completion"), ("bash::write_literals", "literals")):
        fn = repo.fn(fq)
        if fn is None:
            continue
        asm = E.Assembler(repo)
        tree = asm.tree(fn)

        def visit(nodes, field):
            for n in nodes:
                if n.kind == "emit":
                    m = re.search(r"local -[aA] (\w+?)(?:H__\w+__H)?=", n.site.template.replace("{", "H__").replace("}", "__H"))
                    if m and field is not None:
                        slots.setdefault((prefix, field), m.group(1))
                    elif m:
                        slots.setdefault((prefix, m.group(1)), m.group(1))
                elif n.kind == "cond":
                    txt = E.norm_cond(repo, fn, n.cond)
                    f = re.search(r"\.(\w+)$", txt)
                    visit(n.then, f.group(1) if f else field)
                    visit(n.els, field)
                elif n.kind == "loop":
                    txt = "".join(repo.text(fn.file, n.node["iter"]).split()) if n.node["k"] == "ForLoop" else ""
                    f = re.search(r"\.(literal|command|compadd|star)\b", txt)
                    visit(n.body, f.group(1) if f else field)

        # the unconditional header line of the literal table precedes its loop: handle by order
        flat = []
        visit(tree, None)
        # literal table: first `local -A X=()` in write_match_transitions
        if fq.endswith("write_match_transitions"):
            for n in tree:
                if n.kind == "emit":
                    m = re.search(r"local -A (\w+)=\(\)", n.site.template)
                    if m:
                        slots[("match", "literal")] = m.group(1)
                        break
        if fq.endswith("write_literals"):
            for n in tree:
                if n.kind == "emit":
                    m = re.search(r"local -a (\w+)=", n.site.template)
                    if m:
                        slots[("literals", "all")] = m.group(1)
    return slots


def stmts(lst):
    return lst.items if lst is not None and lst.kind == "list" else []


def find_walk_loop(func):
    for n, loops, conds, f in B.walk(func):
        if n.kind == "while" and not loops:
            c = stmts(n.cond_list)
            if len(c) == 1 and c[0].kind == "cond":
                return n
    return None


def cond_tests(node):
    return [t for t in node.tests if t[0] != "conn"]


# ------------------------------------------------------------------ SK-QUOTE (C07)
_dims = {}


def dims_for(repo, flags):
    """(Dims, hole_is_text) of the skeleton under a flag assignment"""
    key = tuple(sorted(flags.items()))
    if key not in _dims:
        from vlib import shdims as SD, taint as T, types as TY, rules_emit as RE

        text, tree, funcs, origin = skeleton(repo, flags)
        asm = _asm[key]
        ty = TY.Typer(repo, RE.ROARING_DIMS)
        tn = T.Taint(repo, ty, set())  # no encoder exempted: "may hold grammar text at run time"
        hole_text = {tok[3:-3]: any(tn.raw(f, e, env) for f, e, env in lst) for tok, lst in asm.holes.items()}
        from vlib import xducer as X_
        te = T.Taint(repo, ty, {"make_string_constant"} | {f.name for f in X_.find_encoders(repo, "bash")})  # what reaches the hole WITHOUT the module's string-constant encoder
        hole_raw = {tok[3:-3]: any(te.raw(f, e, env) for f, e, env in lst) for tok, lst in asm.holes.items()}
        _dims[key] = (SD.Dims(tree, hole_text), hole_text, hole_raw)
    return _dims[key]


def quote_rule(repo, res, tier, rule="SK-QUOTE"):
    """(a) the right operand of [[ = / == / != ]] is a glob pattern wherever an expansion in it is unquoted: every unquoted
    expansion there must be of a clean (non-text) variable; (b) eval re-reads its argument as code: everything expanded at
    the first level must be clean; (c) an unquoted expansion of a text variable in a command argument, array element or
    for-list is split into words and glob-expanded.  `text` / `clean` come from vlib.shdims (def-use over the skeleton)."""
    names, sets = flag_sets(repo, tier)
    seen = {}
    n_tests = n_eval = n_words = 0
    for flags in sets:
        text, tree, funcs, _ = skeleton(repo, flags)
        dims, hole_text, hole_raw = dims_for(repo, flags)
        for n, loops, conds, f in dims.walk_all():
            if n.kind == "cond":
                for t in n.tests:
                    if t[0] != "bin" or t[2] not in ("==", "=", "!="):
                        continue
                    lhs, op, rhs = t[1], t[2], t[3]
                    n_tests += 1
                    key = f"{rule}:pattern:{f}:[[ {lhs} {op} {rhs} ]]"
                    unq = unquoted_expansions(rhs)
                    textv = [v for v in unq if dims.var_is_text(v)]
                    unq_holes = [h for h in unquoted_holes(rhs) if hole_text.get(h, True)]
                    ok = not textv and not unq_holes
                    why = f"right operand {rhs}: " + ("quoted, constant, or expands only clean variables " + str(sorted(set(unq))) if ok else f"unquoted expansion of {textv + unq_holes}, which can hold text ({'; '.join(dims.why.get(v, 'source of text') for v in textv)}): it is matched as a glob pattern, not compared literally")
                    if not ok and textv == ["prefix"] and not unq_holes and rhs.endswith("*"):
                        # deliberate prefix pattern: accepted only if `prefix` was passed through printf %q in the same function
                        fn_nodes = funcs.get(f, [])
                        q_ok = any(any(nn.kind == "simple" and any(a[0] == "prefix" and "printf '%q'" in a[3] for a in B.assignments(nn)) for nn, *_ in B.walk(fnode)) for fnode in fn_nodes)
                        if q_ok:
                            ok = True
                            why = f"right operand {rhs}: prefix was passed through printf %q (pattern characters escaped), the trailing * is the intended pattern"
                    if key not in seen or (seen[key][0] and not ok):
                        seen[key] = (ok, why, n.line)
            elif n.kind == "simple" and n.words and n.words[0] == "eval":
                arg = " ".join(n.words[1:])
                n_eval += 1
                first_level = arg.replace("\\$", "\x00")
                vs = sorted(set(B.vars_in(first_level)))
                bad = [v for v in vs if dims.var_is_text(v)]
                holes = [h for h in SHOLE.findall(first_level) if hole_text.get(h, True)]
                key = f"{rule}:eval:{f}:{arg[:60]}"
                ok = not bad and not holes
                if key not in seen or (seen[key][0] and not ok):
                    seen[key] = (ok, f"eval {arg[:70]} expands {vs} at the first level" + (": all clean (numbers / names built from constants and numbers)" if ok else f"; {bad + holes} can hold text, which eval would run as code"), n.line)
            elif n.kind in ("simple", "for") and (n.kind == "for" or n.words):
                ws = n.words if n.kind == "for" else n.words[1:]
                if n.kind == "simple":
                    first = n.words[0]
                    if B.ASSIGN_RE.match(first) and not first.rstrip().endswith(")"):
                        continue  # scalar assignment: no splitting
                    if first in ("local", "declare", "typeset", "readonly", "export"):
                        ws = [w for w in ws if B.ASSIGN_RE.match(w) and w.rstrip().endswith(")")]
                        ws = [w[w.index("(") :] for w in ws]
                    elif B.ASSIGN_RE.match(first):
                        ws = [first[first.index("(") :]] + list(ws)
                for w in ws:
                    n_words += 1
                    unq = [v for v in unquoted_expansions(w) if dims.var_is_text(v)]
                    unq += [h for h in unquoted_holes(w) if hole_raw.get(h, True) and h not in RAW_CODE_HOLES]
                    if unq:
                        key = f"{rule}:split:{f}:{' '.join(n.words if n.kind == 'simple' else ['for', n.var, 'in'] + n.words)[:60]}"
                        seen[key] = (False, f"word {w[:60]} expands {unq} (can hold text) outside double quotes: the value is split at whitespace and glob-expanded", n.line)
    for key, (ok, why, line) in sorted(seen.items()):
        res.check(ok, rule, key, why, f"bash skeleton line {line}")
    res.check(n_words > 0, rule, f"{rule}:split:scanned", f"{n_words} command words / array elements / for-list words scanned for unquoted expansions of text variables over {len(sets)} flag assignments", "")
    d0 = dims_for(repo, dict.fromkeys(names, True))[0]
    res.engines.setdefault("K", {})["bash_flag_assignments"] = len(sets)
    res.engines["K"]["bash_eq_tests_seen"] = n_tests
    res.engines["K"]["bash_evals_seen"] = n_eval
    res.engines["K"]["shell_vars_text"] = sorted(v for v in d0.text if len(v) > 1 or v == "_")
    res.engines["K"]["shell_vars_clean"] = sorted(d0.assigned - d0.text)
    return len(seen)


SHOLE = re.compile(r"H__(\w+?)__H")
RAW_CODE_HOLES = {"cmd"}  # the body of _<cmd>_cmd_<id>: shell code by design (C07 TEXT allow-list)


def unquoted_holes(word):
    """format holes that sit outside double quotes in a word"""
    out = []
    i = 0
    n = len(word)
    while i < n:
        c = word[i]
        if c == "\\":
            i += 2
            continue
        if c == "'":
            j = word.find("'", i + 1)
            i = n if j < 0 else j + 1
            continue
        if c == '"':
            i = B.read_dquote(word, i + 1)
            continue
        m = SHOLE.match(word, i)
        if m:
            out.append(m.group(1))
            i = m.end()
            continue
        i += 1
    return out


def unquoted_expansions(word):
    """variables expanded outside double quotes in a [[ ]] operand"""
    out = []
    i = 0
    n = len(word)
    while i < n:
        c = word[i]
        if c == "\\":
            i += 2
            continue
        if c == "'":
            j = word.find("'", i + 1)
            i = n if j < 0 else j + 1
            continue
        if c == '"':
            i = B.read_dquote(word, i + 1)
            continue
        if c == "$":
            if word.startswith("$((", i):
                j = word.find("))", i)
                i = n if j < 0 else j + 2
                continue
            m = B.VAR_RE.match(word, i)
            if m:
                if not word.startswith("${#", i):
                    out.append(m.group(1))
                if word.startswith("${", i):
                    i = B.read_balanced(word, i + 2, "{", "}")
                else:
                    i = m.end()
                continue
        i += 1
    return out


# ------------------------------------------------------------------ SK-WALK / SK-FB (C01)
def loop_target(loops, node_words):
    n = 1
    if len(node_words) > 1 and node_words[1].isdigit():
        n = int(node_words[1])
    if n > len(loops):
        return None
    return loops[-n]


def walk_rule(repo, res, tier, rule="SK-WALK", report_leniency=True, only=None):
    names, sets = flag_sets(repo, tier)
    slots = table_slots(repo)
    lit_t = slots.get(("match", "literal"))
    cmd_t = slots.get(("match", "command"))
    star_t = slots.get(("match", "star"))
    lits = slots.get(("literals", "all"))
    if only is None:
        res.check(bool(lit_t and cmd_t and star_t and lits), rule, f"{rule}:slots", f"table variables read from the printers: literal={lit_t} command={cmd_t} star={star_t} literals={lits}", "")
    if not (lit_t and cmd_t and star_t and lits):
        return
    agg = {}

    def rec(key, ok, why, line):
        k = f"{rule}:{key}"
        if k not in agg or (agg[k][0] and not ok):
            agg[k] = (ok, why, line)

    for flags in sets:
        text, tree, funcs, _ = skeleton(repo, flags)
        tag = fl(flags)
        mains = funcs.get(MAIN, [])
        if len(mains) != 1:
            rec(f"main-function[{tag}]", False, f"{len(mains)} definitions of the completion function", 0)
            continue
        main = mains[0]
        body = stmts(main.body.body) if main.body.kind == "group" else []
        wl = find_walk_loop(main)
        if wl is None:
            rec(f"W1:walk-loop[{tag}]", False, "no top-level `while [[ .. ]]` loop in the completion function", main.line)
            continue
        # W1: loop condition and initialisation
        t = cond_tests(stmts(wl.cond_list)[0])
        ok = len(t) == 1 and t[0][0] == "bin" and t[0][2] == "-lt" and t[0][1] == "$word_index" and t[0][3] == "$cword"
        rec("W1:condition", ok, f"walk runs while [[ {stmts(wl.cond_list)[0].text} ]]", wl.line)
        inits = {}
        for s in body:
            if s is wl:
                break
            if s.kind == "simple":
                for a in B.assignments(s):
                    inits[a[0]] = a[3]
        rec("W1:init-word_index", inits.get("word_index") == "1", f"word_index starts at {inits.get('word_index')}", wl.line)
        rec("W1:init-state", inits.get("state") == "H__starting_state__H", f"state starts at {inits.get('state')}", wl.line)
        wb = stmts(wl.body)
        # W2: block order
        blocks = []
        for s in wb:
            if s.kind == "if" and len(s.clauses) == 1 and s.els is None:
                c = stmts(s.clauses[0][0])
                if len(c) == 1 and c[0].kind == "cond":
                    tt = cond_tests(c[0])
                    if len(tt) == 1 and tt[0][0] == "un" and tt[0][1] == "-v":
                        m = re.match(r'^"(\w+)\[\$state\]"$', tt[0][2])
                        blocks.append((m.group(1) if m else None, s))
                        continue
            blocks.append((None, s))
        tables = [b[0] for b in blocks if b[0]]
        want = [lit_t] + (["subword_transitions"] if flags.get("needs_subwords_code") else []) + ([cmd_t] if flags.get("needs_top_level_commands_code") else []) + ([star_t] if flags.get("needs_top_level_star_code") else [])
        rec(f"W2:priority[{tag}]", tables == want, f"transition blocks in order {tables}" + ("" if tables == want else f", required {want} (literal > within-word > command > any-word)"), wl.line)
        first = wb[0] if wb else None
        ok = first is not None and first.kind == "simple" and any(a[0] == "word" and a[3] == "${words[$word_index]}" for a in B.assignments(first))
        rec("W2:current-word", ok, "word=${words[$word_index]} at the top of every iteration", wl.line)
        # W4: falling through every block fails the walk
        lastst = wb[-1] if wb else None
        ok = lastst is not None and lastst.kind == "simple" and lastst.words[:1] == ["return"] and len(lastst.words) == 2 and lastst.words[1] not in ("0",)
        rec("W4:no-match-fails", ok, f"a word matched by no block ends the function with `{' '.join(lastst.words) if lastst is not None and lastst.kind == 'simple' else lastst}`", wl.line)
        # W3: per block
        for tname, blk in blocks:
            if tname is None:
                continue
            inner = stmts(blk.clauses[0][1])
            # locals assigned from the table cell of the current state
            cell_vars = set()
            for s in inner:
                if s.kind == "simple":
                    for a in B.assignments(s):
                        if a[3] == "${%s[$state]}" % tname:
                            cell_vars.add(a[0])
            n_assign = 0
            for n, loops, conds, f in B.walk(blk, (wl,)):
                if n.kind == "simple":
                    for a in B.assignments(n):
                        if a[0] == "state" and a[2] == "=":
                            n_assign += 1
                            m = re.match(r"^\$\{(\w+)\[\$(\w+)\]\}$", a[3])
                            src_ok = bool(m) and (m.group(1) in cell_vars or (m.group(1) == tname and m.group(2) == "state"))
                            rec(f"W3:{tname}:state-from-own-cell[{tag}]", src_ok, f"state={a[3]}" + ("" if src_ok else f" is not read from the cell of {tname} for the current state"), n.line)
                    if n.words[:1] in (["continue"], ["break"]):
                        tgt = loop_target(loops, n.words)
                        if n.words[0] == "continue":
                            rec(f"W3:{tname}:continue-targets-walk[{tag}]", tgt is wl, f"`{' '.join(n.words)}` continues " + ("the word walk" if tgt is wl else "an inner loop: the next word is never read"), n.line)
                        elif tgt is wl or tgt is None:
                            # leaving the walk without failing
                            if report_leniency:
                                rec(f"W4:{tname}:break-leaves-walk", False, f"`{' '.join(n.words)}` leaves the word walk without failing: completion proceeds although the word was not matched", n.line)
            rec(f"W3:{tname}:assigns-state[{tag}]", n_assign >= 1, f"{n_assign} state updates in the {tname} block", blk.line)
            # every state update is followed by exactly one word_index increment and a continue, in the same list
            for n, loops, conds, f in B.walk(blk, (wl,)):
                if n.kind == "list":
                    it = n.items
                    for i, s in enumerate(it):
                        if s.kind == "simple" and any(a[0] == "state" for a in B.assignments(s)):
                            rest = it[i + 1 :]
                            incs = [x for x in it if x.kind == "simple" and any(a[0] == "word_index" and a[3].replace(" ", "").replace("$word_index", "word_index") == "$((word_index+1))" for a in B.assignments(x))]
                            conts = [x for x in rest if x.kind == "simple" and x.words[:1] == ["continue"]]
                            rec(f"W3:{tname}:advance-once[{tag}]", len(incs) == 1 and len(conts) == 1, f"after a state update: {len(incs)} word_index increments, {len(conts)} continue", s.line)
        # W5: the literal test compares the literal with the quoted word by equality
        for tname, blk in blocks:
            if tname != lit_t:
                continue
            found = False
            for n, loops, conds, f in B.walk(blk, (wl,)):
                if n.kind == "cond":
                    for t in n.tests:
                        if t[0] == "bin" and ("${%s[" % lits) in t[1]:
                            found = True
                            ok = t[2] in ("=", "==") and t[3] == '"$word"'
                            rec("W5:literal-equality", ok, f"[[ {t[1]} {t[2]} {t[3]} ]]" + ("" if ok else ": must be an equality with the double-quoted word"), n.line)
            rec(f"W5:literal-test-present[{tag}]", found, "literal block compares ${literals[..]} with the word", blk.line)
            # guarded by the transition existing from this state
            okv = any(n.kind == "cond" and any(t[0] == "un" and t[1] == "-v" and "state_transitions[$literal_id]" in t[2] for t in n.tests) for n, *_ in B.walk(blk))
            rec("W5:literal-needs-transition", okv, "a literal is taken only if the current state has a transition on it", blk.line)
            # the scan over literal ids ends only by taking a transition: the same text can sit under several ids (one per
            # description), so a `break` / `return` on a text match without a transition hides the occurrence that has one
            exits = [n for n, loops, conds, f in B.walk(blk, (wl,)) if n.kind == "simple" and n.words and ((n.words[0] == "break") or (n.words[0] == "return") or (n.words[0] == "continue" and loop_target(loops, n.words) is not wl))]
            rec("W5:scan-ends-only-by-transition", not exits, "the literal scan has no exit other than `continue <walk>` after a transition" if not exits else f"`{' '.join(exits[0].words)}` leaves the literal scan early: a later id with the same text and a transition from this state is never tried", exits[0].line if exits else blk.line)
    for k, (ok, why, line) in sorted(agg.items()):
        if only is None or k.startswith(f"{rule}:{only}"):
            res.check(ok, rule, k, why, f"bash skeleton line {line}")


def fb_rule(repo, res, tier, rule="SK-FB", only=None):
    names, sets = flag_sets(repo, tier)
    slots = table_slots(repo)
    agg = {}

    def rec(key, ok, why, line):
        k = f"{rule}:{key}"
        if k not in agg or (agg[k][0] and not ok):
            agg[k] = (ok, why, line)

    for flags in sets:
        text, tree, funcs, _ = skeleton(repo, flags)
        tag = fl(flags)
        mains = funcs.get(MAIN, [])
        if len(mains) != 1:
            continue
        main = mains[0]
        body = stmts(main.body.body)
        loops = [s for s in body if s.kind == "forarith"]
        if len(loops) != 1:
            rec(f"F1:level-loop[{tag}]", False, f"{len(loops)} top-level arithmetic for loops in the completion function", main.line)
            continue
        lp = loops[0]
        parts = [p.replace(" ", "") for p in lp.parts]
        ok = len(parts) == 3 and parts[0] == "fallback_level=0" and parts[1] == "fallback_level<=max_fallback_level" and parts[2] in ("fallback_level++", "++fallback_level", "fallback_level+=1")
        rec("F1:ascending-from-0-to-max-inclusive", ok, f"for (( {lp.header} ))" + ("" if ok else ": levels must be visited 0..=max_fallback_level ascending"), lp.line)
        inits = {}
        for s in body:
            if s is lp:
                break
            if s.kind == "simple":
                for a in B.assignments(s):
                    inits[a[0]] = a[3]
        rec("F1:max-from-tables", inits.get("max_fallback_level") == "H__max_fallback_level__H", f"max_fallback_level={inits.get('max_fallback_level')}", lp.line)
        rec("F3:prefix-is-current-word", inits.get("prefix") == '"${words[$cword]}"', f"prefix={inits.get('prefix')}", lp.line)
        lb = stmts(lp.body)
        # F2: sources indexed by $state and by the level
        evals = [" ".join(s.words[1:]) for s in lb if s.kind == "simple" and s.words[:1] == ["eval"]]
        want_src = ["literal_transitions_level_"] + (["subword_transitions_level_"] if flags.get("needs_subwords_code") else []) + (["commands_level_"] if flags.get("needs_top_level_commands_code") else [])
        for src in want_src:
            e1 = [e for e in evals if f"{src}${{fallback_level}}" in e]
            namevar = None
            for e in e1:
                m = re.search(r"local (\w+)=" + re.escape(src), e)
                if m:
                    namevar = m.group(1)
            e2 = [e for e in evals if namevar and ("\\${$%s[$state]}" % namevar) in e]
            rec(f"F2:{src}[{tag}]", bool(e1) and bool(e2), f"level table {src}<level> is selected by name and read at [$state]" if e1 and e2 else f"no `eval` pair selecting {src}${{fallback_level}} and reading it at [$state]", lp.line)
        # F3: every source is filtered with the typed prefix
        calls = []
        for n, loops_, conds, f in B.walk(lp):
            if n.kind == "simple" and n.words and n.words[0] == "H__MATCH_FN_NAME__H":
                calls.append(n)
        ok = bool(calls) and all(len(c.words) == 4 and c.words[1] == '"$prefix"' and c.words[3] == "matches" for c in calls)
        rec(f"F3:filtered-by-prefix[{tag}]", ok, f"{len(calls)} calls of the prefix matcher, all with \"$prefix\" into `matches`", lp.line)
        if flags.get("needs_subwords_code"):
            sw = [n for n, *_ in B.walk(lp) if n.kind == "simple" and n.words and n.words[0].startswith(SUB + "_")]
            ok = bool(sw) and all(n.words[1:] == ["complete", '"$prefix"'] for n in sw)
            rec("F3:within-word-complete-gets-prefix", ok, "within-word completer is called as `complete \"$prefix\"`", lp.line)
        # F4: first level with matches wins
        last = lb[-1] if lb else None
        ok = False
        why = "the level loop does not end with `if [[ ${#matches[@]} -gt 0 ]]; then ..; break; fi`"
        if last is not None and last.kind == "if" and last.els is None and len(last.clauses) == 1:
            c = stmts(last.clauses[0][0])
            tt = cond_tests(c[0]) if c and c[0].kind == "cond" else []
            cond_ok = len(tt) == 1 and tt[0][0] == "bin" and tt[0][1] == "${#matches[@]}" and tt[0][2] == "-gt" and tt[0][3] == "0"
            inner = stmts(last.clauses[0][1])
            br = [s for s in inner if s.kind == "simple" and s.words == ["break"]]
            rep = [s for s in inner if s.kind == "simple" and any(a[0] == "COMPREPLY" and "matches[@]" in a[3] for a in B.assignments(s))]
            ok = cond_ok and len(br) == 1 and len(rep) == 1 and inner.index(rep[0]) < inner.index(br[0])
            why = "first level with >= 1 match sets COMPREPLY from `matches` and breaks the level loop" if ok else f"cond={cond_ok} breaks={len(br)} COMPREPLY assignments={len(rep)}"
            # F5: COMP_WORDBREAKS only shortens what is returned
            wb_uses = [n for n, *_ in B.walk(main) if n.kind in ("simple", "forarith", "cond") and "COMP_WORDBREAKS" in (" ".join(n.words) if n.kind == "simple" else (n.header if n.kind == "forarith" else n.text))]
            inside = [n for n, *_ in B.walk(last) if n in wb_uses]
            outside = [n for n in wb_uses if n not in inside and not (n.kind == "simple" and n.words[0] == "_get_comp_words_by_ref")]
            rec("F5:wordbreaks-only-trim-reply", not outside and bool(inside), "COMP_WORDBREAKS is read only inside the reply block (and handed to _get_comp_words_by_ref)" if not outside else f"COMP_WORDBREAKS also used at lines {[n.line for n in outside]}", last.line)
            # the suffix compared is what follows the LAST occurrence of each word-break character: ${prefix##*$char}
            sfx = [a for n2, *_ in B.walk(last) if n2.kind == "simple" for a in B.assignments(n2) if re.search(r"\$\{prefix#", a[3])]
            okl = bool(sfx) and all(re.fullmatch(r'"?\$\{prefix##\*\$\{?\w+\}?\}"?', a[3]) for a in sfx)
            rec("F5:suffix-after-last-wordbreak", okl, f"{[a[0] + '=' + a[3] for a in sfx]}" + ("" if okl else ": the suffix must be taken after the LAST occurrence of the word-break character (##*), as bash itself strips the typed prefix; a single # cuts at the first occurrence and leaves part of the typed word in every reply"), last.line)
            shortest = [c for n2, *_ in B.walk(last) if n2.kind == "cond" for c in [n2.text] if "#candidate" in c or "#shortest_suffix" in c]
            oks = any(re.fullmatch(r"\$\{#candidate\} -lt \$\{#shortest_suffix\}", c.strip()) for c in shortest)
            rec("F5:shortest-suffix-wins", oks, f"{shortest}" + ("" if oks else ": the shortest suffix over all word-break characters must be kept"), last.line)
            # every match of the winning level is offered: the reply block reads `matches` and never rewrites it (a de-duplication
            # or filter placed here drops candidates -- values that are prefixes of one another look alike to a substring test)
            mw = [n2 for n2, *_ in B.walk(last) if n2.kind == "simple" for a in B.assignments(n2) if a[0] == "matches"]
            rec("F4:reply-offers-every-match", not mw, "the reply block does not assign `matches`" if not mw else f"`{' '.join(mw[0].words)[:80]}` rewrites the match list inside the reply block: candidates collected for the winning level are dropped before COMPREPLY is set", (mw[0] if mw else last).line)
            sp = [a[3] for s in inner if s.kind == "simple" for a in B.assignments(s) if a[0] == "COMPREPLY"]
            rec("F5:reply-strips-prefix-only", bool(sp) and "#$superfluous_prefix" in sp[0], f"COMPREPLY={sp[0] if sp else None}", last.line)
        rec(f"F4:first-level-with-matches-wins[{tag}]", ok, why, lp.line)
        # nothing after the loop but `return 0`
        after = body[body.index(lp) + 1 :]
        ok = len(after) == 1 and after[0].kind == "simple" and after[0].words == ["return", "0"]
        rec("F4:returns-0-after-levels", ok, "the function ends with return 0 after the level loop", lp.line)
    for k, (ok, why, line) in sorted(agg.items()):
        if only is None or k.startswith(f"{rule}:{only}"):
            res.check(ok, rule, k, why, f"bash skeleton line {line}")


# ------------------------------------------------------------------ SK-SUB (C12)
def sub_rule(repo, res, tier, rule="SK-SUB"):
    names, sets = flag_sets(repo, tier)
    agg = {}

    def rec(key, ok, why, line):
        k = f"{rule}:{key}"
        if k not in agg or (agg[k][0] and not ok):
            agg[k] = (ok, why, line)

    for flags in sets:
        if not flags.get("needs_subwords_code"):
            continue
        text, tree, funcs, _ = skeleton(repo, flags)
        tag = fl(flags)
        subs = funcs.get(SUB, [])
        if len(subs) != 1:
            rec(f"function[{tag}]", False, f"{len(subs)} definitions of the within-word matcher", 0)
            continue
        sub = subs[0]
        body = stmts(sub.body.body)
        wl = None
        for s in body:
            if s.kind == "while":
                wl = s
                break
        if wl is None:
            rec("scan-loop", False, "no scan loop", sub.line)
            continue
        # literal pass
        lit_for = None
        for n, loops, conds, f in B.walk(wl):
            if n.kind == "forarith" and "literal_id" in n.header:
                lit_for = n
                break
        if lit_for is None:
            rec("S1:literal-loop", False, "no loop over literal ids", wl.line)
            continue
        parts = [p.replace(" ", "") for p in lit_for.parts]
        ok = parts == ["literal_id=0", "literal_id<nliterals", "literal_id++"]
        rec("S1:ids-increasing", ok, f"literal ids visited as (( {lit_for.header} )): increasing id = decreasing length (SORTLEN)", lit_for.line)
        # S6: the scan covers the whole table: its bound is, in THIS function, the element count `${#ARR[@]}` of the array the loop indexes
        # (`${#ARR}` is the length of element 0; a bound set only by a caller is read through dynamic scoping from whoever set it last)
        mb = re.fullmatch(r"(\w+)<(\w+)", parts[1]) if len(parts) == 3 else None
        bound_ok, bound_why = False, "loop bound not of the form id < n"
        if mb:
            idv, bv = mb.group(1), mb.group(2)
            assigns = []
            for n2, _l, _c, _f in B.walk(sub):
                if n2.kind == "simple":
                    for w in n2.words:
                        if w.startswith(bv + "="):
                            assigns.append(w[len(bv) + 1:])
            arrs = set(re.findall(r"\$\{(\w+)\[\$" + re.escape(idv) + r"\]\}", text[text.find(lit_for.header):text.find(lit_for.header) + 1500]))
            bound_ok = len(assigns) == 1 and re.fullmatch(r"\$\{#(\w+)\[@\]\}", assigns[0]) is not None and re.fullmatch(r"\$\{#(\w+)\[@\]\}", assigns[0]).group(1) in arrs
            bound_why = f"bound `{bv}` is assigned {assigns or 'nowhere'} in the matcher; arrays indexed by the loop: {sorted(arrs)}"
        rec("S6:scan-bound-is-table-size", bound_ok, bound_why, lit_for.line)
        accepts = []
        exits = []
        consumes = []
        # `[[ -v "state_transitions[$literal_id]" ]] || continue` at the head of the loop body makes the test hold for everything after it
        # in that iteration (the same test hoisted out of the three conditions)
        hoisted_line = None
        for s0 in stmts(lit_for.body):
            if s0.kind == "andor" and s0.first.kind == "cond" and len(s0.rest) == 1 and s0.rest[0][0] == "||" and s0.rest[0][1].kind == "simple" and s0.rest[0][1].words[:1] == ["continue"] and len(s0.rest[0][1].words) == 1:
                if any(t[0] == "un" and t[1] == "-v" and "state_transitions[$literal_id]" in t[2] for t in cond_tests(s0.first)) and len([t for t in cond_tests(s0.first) if t[0] in ("un", "bin")]) == 1:
                    hoisted_line = s0.line
        for n, loops, conds, f in B.walk(lit_for, (wl,)):
            if n.kind == "if":
                c = stmts(n.clauses[0][0])
                if not c or c[0].kind != "cond":
                    continue
                tt = cond_tests(c[0])
                eqs = [t for t in tt if t[0] == "bin" and t[2] in ("==", "=")]
                has_tr = any(t[0] == "un" and t[1] == "-v" and "state_transitions[$literal_id]" in t[2] for t in tt) or (hoisted_line is not None and hoisted_line < n.line)
                inner = stmts(n.clauses[0][1])
                acts = [s.words for s in inner if s.kind == "simple" and s.words[0] in ("continue", "break")]
                for t in eqs:
                    l, r = t[1], t[3]
                    if l == "$subword" and r in ('"$literal"', "$literal"):
                        accepts.append((n, has_tr, acts))
                    elif l == "$literal" and r in ('"$subword"*', "$subword*"):
                        exits.append((n, has_tr, acts))
                    elif l == "$subword" and r in ('"$literal"*', "$literal*"):
                        consumes.append((n, has_tr, acts, inner))
        rec("S-shape", len(accepts) == 1 and len(exits) == 1 and len(consumes) == 1, f"literal pass has {len(accepts)} exact-match, {len(exits)} typed-text-is-prefix-of-literal and {len(consumes)} literal-is-prefix-of-typed-text tests", lit_for.line)
        if len(accepts) == 1 and len(exits) == 1 and len(consumes) == 1:
            # S2: contradiction rule -- literals are visited longest first, so the exit "typed remainder is a proper prefix of
            # literal i" is reached before the equality with a shorter literal j; a complete earlier word (matches mode) must
            # therefore never take that exit.  Accepted forms: the exit's own condition carries `$mode != matches`
            # (or `$mode = complete`), or the exit sits inside an `if` on that test.
            exn = exits[0][0]
            ctests = cond_tests(stmts(exn.clauses[0][0])[0])
            def is_mode_guard(t):
                return t[0] == "bin" and t[1] in ("$mode", '"$mode"') and ((t[2] == "!=" and t[3].strip('"') == "matches") or (t[2] in ("=", "==") and t[3].strip('"') == "complete"))
            guarded = any(is_mode_guard(t) for t in ctests)
            if not guarded:
                for nn, l2, c2, f2 in B.walk(lit_for, (wl,)):
                    if nn is exn:
                        for c in c2:
                            if c[0].kind == "if" and c[1] is not None:
                                for tnode in stmts(c[1]):
                                    if tnode.kind == "cond" and any(is_mode_guard(t) for t in cond_tests(tnode)):
                                        guarded = True
            only_and = all(t[1] == "&&" for t in stmts(exn.clauses[0][0])[0].tests if t[0] == "conn")
            rec("S2:prefix-exit-not-in-matches-mode", guarded and only_and,
                ("the exit `typed text is a proper prefix of a longer literal` is taken only while completing (mode guard present): a complete word still reaches the equality with the shorter literal" if guarded and only_and else
                 "the literal pass leaves the matcher when the typed remainder is a proper prefix of literal i, also for a COMPLETE earlier word (matches mode): with values a|abc|abcd and the word `abc`, "
                 "the exit fires at `abcd` (longer, visited first) before the equality with `abc` is reached, so the word is not recognised"), exits[0][0].line)
            rec("S3:exit-needs-transition", exits[0][1], "the prefix exit is " + ("" if exits[0][1] else "NOT ") + "conditioned on the literal having a transition from the current state", exits[0][0].line)
            # order inside one iteration: equality first, then the exit, then the consume step
            order_ok = accepts[0][0].line < exits[0][0].line
            rec("S2:equality-before-exit", order_ok, "per literal the exact match is tested before the prefix exit (when both hold -- the literal is typed exactly -- it must be consumed, or nothing after it could ever be offered)" if order_ok else "the prefix exit precedes the exact-match test: an exactly typed literal (e.g. `--opt=`) leaves the matcher instead of being consumed", accepts[0][0].line)
            # each taken branch leaves the iteration: accept/consume continue the scan loop, the exit breaks out of it
            def targets(acts):
                return [a for a in acts]
            def tg(acts, word):
                return len(acts) == 1 and acts[0][0] == word and loop_target((wl, lit_for), acts[0]) is wl
            acc_ok = tg(accepts[0][2], "continue") and tg(consumes[0][2], "continue") and tg(exits[0][2], "break")
            rec("S4:branch-targets", acc_ok, f"accept {accepts[0][2]}, exit {exits[0][2]}, consume {consumes[0][2]}: accept/consume restart the scan at the new position, the exit leaves the scan", lit_for.line)
            rec("S3:accept-needs-transition", accepts[0][1], "exact match requires a transition on that literal from the current state", accepts[0][0].line)
            rec("S3:consume-needs-transition", consumes[0][1], "consuming a literal prefix requires a transition on that literal", consumes[0][0].line)
            # S4: consume advances char_index by the literal's length and takes the cell's state
            inner = consumes[0][3]
            asg = {a[0]: a[3] for s in inner if s.kind == "simple" for a in B.assignments(s)}
            ok = asg.get("subword_state") == "${state_transitions[$literal_id]}" and asg.get("char_index", "").replace(" ", "") == "$((char_index+${#literal}))"
            rec("S4:consume-advances", ok, f"subword_state={asg.get('subword_state')} char_index={asg.get('char_index')}", consumes[0][0].line)
        # S5: matches mode returns success iff the whole word was consumed
        rets = [s for s in body if s.kind == "if" and any("mode" in c.text for c in stmts(s.clauses[0][0]) if c.kind == "cond")]
        ok = False
        if rets:
            inner = stmts(rets[0].clauses[0][1])
            ok = len(inner) == 1 and inner[0].kind == "simple" and inner[0].words[0] == "return" and inner[0].words[1].replace(" ", "") == "$((1-matched))"
        rec("S5:matches-mode-result", ok, "matches mode returns 1 - matched", sub.line)
        first = stmts(wl.body)[0] if stmts(wl.body) else None
        ok = first is not None and first.kind == "if" and any("$char_index -ge ${#word}" in c.text for c in stmts(first.clauses[0][0]) if c.kind == "cond") and any(a[0] == "matched" and a[3] == "1" for s in stmts(first.clauses[0][1]) if s.kind == "simple" for a in B.assignments(s))
        rec("S5:matched-iff-consumed", ok, "matched=1 exactly when char_index reached the end of the word (or an any-word tail)", wl.line)
        # S7: the matcher's own `||` levels are tried from 0 up to its own maximum (an inner `||` numbers its branches from 0 again,
        # whatever level the word itself sits on in the caller)
        lvl_loops = [n for n, *_ in B.walk(sub) if n.kind == "forarith" and "fallback_level" in n.header]
        for lp_ in lvl_loops:
            pr = [p.replace(" ", "") for p in lp_.parts]
            m0 = re.fullmatch(r"(\w+)=0", pr[0]) if len(pr) == 3 else None
            okl = bool(m0) and pr[1] == f"{m0.group(1)}<=max_fallback_level" and pr[2] in (f"{m0.group(1)}++", f"++{m0.group(1)}", f"{m0.group(1)}+=1")
            rec("S7:levels-from-0-to-own-max", okl, f"for (( {lp_.header} ))" + ("" if okl else ": the within-word levels must be visited 0..=max_fallback_level ascending"), lp_.line)
        # S8: every variable the shared matcher READS without setting it itself comes from the function that calls it (bash locals
        # are dynamically scoped): each wrapper must declare all of them, or the completion function's variable of the same name --
        # the top-level table, level bound, literal list -- is what the matcher works on
        SPECIAL = {"COMP_WORDBREAKS", "COMP_WORDS", "COMP_CWORD", "COMP_LINE", "COMP_POINT", "COMPREPLY", "IFS", "BASH_REMATCH", "REPLY", "RANDOM", "HOME", "PWD", "LINENO", "FUNCNAME"}

        def rw(fnode):
            reads, sets_ = set(), set()
            for n, *_ in B.walk(fnode):
                if n.kind == "simple":
                    for a in B.assignments(n):
                        sets_.add(a[0])
                    if n.words[:1] == ["eval"]:
                        for m_ in re.finditer(r"(?:local |declare (?:-\w+ )?)?\b([A-Za-z_]\w*)=", " ".join(n.words[1:])):
                            sets_.add(m_.group(1))
                    if n.words[:1] in (["read"], ["mapfile"], ["readarray"]):
                        sets_.update(w for w in n.words[1:] if re.fullmatch(r"[A-Za-z_]\w*", w))
                    for w in n.words:
                        reads.update(B.vars_in(w))
                        reads.update(re.findall(r'-v "?([A-Za-z_]\w*)\[', w))
                elif n.kind == "cond":
                    reads.update(B.vars_in(n.text))
                    reads.update(re.findall(r'-v "?([A-Za-z_]\w*)\[', n.text))
                elif n.kind == "forarith":
                    m_ = re.match(r"\s*([A-Za-z_]\w*)\s*=", n.parts[0]) if n.parts else None
                    if m_:
                        sets_.add(m_.group(1))
                    reads.update(x for x in re.findall(r"[A-Za-z_]\w*", n.header))
                elif n.kind == "for":
                    sets_.add(n.var)
                    for w in n.words:
                        reads.update(B.vars_in(w))
            return reads, sets_
        reads, sets_ = rw(sub)
        free = {v for v in reads - sets_ - SPECIAL if not v.startswith("H__")}
        callers_of = lambda name: [(fname, fnode) for fname, lst in funcs.items() for fnode in lst if fname != name and any(n.kind == "simple" and n.words and n.words[0] == name for n, *_ in B.walk(fnode))]
        direct = callers_of(SUB)
        if not direct:
            rec(f"S8:callers[{tag}]", False, "no function calls the within-word matcher", sub.line)
        for fname, fnode in direct:
            missing = free - rw(fnode)[1]
            if missing:
                ups = callers_of(fname)
                ups = [(g, gn) for g, gn in ups if g != MAIN] or ups
                still = set()
                for g, gn in ups:
                    still |= missing - rw(gn)[1]
                if not ups:
                    still = missing
                missing = still
            rec(f"S8:matcher-variables-declared-by:{fname}", not missing, f"declares every variable the matcher reads from its caller ({len(free)}: {sorted(free)})" if not missing else
                f"the matcher reads {sorted(missing)} which neither it nor this caller declares: it then works on the completion function's variable of that name (the top-level table / bound)", fnode.line)
    for k, (ok, why, line) in sorted(agg.items()):
        res.check(ok, rule, k, why, f"bash skeleton line {line}")


# ------------------------------------------------------------------ SK-CMD (C17)
def cmd_rule(repo, res, tier, rule="SK-CMD", only=None):
    """`only`: a key prefix (e.g. "V4:top-level match") when another property shares just that clause (its own known findings stay with C17)"""
    names, sets = flag_sets(repo, tier)
    slots = table_slots(repo)
    cmd_t = slots.get(("match", "command"))
    agg = {}

    def rec(key, ok, why, line):
        k = f"{rule}:{key}"
        if k not in agg or (agg[k][0] and not ok):
            agg[k] = (ok, why, line)

    cmdfn = re.compile(r"^_H__command__H_cmd_\$(\w+)$")
    for flags in sets:
        text, tree, funcs, _ = skeleton(repo, flags)
        tag = fl(flags)
        # V1: body of the command function is the raw command hole
        defs = funcs.get("_H__command__H_cmd_H__id__H", [])
        # exactly one statement, a single hole (what that hole carries -- the text of an element of the command set -- is NAMES:cmd-body)
        body = [s.words for s in stmts(defs[0].body.body)] if len(defs) == 1 else []
        ok = len(body) == 1 and len(body[0]) == 1 and re.fullmatch(r"H__\w+__H", body[0][0]) is not None
        rec("V1:body-is-command-text", ok, "_<cmd>_cmd_<id> () { <command text> }", defs[0].line if defs else 0)
        sites = []
        for n, loops, conds, f in B.walk(tree):
            if n.kind == "simple":
                for op, w in n.redirs:
                    for inner in B.inner_scripts(w):
                        try:
                            it = B.parse(inner)
                        except B.ParseError as e:
                            rec(f"parse-inner[{tag}]", False, str(e), n.line)
                            continue
                        for m, l2, c2, f2 in B.walk(it):
                            if m.kind == "simple" and m.words and cmdfn.match(m.words[0]):
                                # the pipeline it belongs to
                                pipe = [x for x, *_ in B.walk(it) if x.kind == "pipeline" and m in x.cmds]
                                sites.append((f, n, m, pipe[0] if pipe else None, loops, conds))
                # direct (non-substituted) invocations
                if n.words and cmdfn.match(n.words[0]):
                    sites.append((f, n, n, None, loops, conds))
        want_sites = (2 if flags.get("needs_top_level_commands_code") else 0) + (2 if flags.get("needs_subwords_code") and flags.get("needs_subword_commands_code") else 0)
        rec(f"V6:site-count[{tag}]", len(sites) == want_sites, f"{len(sites)} command invocation sites" + ("" if len(sites) == want_sites else f", expected {want_sites}"), 0)
        for f, outer, call, pipe, loops, conds in sites:
            idvar = cmdfn.match(call.words[0]).group(1)
            args = call.words[1:]
            in_sub = f == SUB
            # which phase: matching (inside the scan/walk loop) or completion (inside the level loop)
            phase = "complete" if any(l.kind == "forarith" and "fallback_level" in l.header for l in loops) else "match"
            cls = ("within-word " if in_sub else "top-level ") + phase
            # V3: arguments
            want = {
                "top-level match": ['""', '""'],
                "top-level complete": ['"$prefix"', '""'],
                "within-word match": ['"$subword"', '"$matched_prefix"'],
                "within-word complete": ['"$completed_prefix"', '"$matched_prefix"'],
            }[cls]
            rec(f"V3:{cls}:arguments", args == want, f"{call.words[0]} {' '.join(args)}" + ("" if args == want else f"; documented arguments are {' '.join(want)}"), outer.line)
            # V6: id comes from iterating the command table cell of the current state
            lp = [l for l in loops if l.kind == "for" and l.var == idvar]
            ok = False
            why = f"id variable ${idvar} is not a loop variable"
            if lp:
                src = lp[-1].words[0] if lp[-1].words else ""
                st = "subword_state" if in_sub else "state"
                if phase == "match":
                    # "${!state_commands[@]}" with state_commands=${command_transitions[$state]}
                    m = re.match(r'^"\$\{!(\w+)\[@\]\}"$', src)
                    cellvar = m.group(1) if m else None
                    defd = False
                    for x, *_ in B.walk(funcs[f][0]):
                        if x.kind == "simple":
                            for a in B.assignments(x):
                                if a[0] == cellvar and a[3] == "${%s[$%s]}" % (cmd_t, st):
                                    defd = True
                    guard = any(c[1] is not None and any(t.kind == "cond" and ('"%s[$%s]"' % (cmd_t, st)) in t.text for t in stmts(c[1])) for c in conds if c[0].kind == "if")
                    ok = defd and guard
                    why = f"ids are the keys of ${{{cmd_t}[${st}]}} under `-v` of that cell" if ok else f"loop source {src}: cell var defined from the command table={defd}, guarded by -v={guard}"
                else:
                    # "${transitions[@]}" with transitions from eval of commands_level_<level>[$state]
                    evs = [" ".join(x.words[1:]) for x, *_ in B.walk(funcs[f][0]) if x.kind == "simple" and x.words[:1] == ["eval"]]
                    lvl = "subword_fallback_level" if in_sub else "fallback_level"
                    name_ok = any(f"commands_name=commands_level_${{{lvl}}}" in e for e in evs)
                    read_ok = any(("\\${$commands_name[$%s]}" % st) in e for e in evs)
                    ok = src == '"${transitions[@]}"' and name_ok and read_ok
                    why = f"ids are the entries of commands_level_<level>[${st}]" if ok else f"source={src} name={name_ok} read={read_ok}"
            rec(f"V6:{cls}:only-where-tabled", ok, why, outer.line)
            # V4: candidate = text before the first TAB of each output line
            v4 = False
            why4 = "output is not piped into a `while read` loop"
            if pipe is not None and len(pipe.cmds) == 2 and pipe.cmds[1].kind == "while":
                rd = stmts(pipe.cmds[1].cond_list)
                if rd and rd[0].kind == "simple":
                    w = rd[0].words
                    ifs = [x for x in w if x.startswith("IFS=")]
                    ri = w.index("read") if "read" in w else -1
                    v4 = bool(ifs) and ifs[0] == "IFS=$'\\t'" and ri >= 0 and "-r" in w and w[ri + 1 :][-2:] == ["f1", "_"]
                    echo = stmts(pipe.cmds[1].body)
                    v4 = v4 and len(echo) == 1 and echo[0].kind == "simple" and echo[0].words == ["echo", '"$f1"']
                    why4 = f"`{' '.join(w)}`" + ("" if v4 else ": fields must be split at a tab only (IFS=$'\\t') and the first field echoed")
            rec(f"V4:{cls}:first-tab-field", v4, why4, outer.line)
            tgt = outer.words[-1] if outer.kind == "simple" and outer.words[:2] == ["readarray", "-t"] else None
            rec(f"V4:{cls}:one-candidate-per-line", tgt is not None, f"readarray -t {tgt} < <(...)", outer.line)
            # V5: only candidates extending the typed text are offered (completion) / V7: equality (matching)
            if phase == "complete":
                after = None
                for x, l3, c3, f3 in B.walk(funcs[f][0]):
                    if x.kind == "list" and outer in x.items:
                        after = x.items[x.items.index(outer) + 1 :]
                calls = [y for s in (after or []) for y, *_ in B.walk(s) if y.kind == "simple" and y.words and y.words[0] == "H__MATCH_FN_NAME__H"]
                ok = len(calls) == 1 and calls[0].words[1] == args[0] and calls[0].words[2] == tgt
                rec(f"V5:{cls}:filtered-by-same-prefix", ok, f"candidates pass through the prefix matcher with {args[0]}" if ok else f"{len(calls)} matcher calls after the invocation; prefix given to the command {args[0]} vs matcher {[c.words[1] for c in calls]}", outer.line)
            else:
                # V7: the only state change is under an equality test with the word; no leniency exit
                lst = None
                for x, l3, c3, f3 in B.walk(funcs[f][0]):
                    if x.kind == "list" and outer in x.items:
                        lst = x
                eq_ok = False
                var = "$word" if not in_sub else "$subword"
                stv = "state" if not in_sub else "subword_state"
                n_state = 0
                for y, l4, c4, f4 in B.walk(lst):
                    if y.kind == "simple" and any(a[0] == stv for a in B.assignments(y)):
                        n_state += 1
                        conds_here = [c for c in c4 if c[0].kind == "if" and c[1] is not None]
                        texts = [t.text for c in conds_here for t in stmts(c[1]) if t.kind == "cond"]
                        if not in_sub:
                            eq_ok = any(re.fullmatch(r'\$candidate == "\$word"', t) for t in texts)
                        else:
                            eq_ok = any(re.fullmatch(r'\$candidate == "\$subword"', t) or re.fullmatch(r'\$subword == "\$candidate"\*', t) for t in texts)
                rec(f"V7:{cls}:state-change-under-equality", eq_ok and n_state >= 1, f"{n_state} state updates in the command block, each under a comparison of a candidate with the quoted word", outer.line)
                if not in_sub:
                    brk = [y for y, l4, c4, f4 in B.walk(lst) if y.kind == "simple" and y.words[:1] == ["break"]]
                    for y in brk:
                        rec("V7:top-level match:unmatched-word-fails", False, f"`{' '.join(y.words)}` leaves the word walk when the unmatched word is the last complete one: candidates are offered although the word equals none of the command's candidates", y.line)
    for k, (ok, why, line) in sorted(agg.items()):
        if only is None or k.startswith(f"{rule}:{only}"):
            res.check(ok, rule, k, why, f"bash skeleton line {line}")
    if only is not None:
        return
    # V2: command ids are unoffset and shared (Rust side)
    fn = repo.fn(ENTRY)
    envs = A.collect_envs(fn)
    from . import c04 as _c04
    setname = _c04.cmd_set_name(repo, fn, envs)
    loops = [n for n in A.walk(fn.body) if n["k"] == "ForLoop" and setname and re.search(r"\b%s\b" % re.escape(setname), repo.text(fn.file, n["iter"]))]
    ok = False
    if loops:
        # the id printed in the function name is the position of the loop's element in that same set
        for st in loops[0]["body"]["stmts"]:
            if st["k"] == "Local" and st.get("init") is not None:
                txt = "".join(repo.text(fn.file, st["init"]).split())
                if re.fullmatch(re.escape(setname) + r"\.get_index_of\(\w+\)\.unwrap\(\)", txt):
                    ok = True
        if not ok:
            # or an enumerate() over the set
            ok = "enumerate()" in "".join(repo.text(fn.file, loops[0]["iter"]).split())
    res.check(ok, rule, f"{rule}:V2:function-id-is-table-id", "the <id> of _<cmd>_cmd_<id> is id_from_cmd.get_index_of(cmd): the same numbering the tables use (CommandId, unoffset)", fn.loc())
    trim = any(n["k"] == "MethodCall" and n["method"] == "trim" for l in loops for n in A.walk(l))
    res.check(trim, rule, f"{rule}:V1:trimmed-command", "the command text is emitted after trim() (`:` when empty)", fn.loc())


# ------------------------------------------------------------------ SK-MATCHFN (C01 F3 / C12 / C17 V5)
def matchfn_rule(repo, res, tier, rule="SK-MATCHFN"):
    """The prefix filter every candidate list goes through: `<fn> PREFIX CANDIDATES MATCHES` appends to MATCHES exactly the
    candidates that extend PREFIX.  Structure required of each definition: an empty prefix passes every candidate on; otherwise one
    loop over the candidates whose only condition for appending the candidate is the pattern test `[[ <candidate> = ${prefix}* ]]`
    (the candidate possibly case-folded together with the prefix).  Any further condition on the way to the append drops
    candidates that do extend the typed text."""
    names, sets = flag_sets(repo, tier)
    agg = {}

    def rec(key, ok, why, line):
        k = f"{rule}:{key}"
        if k not in agg or (agg[k][0] and not ok):
            agg[k] = (ok, why, line)

    for flags in (dict.fromkeys(names, False), dict.fromkeys(names, True)):
        text, tree, funcs, _ = skeleton(repo, flags)
        defs = funcs.get("H__MATCH_FN_NAME__H", [])
        rec("definitions", len(defs) == 2, f"{len(defs)} definitions of the prefix matcher (case-insensitive and case-sensitive variant)", defs[0].line if defs else 0)
        for di, d in enumerate(defs):
            body = stmts(d.body.body) if d.body.kind == "group" else []
            tag = f"def{di + 1}"
            ifs = [s for s in body if s.kind == "if"]
            if len(ifs) != 1 or ifs[0].els is None or len(ifs[0].clauses) != 1:
                rec(f"{tag}:shape", False, "expected `if [[ -z $prefix ]]; then <all>; else <filter>; fi`", d.line)
                continue
            c = stmts(ifs[0].clauses[0][0])
            tt = cond_tests(c[0]) if c and c[0].kind == "cond" else []
            rec(f"{tag}:empty-prefix-passes-all", len(tt) == 1 and tt[0][0] == "un" and tt[0][1] == "-z" and tt[0][2] in ("$prefix", '"$prefix"'), f"[[ {c[0].text if c and c[0].kind == 'cond' else '?'} ]]", ifs[0].line)
            thn = stmts(ifs[0].clauses[0][1])
            ok_all = len(thn) == 1 and thn[0].kind == "simple" and any(a[0] == "matches_" and a[2] == "+=" and a[3].replace(" ", "") == '("${candidates_[@]}")' for a in B.assignments(thn[0]))
            rec(f"{tag}:empty-prefix-appends-every-candidate", ok_all, "matches_+=(\"${candidates_[@]}\")" if ok_all else "the empty-prefix branch does not append every candidate", ifs[0].line)
            els = stmts(ifs[0].els)
            loops = [s for s in els if s.kind == "for"]
            if len(loops) != 1:
                rec(f"{tag}:filter-loop", False, f"{len(loops)} loops over the candidates in the filter branch", ifs[0].line)
                continue
            lp = loops[0]
            rec(f"{tag}:loop-over-all-candidates", lp.words == ['"${candidates_[@]}"'], f"for {lp.var} in {' '.join(lp.words)}", lp.line)
            # inside the loop: every statement is `[[ X = ${prefix}* ]] && matches_+=("$var")`, nothing else (no continue/break/if)
            inner = stmts(lp.body)
            good = len(inner) == 1 and inner[0].kind == "andor" and len(inner[0].rest) == 1 and inner[0].rest[0][0] == "&&" and inner[0].first.kind == "cond"
            why = "the loop body is not the single statement `[[ candidate = ${prefix}* ]] && matches_+=(candidate)`: an extra condition or early continue drops candidates that extend the typed text"
            if good:
                t = cond_tests(inner[0].first)
                app = inner[0].rest[0][1]
                t_ok = len(t) == 1 and t[0][0] == "bin" and t[0][2] in ("=", "==") and t[0][3] in ("${prefix}*", "$prefix*") and t[0][1] in ("$" + lp.var, "${" + lp.var + ",,}", '"$' + lp.var + '"')
                a_ok = app.kind == "simple" and any(a[0] == "matches_" and a[2] == "+=" and a[3] == '("$' + lp.var + '")' for a in B.assignments(app))
                n_conn = sum(1 for x in inner[0].first.tests if x[0] == "conn")
                good = t_ok and a_ok and n_conn == 0
                why = f"[[ {inner[0].first.text} ]] && {' '.join(app.words) if app.kind == 'simple' else app.kind}" + ("" if good else ": must be exactly the prefix pattern test followed by the append of the same candidate")
            rec(f"{tag}:only-condition-is-prefix-test", good, why, lp.line)
            # prefix preparation: only %q quoting (and case folding together with the candidate)
            pre = [s for s in els if s is not lp]
            okp = all(s.kind == "simple" and all(a[0] == "prefix" and (a[3] in ("${prefix,,}",) or "printf '%q'" in a[3]) for a in B.assignments(s)) and B.assignments(s) for s in pre)
            rec(f"{tag}:prefix-only-quoted-or-folded", okp, "before the loop the prefix is only case-folded / passed through printf %q" if okp else "the prefix is altered before filtering", ifs[0].line)
    for k, (ok, why, line) in sorted(agg.items()):
        res.check(ok, rule, k, why, f"bash skeleton line {line}")


# ------------------------------------------------------------------ SK-FRESH (C17 V7 / C01 W3): per-iteration scratch arrays
def fresh_rule(repo, res, tier, rule="SK-FRESH"):
    """An array that is filled with `+=` inside a block of the word walk / within-word scan and then iterated to decide whether a
    word is accepted must hold only what THIS iteration put there: in the same statement list, before the filling loop, it is
    assigned a value (`name=(...)`, `local -a name=(...)`, `readarray -t name`).  A bare `local -a name` / `declare -a name` does
    not reset an existing local in bash, so candidates of a command consulted earlier on the line would still be compared."""
    names, sets = flag_sets(repo, tier)
    agg = {}

    def rec(key, ok, why, line):
        k = f"{rule}:{key}"
        if k not in agg or (agg[k][0] and not ok):
            agg[k] = (ok, why, line)

    n = 0
    for flags in sets:
        text, tree, funcs, _ = skeleton(repo, flags)
        for fname in (MAIN, SUB):
            for fdef in funcs.get(fname, []):
                # match phase only: statements inside a `while` loop of the function (the walk / the scan)
                for w, loops, conds, f in B.walk(fdef):
                    if w.kind != "while" or loops:
                        continue
                    for lst, l2, c2, f2 in B.walk(w.body, (w,)):
                        if lst.kind != "list":
                            continue
                        for i, st in enumerate(lst.items):
                            if st.kind != "for":
                                continue
                            apps = set()
                            for x, *_ in B.walk(st.body):
                                if x.kind == "simple":
                                    for a in B.assignments(x):
                                        if a[2] == "+=":
                                            apps.add(a[0])
                            for arr in sorted(apps):
                                # is the array read later in this list by a loop that compares its elements?
                                later = lst.items[i + 1 :]
                                used = any(y.kind == "for" and any(("${%s[@]}" % arr) in wd for wd in y.words) for y in later)
                                if not used:
                                    continue
                                n += 1
                                reset = None
                                for prev in lst.items[:i]:
                                    if prev.kind == "simple":
                                        if prev.words[:2] == ["readarray", "-t"] and prev.words[-1] == arr:
                                            reset = "readarray"
                                        for a in B.assignments(prev):
                                            if a[0] == arr:
                                                reset = "value" if a[2] == "=" else ("decl-only" if a[2] == "decl" else reset)
                                rec(f"{fname}:{arr}", reset in ("value", "readarray"), f"`{arr}` is " + ("assigned a value before the loop that fills it: it holds only this iteration's entries" if reset in ("value", "readarray") else
                                    ("only declared (`local -a`/`declare -a` without a value keeps the previous content of an existing local)" if reset == "decl-only" else "never reset") + f" before the loop that appends to it: entries from an earlier command / iteration are still compared with the word"), st.line)
    for k, (ok, why, line) in sorted(agg.items()):
        res.check(ok, rule, k, why, f"bash skeleton line {line}")
    res.floor(rule, len(agg), 2)


# ------------------------------------------------------------------ SK-SUBACC (C01): a complete earlier word must END in an accepting state
def subacc_rule(repo, res, tier, rule="SK-SUBACC"):
    """`nothing when the preceding words cannot be matched`: the within-word matcher in matches mode must accept a word only if the
    within-word automaton is in an ACCEPTING state when the word is used up.  Structurally: the `matched=1` taken when char_index
    reaches the end of the word is conditioned on a test of the reached state against some table of accepting states that the
    wrapper defines (any name); with no such table the prefix `--foo=` of `--foo=(a|b)` counts as a complete word."""
    names, sets = flag_sets(repo, tier)
    flags = dict.fromkeys(names, True)
    text, tree, funcs, _ = skeleton(repo, flags)
    subs = funcs.get(SUB, [])
    if len(subs) != 1:
        res.undecided(rule, f"{rule}:function", f"{len(subs)} definitions of the within-word matcher")
        return
    sub = subs[0]
    # tables the wrappers define (local -A/-a NAME) vs tables the matcher reads
    defined = set()
    for fname, defs in funcs.items():
        if fname.startswith(SUB + "_"):
            for d in defs:
                for n, *_ in B.walk(d):
                    if n.kind == "simple":
                        for a in B.assignments(n):
                            defined.add(re.sub(r"H__\w+__H", "N", a[0]))
    wl = next((s for s in stmts(sub.body.body) if s.kind == "while"), None)
    first = stmts(wl.body)[0] if wl is not None and stmts(wl.body) else None
    ok = False
    why = "the end-of-word branch sets matched=1 unconditionally"
    if first is not None and first.kind == "if":
        inner = stmts(first.clauses[0][1])
        # matched=1 must sit under a test that mentions $subword_state and a wrapper-defined table
        for n, loops, conds, f in B.walk(first):
            if n.kind == "simple" and any(a[0] == "matched" and a[3] == "1" for a in B.assignments(n)):
                texts = [t.text for c in conds if c[0].kind == "if" and c[1] is not None for t in stmts(c[1]) if t.kind == "cond"]
                if any("subword_state" in t and any(d in t for d in defined if "accept" in d or "final" in d) for t in texts):
                    ok = True
                    why = "matched=1 at the end of the word is conditioned on the reached state being in an accepting-state table"
    res.check(ok, rule, f"{rule}:matches-requires-accepting-state", why + ("" if ok else f" (tables the wrappers define: {sorted(defined)}; none lists accepting states): a proper prefix of a legal word that ends between two literals is accepted as a complete word"), f"bash skeleton line {sub.line}")


# ------------------------------------------------------------------ SK-SCOPE (C01): a callee must not clobber the caller's loop variables
def scope_rule(repo, res, tier, rule="SK-SCOPE"):
    """bash scoping is dynamic: a variable that a function assigns without declaring it `local` IS the caller's variable of that
    name.  For every function G of the skeleton and every loop of G that encloses a call of another skeleton function F (directly, or
    through the generated wrappers): the loop's variable (the `for` variable, the counter of a `for (( ))`) must not be assigned in F
    (or in anything F calls) outside a `local` declaration of F.  Otherwise the callee moves the caller's loop on: e.g. the
    within-word completer advancing the caller's fallback-level counter skips a `||` level."""
    names, sets = flag_sets(repo, tier)
    agg = {}

    def rec(key, ok, why, line):
        k = f"{rule}:{key}"
        if k not in agg or (agg[k][0] and not ok):
            agg[k] = (ok, why, line)

    for flags in sets:
        text, tree, funcs, _ = skeleton(repo, flags)
        fnames = set(funcs)

        def norm(n):
            return re.sub(r"H__\w+?__H", "N", n)

        nfuncs = {}
        for k, v in funcs.items():
            nfuncs.setdefault(norm(k), []).extend(v)

        def callee_of(word):
            w = norm(re.sub(r'"?\$\{?\w+\}?"?$', "N", word))
            for k in nfuncs:
                if k == w or k == norm(word):
                    return k
            return None

        # per function: names assigned non-locally, and callees
        info = {}
        for k, defs in nfuncs.items():
            assigned, local, calls = set(), set(), set()
            for d in defs:
                for n, loops, conds, f in B.walk(d):
                    if n.kind == "simple" and n.words:
                        if n.words[0] in B.DECL_CMDS:
                            for a in B.assignments(n):
                                local.add(a[0])
                        elif n.words[0] == "eval":
                            m = re.match(r'^"?local(?:\s+-\w+)*\s+(\w+)=', " ".join(n.words[1:]))
                            if m:
                                local.add(m.group(1))
                        else:
                            for a in B.assignments(n):
                                assigned.add(a[0])
                            c = callee_of(n.words[0])
                            if c and c != k:
                                calls.add(c)
                        if n.words[0] in ("readarray", "mapfile", "read"):
                            for w in n.words[1:]:
                                if re.match(r"^[A-Za-z_]\w*$", w):
                                    assigned.add(w)
                    elif n.kind == "for":
                        assigned.add(n.var)
                    elif n.kind == "forarith":
                        m = re.match(r"^\s*(\w+)\s*=", n.parts[0] if n.parts else "")
                        if m:
                            assigned.add(m.group(1))
            info[k] = (assigned - local, calls)

        def leaked(k, seen=()):
            if k in seen or k not in info:
                return set()
            out = set(info[k][0])
            for c in info[k][1]:
                out |= leaked(c, seen + (k,))
            return out

        for k, defs in nfuncs.items():
            for d in defs:
                for n, loops, conds, f in B.walk(d):
                    if n.kind == "simple" and n.words and loops:
                        c = callee_of(n.words[0])
                        if not c or c == k:
                            continue
                        lvars = set()
                        for l in loops:
                            if l.kind == "for":
                                lvars.add(l.var)
                            elif l.kind == "forarith":
                                for part in l.parts:
                                    for v in re.findall(r"\b([A-Za-z_]\w*)\b", part):
                                        lvars.add(v)
                        clob = sorted(lvars & leaked(c))
                        rec(f"{k}->{c}", not clob, (f"the loops around the call use {sorted(lvars)}; the callee assigns none of them non-locally" if not clob else
                            f"the callee (or what it calls) assigns {clob} without `local`: with bash's dynamic scoping that is the loop variable of the caller's enclosing loop, which the call therefore moves on"), n.line)
    for k, (ok, why, line) in sorted(agg.items()):
        res.check(ok, rule, k, why, f"bash skeleton line {line}")
    res.floor(rule, len(agg), 2)


# ------------------------------------------------------------------ SK-CANDORD (C17 / C12): command candidates are tried longest first
def candord_rule(repo, res, tier, rule="SK-CANDORD"):
    """A complete earlier word (or the rest of a word) is compared with the command's candidates longest first, so that a candidate is
    never cut short by a shorter one that is its prefix.  The order is produced by `printf '%s %s %s\\n' i ${#cand} cand | sort <flags>
    | cut -f1 -d' '`: the first sort key must be field 2 (the length), compared NUMERICALLY and in REVERSE -- `-nrk2,2`, `-k2,2nr`,
    `-n -r -k2,2` ... .  Without `n` lengths compare as strings ("9" > "12"): candidates of 10+ characters are tried after shorter ones."""
    names, sets = flag_sets(repo, tier)
    flags = dict.fromkeys(names, True)
    text, tree, funcs, _ = skeleton(repo, flags)
    from vlib import shdims as SD

    n = 0
    dims = dims_for(repo, flags)[0]
    for t in dims.trees:
        for node, *_ in B.walk(t):
            if node.kind != "pipeline":
                continue
            sorts = [c for c in node.cmds if c.kind == "simple" and c.words[:1] == ["sort"]]
            cuts = [c for c in node.cmds if c.kind == "simple" and c.words[:1] == ["cut"] and "-f1" in c.words]
            if not sorts or not cuts:
                continue
            n += 1
            w = sorts[0].words[1:]
            glob = set()
            keys = []
            for a in w:
                m = re.match(r"^-([A-Za-z]*)k(\d+)(?:,(\d+))?([A-Za-z]*)$", a)
                if m:
                    keys.append((int(m.group(2)), set(m.group(1)) | set(m.group(4))))
                    # flags before `k` in the same cluster are global (sort -nrk2,2 == -n -r -k2,2)
                    glob |= set(m.group(1))
                elif re.match(r"^-[A-Za-z]+$", a):
                    glob |= set(a[1:])
            first = keys[0] if keys else None
            ok = first is not None and first[0] == 2 and ("n" in (glob | first[1])) and ("r" in (glob | first[1]))
            res.check(ok, rule, f"{rule}:sort#{n}", f"`sort {' '.join(w)}`: first key {first}" + ("" if ok else " -- the length field must be the first key, numeric and reversed"), f"bash skeleton line {node.line}")
    res.floor(rule, n, 2)
