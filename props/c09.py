"""C09 -- a typed word never has two readings; `||` is transparent to matching (symbol-identity clauses)."""
from vlib import ast as A, prov as P
from . import c14, c08

LEVEL = "other"
EXPLANATION = (
    "Whether a compiled automaton has two items that accept a common word is a per-grammar value question; whether the construction CAN produce one is visible in which fields take part in the "
    "equality the subset construction merges positions by (dfa::dfa_from_regex: `Inp::from_input(..) == *inp`). Decided on /repo's current source: EQFIELDS (for each Inp variant, the fields compared by "
    "PartialEq/Hash -- derive => all -- versus the word the emitted walk matches the symbol by; every extra field must be covered by a validation that rejects siblings differing only in it, or be a listed finding), "
    "COARSE (every table built by collect() under a key that is a lossy projection of the transition key silently keeps one target per key: each dropped field must be covered likewise), "
    "TYREACH (no source position in Inp/DFA: rustc-checked witness + failing twin), SPANUSE (Inp::from_input discards the span in every arm), INTERN-EQ (what 'same within-word automaton' means: DFA's manual PartialEq/Hash). "
    "Two design-level findings are open (F-C09-1 fallback level in symbol identity, F-C09-2 structural interning of within-word automata); a NEW identity field or projection is reported separately. "
    "NOT decided: the `||` -> `|` equivalence over all grammars and command lines."
    " SK-SUB S7/S8, PREC, DECLGUARD (bash, zsh, fish) and RP of every rebuilding pass are shared with C01/C02/C04."
)
ASSUMPTIONS = ["derive(PartialEq, Eq, Hash) compares exactly the declared fields", "rustc's trait solver for the NoSpan witness"]

# the word a symbol is matched by in the emitted scripts (C01/C12/C17): which fields determine it
WORD_FIELDS = {"Literal": {"literal"}, "Command": {"cmd"}, "Compadd": {"cmd"}, "Subword": {"subdfa"}, "Star": set()}
COVERED = {("Literal", "description"): "DFA::check_ambiguity_best_effort -> ConflictingDescriptions rejects one literal with two descriptions at one state (C08 GUARD/GW rules)"}


def eqfields(repo, res, rule="EQFIELDS"):
    en = repo.enum("dfa::Inp")
    if en is None:
        res.undecided(rule, f"{rule}:Inp", "enum dfa::Inp not found")
        return
    derives = set(en["derives"])
    manual = [i for i in repo.impls if i[1] == "Inp" and i[2] and i[2].split("<")[0].split("::")[-1] in ("PartialEq", "Eq", "Hash")]
    res.check({"PartialEq", "Eq", "Hash"} <= derives and not manual, rule, f"{rule}:Inp:derived", f"Inp derives {sorted(derives)}; manual equality impls: {len(manual)} => every declared field takes part in symbol identity", f"{en['_file']}:{en['l']}")
    for v in en["variants"]:
        name = v["name"]
        if name not in WORD_FIELDS:
            res.bad(rule, f"{rule}:Inp::{name}:unknown-variant", f"new alphabet symbol kind Inp::{name}: the word it matches is not tabled", f"{en['_file']}:{v['l']}")
            continue
        fields = [f["name"] for f in v["fields"]]
        for f in WORD_FIELDS[name]:
            res.check(f in fields, rule, f"{rule}:Inp::{name}.{f}:word-field", f"{name} is matched by its `{f}`", f"{en['_file']}:{v['l']}")
        for f in fields:
            if f in WORD_FIELDS[name]:
                continue
            key = f"{rule}:Inp::{name}.{f}"
            if (name, f) in COVERED:
                res.ok(rule, key, f"extra identity field covered: {COVERED[(name, f)]}", f"{en['_file']}:{v['l']}")
            else:
                res.bad(rule, key, f"`{f}` takes part in the identity of Inp::{name} but not in the word it matches, and no validation rejects two siblings that differ only in `{f}`: "
                        f"equal words become distinct symbols with separate targets", f"{en['_file']}:{v['l']}")
    # the comparison the subset construction uses is that equality
    fn = repo.fn("dfa::dfa_from_regex")
    ok = False
    if fn is not None:
        for n in A.walk(fn.body):
            # some `==` one side of which is Inp::from_input(..) of a position (either operand order, whatever the other side is called)
            if n["k"] == "Binary" and n["op"] == "==" and any(x["k"] == "Call" and x["func"]["k"] == "Path" and x["func"]["path"].endswith("from_input") for side in (n["left"], n["right"]) for x in A.walk(side)):
                ok = True
    res.check(ok, rule, f"{rule}:dfa_from_regex:merge-by-Inp-eq", "positions are merged when Inp::from_input(position) == symbol", fn.loc() if fn else "")


def coarse(repo, res, rule="COARSE"):
    """getters that re-key transitions by a projection"""
    specs = [
        ("dfa::DFA::get_literal_transitions", "get_literal_transitions_from", "Literal", {"literal", "description"}),
        ("dfa::DFA::get_command_transitions", "get_command_transitions_from", "Command", {"cmd"}),
        ("dfa::DFA::get_compadd_transitions", "get_compadd_transitions_from", "Compadd", {"cmd"}),
    ]
    en = repo.enum("dfa::Inp")
    for fq, src, variant, kept in specs:
        fn = repo.fn(fq)
        s = repo.fn("dfa::DFA::" + src)
        if fn is None or s is None or en is None:
            res.undecided(rule, f"{rule}:{fq}", "function not found")
            continue
        # fields the row getter keeps: bound (non-wild, non-rest) fields of the variant pattern
        bound = set()
        for n in A.walk(s.body):
            if n["k"] == "PStruct" and n["path"].endswith("Inp::" + variant):
                for f in n["fields"]:
                    if f["pat"]["k"] != "PWild":
                        bound.add(f["name"])
        allf = [f["name"] for v in en["variants"] if v["name"] == variant for f in v["fields"]]
        dropped = [f for f in allf if f not in bound]
        collects = [c for c in P.find_calls(fn.body, methods={"collect"})]
        is_map = "BTreeMap<" in (A.norm_ty(fn.node.get("ret")) or "")
        res.check(bound == kept and is_map and collects, rule, f"{rule}:{fq}:shape", f"rows keep {sorted(bound)} of Inp::{variant}, collected into a map keyed by their id", fn.loc())
        for f in dropped:
            key = f"{rule}:{fq}:drops:{f}"
            if (variant, f) in COVERED:
                res.ok(rule, key, "dropped field covered: " + COVERED[(variant, f)], fn.loc())
            else:
                res.bad(rule, key, f"transitions of state s on Inp::{variant} symbols that differ only in `{f}` collapse to one map entry: one target is silently lost", fn.loc())


def intern_eq(repo, res, rule="INTERN-EQ", identity=True):
    """within-word automata are identified by DFA: PartialEq (transitions, accepting states, ordered symbol pool)"""
    imp = [i for i in repo.impls if i[1] == "DFA" and i[2] and i[2].split("::")[-1] == "PartialEq"]
    if len(imp) != 1:
        res.undecided(rule, f"{rule}:DFA:PartialEq", f"{len(imp)} manual PartialEq impls for DFA")
        return
    from vlib import rules_hasheq as HQ

    fn = repo.fn("dfa::<DFA as PartialEq>::eq")
    ep = HQ.eq_profile(repo, "DFA") or {}
    compared = sorted(f for f in ep if f != "*")
    res.check(set(compared) == {"starting_state", "transitions", "accepting_states", "inputs"}, rule, f"{rule}:DFA:eq-fields", f"DFA equality compares {compared} (numbered states, symbol pool), ignores subdfas", fn.loc() if fn else "")
    HQ.hasheq_rule(repo, res)
    # is there a canonicalisation of symbol order / state numbering between minimize() and intern()? (there is none: finding)
    f2 = repo.fn("dfa::Inp::from_input")
    ok = False
    if f2 is not None and identity:
        envs = A.collect_envs(f2)
        for c in P.find_calls(f2.body, methods={"intern"}):
            a = A.resolve(c["args"][0], envs.get(id(c)))
            sp = P.spine(a)
            ok = any(x in (".canonicalize", ".canonical", ".normalize") for x in sp)
            res.check(ok, rule, f"{rule}:subdfa-identity-is-structural", "interned value = " + " <- ".join(sp[:4]) + ("" if ok else ": two within-word automata with the same language but a different symbol order or state numbering are distinct symbols"), f2.loc())


def intern_dedup(repo, res, rule="INTERN-DEDUP"):
    """`count as one expectation`: two occurrences of the same within-word expression (or symbol) must get ONE id.  Each
    pool's intern() must look the value up before adding it: insert_full on an IndexSet (returns the existing index),
    entry().or_insert_with, or get_index_of + push.  A pool that merely appends gives every occurrence its own symbol."""
    n = 0
    for q, f in sorted(repo.fns.items()):
        if not q.endswith("InternPool::intern"):
            continue
        n += 1
        ms = [x["method"] for x in A.walk(f.body) if x["k"] == "MethodCall"]
        dedup = ("insert_full" in ms) or ("entry" in ms and ("or_insert_with" in ms or "or_insert" in ms)) or ("get_index_of" in ms) or ("get" in ms and "insert" in ms)
        # the store behind insert_full must be a set keyed by the value (IndexSet), not a Vec
        st = None
        if f.self_ty:
            sd = repo.struct(f.self_ty.split("<")[0])
            if sd:
                st = {fl["name"]: A.norm_ty(fl["ty"]) for fl in sd["fields"]}
        store_ok = True
        if "insert_full" in ms and st is not None:
            store_ok = any(t.startswith(("IndexSet<", "indexmap::IndexSet<", "IndexMap<")) for t in st.values())
        res.check(dedup and store_ok, rule, f"{rule}:{q}", f"methods {sorted(set(ms))}; fields {st}" + ("" if dedup and store_ok else ": intern() does not find an equal value that is already in the pool -- equal items get different ids and therefore separate transitions"), f.loc())
    res.floor(rule, n, 4)


def run(repo, res, tier):
    from vlib import rules_skips as SK, tables
    # `the same literal expected at one point with two different descriptions` is the validation that covers the description
    # field of symbol identity: its exemptions are the enumerated ones (an extra `continue` there lets two readings through)
    n = SK.skips_rule(repo, res, tables.load("skips")["row"], only={"dfa::DFA::do_check_ambiguity_best_effort", "dfa::DFA::check_ambiguity_best_effort"})
    res.floor("SKIPS", n, 2)
    intern_dedup(repo, res)
    from . import c03, sk_bash
    # two within-word expressions with the same language and symbol order are one symbol only if what is interned is the minimised,
    # trimmed automaton renumbered AFTER trimming (a canonical form); and `||` is transparent only if every level is visited
    c03.structure_rules(repo, res)
    c03.minonce(repo, res)
    sk_bash.fb_rule(repo, res, tier)
    # one text may stand under several literal ids (one per description): a typed word has one reading only if the scan over the ids
    # ends by taking a transition, never on the first id whose text matches (SK-WALK W5, shared with C01); and the i-th operand of a
    # `||` is level i whatever encloses it (FF index clause, shared with C02)
    sk_bash.walk_rule(repo, res, tier, only="W5:")
    from . import c02 as _c02i
    _c02i.fallback_index(repo, res)
    # `a || b || c` is one group with levels 0, 1, 2 only if the parser collects the operands of one `||` chain side by side (PREC, shared with C02)
    from . import c02 as _c02
    _c02.prec_rule(repo, res)
    sk_bash.scope_rule(repo, res, tier)
    # inside a word the same `||` order holds only if the shared matcher walks its own levels from 0 on its own tables (S7, S8; shared with C01 / C12)
    sk_bash.sub_rule(repo, res, tier)
    from . import common
    # `||` behaves like `|` when matching: every pass over the expression treats a Fallback node exactly as it treats an
    # Alternative (both children lists traversed); the one tabled difference is the level assignment
    from . import c02 as _c02b
    common.run_traversals(repo, res, enum="Expr", rp=True, flows=_c02b.flows_table())  # every pass descends into both operators alike AND keeps what it computed below them (RP, shared with C02)
    eqfields(repo, res)
    coarse(repo, res)
    intern_eq(repo, res)
    c14.witness_rule(res, ["w_nospan_dfa", "t_nospan_regex"], "TYREACH")
    c14.spanuse_rule(repo, res)
    c08.conflicting_descr_rule(repo, res)
    c08.graph_walkers(repo, res)
    # the level of a literal is per occurrence: the body of a definition is ONE sub-tree shared by all its references, so a pass
    # that edits a node in place gives every occurrence the level of the last one visited (two readings of one word across levels)
    from . import c02
    c02.arena_immut(repo, res, tier)
    # `||` is transparent to what is offered inside a word only if each within-word automaton reads ITS OWN level tables: they may be
    # shared only when compared (ISOCOV), and every wrapper declares every level table (DECLGUARD) -- shared with C04 / C12
    from . import c04
    c04.isocov(repo, res)
    from vlib import rules_declguard as DG
    DG.declguard_rule(repo, res, modules=("bash", "zsh", "fish"))
    c04.perlevel_rule(repo, res)  # .. and every level has its slot in the per-level tables (PERLEVEL, shared with C04)
    res.floor("EQFIELDS", res.count("EQFIELDS"), 6)
    res.floor("COARSE", res.count("COARSE"), 3)
