"""C13 -- diagnostics point at the construct they complain about (provenance clauses)."""
import re

from vlib import ast as A, prov as P, mir as M
from vlib import rules_pipeline as RPL

LEVEL = "other"
EXPLANATION = (
    "Decides on /repo's current source: SPANSRC (a nom_locate::LocatedSpan may be constructed only at the parser entry; any other construction -- found on the MIR by resolved callee "
    "and generic arguments -- must be value-only, i.e. never become the remaining input of a parser nor an argument of HumanSpan::from_range/from_machine, because a re-wrapped fragment restarts at line 1 column 1), "
    "RANGE (every HumanSpan::from_range(a, b) in the parser takes both ends from the chain of remaining inputs, a no later than b), "
    "FF (each located Error / warning stores the span of the offending construct: the name after @, the right-hand side, stored-vs-current definition, the command name, the two literals, the reference itself, the definition's left-hand side), "
    "UNITS (1-based line/column go to the displayed positions, 0-based accessors to the snippet API; the snippet line is selected with the 0-based line). "
    "NOT decided: nom_locate's own column arithmetic (bytes vs characters), what 'the first statement that cannot be parsed' is for every malformed input."
    " DUPORDER: every DuplicateNonterminalDefinition is built as (entry found, definition in hand). UNITS end-is-a-column: every value column_end can take is built on a column, never on a bare length."
)
ASSUMPTIONS = ["nom_locate derives line/column from the offset inside the original allocation (documented)", "rustc's callee/generic resolution (MIR)"]

CTOR_RE = re.compile(r"(LocatedSpan::<T>::(new|new_extra|new_from_raw_offset)$)|(::from$)|(::into$)")


def spansrc(repo, mir, res, rule="SPANSRC"):
    sites = []
    for p, fn in mir.fns.items():
        for b in fn.blocks:
            t = b["term"]
            if t["k"] != "call":
                continue
            name = t["resolved"] or t["callee"]
            if not CTOR_RE.search(name):
                continue
            is_ls = ("LocatedSpan::<T>::new" in name) or ("nom_locate::LocatedSpan<" in t["generics"] and (name.endswith("::into") or name.endswith("::from")) and t["generics"].rstrip("]").split(", nom_locate::LocatedSpan<")[0].count("LocatedSpan") == 0)
            if not is_ls:
                continue
            sites.append((fn.parent or p, p, b["tsp"]["line"], b["tsp"]["col"], name))
    res.engines.setdefault("M", {})["located_span_constructions"] = len(sites)
    n_entry = 0
    for owner, p, line, col, name in sorted(sites):
        fn = repo.fn(owner)
        key = f"{rule}:{owner}"
        loc = f"src/{owner.split('::')[0]}.rs:{line}"
        if owner == "parse::Grammar::parse":
            n_entry += 1
            res.ok(rule, key, "parser entry: the one place where the input is wrapped", loc)
            continue
        if fn is None:
            res.undecided(rule, key, f"cannot find {owner} in the syntax tree", loc)
            continue
        # find the syntactic node on that line and judge its context
        pm = A.parent_map(fn.body)
        cands = []
        for n in A.walk(fn.body):
            if n["l"] <= line <= n["el"]:
                if n["k"] == "Call" and n["func"]["k"] == "Path" and P.last(n["func"]["path"]) in ("new", "from") and n["l"] == line:
                    cands.append(n)
                if n["k"] == "MethodCall" and n["method"] == "into" and n["ml"] == line:
                    cands.append(n)
        if not cands:
            res.undecided(rule, key, f"construction site at line {line} not found in the syntax tree", loc)
            continue
        for n in cands:
            verdict, why = judge_context(repo, fn, n, pm)
            k2 = key + (":" + why.split(":")[0] if verdict else "")
            if verdict:
                res.ok(rule, key + ":value-only", why, loc)
            else:
                res.bad(rule, key + ":rewrap", f"LocatedSpan re-wrapped from a bare &str ({name.split('::')[-1]}) and used as parser input: {why}; every location derived from it restarts at 1:1", loc)
    res.check(n_entry == 1, rule, f"{rule}:entry-count", f"{n_entry} construction(s) at the parser entry", "")


def judge_context(repo, fn, n, pm):
    """value-only contexts: immediately consumed by to_string()/into_fragment()/fragment(); or placed in a slot >= 1 of a returned Ok((..)) tuple
    whose callers only take the text out."""
    par, key = pm.get(id(n), (None, None))
    if par is not None and par["k"] == "MethodCall" and key == "recv" and par["method"] in ("to_string", "into_fragment", "fragment", "as_bytes", "len"):
        return True, f"temporary: .{par['method']}() is applied at once"
    if par is not None and par["k"] == "Tuple":
        idx = [i for i, e in enumerate(par["elems"]) if e is n]
        gp = pm.get(id(par), (None, None))[0]
        if idx and idx[0] >= 1 and gp is not None and gp["k"] == "Call" and gp["func"]["k"] == "Path" and P.last(gp["func"]["path"]) == "Ok":
            # callers must only take the fragment out of that slot
            bad = []
            n_callers = 0
            for q, f in repo.fns.items():
                envs = None
                for c in P.find_calls(f.body, names={fn.name}):
                    n_callers += 1
                    cpm = A.parent_map(f.body)
                    st = A.stmt_of(c, cpm)
                    if st is None or st["k"] != "Local" or st["pat"]["k"] != "PTuple":
                        bad.append(f"{q}: result not destructured")
                        continue
                    names = [nm for nm, pr in A.pat_bindings(st["pat"]["elems"][idx[0]])] if idx[0] < len(st["pat"]["elems"]) else []
                    for nm in names:
                        for u in A.walk(f.body):
                            if u["k"] == "Path" and u["path"] == nm and A.before(st, u):
                                up, uk = cpm.get(id(u), (None, None))
                                if not (up is not None and up["k"] == "MethodCall" and uk == "recv" and up["method"] in ("into_fragment", "fragment", "to_string")):
                                    bad.append(f"{q}: `{nm}` used other than through into_fragment()")
            if not bad and n_callers:
                return True, f"value slot {idx[0]} of the parser result; its {n_callers} caller(s) only take the text out"
            return False, f"value slot, but {bad or 'no callers found'}"
    # anything else: assigned to a variable / returned in slot 0 / passed on
    st = A.stmt_of(n, pm)
    txt = " ".join(repo.text(fn.file, st).split()) if st else ""
    return False, f"`{txt[:70]}`"


def range_rule(repo, res, rule="RANGE"):
    n = 0
    for q, fn in sorted(repo.fns.items()):
        if fn.module != "parse":
            continue
        envs = None
        for c in P.find_calls(fn.body, names={"from_range"}):
            if not c["func"]["path"].endswith("HumanSpan::from_range"):
                continue
            if envs is None:
                envs = A.collect_envs(fn)
            env = envs.get(id(c))
            a = A.resolve(c["args"][0], env)
            b = A.resolve(c["args"][1], env)
            n += 1

            def is_remaining(t):
                t0 = t
                while True:
                    if t[0] == "param":
                        return True
                    if t[0] == "proj" and t[2] == 0:
                        t = t[1]
                    elif t[0] in ("try",):
                        t = t[1]
                    elif t[0] == "bind" and P.last(t[1]) in ("Ok", "Some") and t[2] == "0":
                        t = t[3]
                    elif t[0] == "call" or t[0] == "mcall":
                        return True  # result of a parser call: (rest, value)
                    elif t[0] == "alt":
                        return all(is_remaining(x) for x in t[1])
                    else:
                        return False

            contains = A.contains(b, lambda x: x == a) or a[0] == "param"
            ok = is_remaining(a) and is_remaining(b) and contains and a != b
            res.check(ok, rule, f"{rule}:{q}:{n}", f"from_range({A.show(a)[:60]}, {A.show(b)[:70]})" + ("" if ok else " -- ends are not an earlier and a later remaining input of the same parse"), f"{fn.file}:{c['l']}")
    return n


def ff_rule(repo, res, rule="FF"):
    # ---- parse.rs: spans stored at construction
    rows = [
        ("parse::nonterm_specialization", "shell span covers the text after @", lambda fn, envs: _shell_span(fn, envs)),
    ]
    fn = repo.fn("parse::nonterm_specialization")
    if fn is None:
        res.undecided(rule, f"{rule}:parse::nonterm_specialization", "function not found")
    else:
        envs = A.collect_envs(fn)
        ok, why = _shell_span(fn, envs)
        res.check(ok, rule, f"{rule}:parse::nonterm_specialization:shell_span", why, fn.loc())
    # Statement / Expr constructors in the parser take the span computed in the same function
    for q, ctor, field in (("parse::call_variant", "Statement::CallVariant", "name_span"), ("parse::nonterm_def_statement", "NontermDefn", "lhs_span"),
                           ("parse::nonterm_expr", "Expr::NontermRef", "span"), ("parse::terminal_opt_description_expr", "Expr::Terminal", "span"), ("parse::command_expr", "Expr::Command", "span")):
        f = repo.fn(q)
        if f is None:
            res.undecided(rule, f"{rule}:{q}", "function not found")
            continue
        envs = A.collect_envs(f)
        ss = [s for s in P.ctor_sites(f.body, ctor) if s["k"] == "Struct"]
        ok = len(ss) == 1
        why = f"{len(ss)} sites"
        if ok:
            p = A.resolve(P.ctor_field(ss[0], field), envs.get(id(ss[0])))
            # computed here with from_range, or a component (tuple slot / field) of what another parser of the module returned for the
            # very construct (`nonterm_def(..)?.1.1`, `nonterm(..)?.1.1`, a small struct's `name_span`)
            parsers = {g.name for g in repo.fns_in("parse")}
            shown = A.show(p)
            ok = (p[0] == "call" and p[1].endswith("from_range")) or (p[0] in ("proj", "field") and any(re.search(r"(?<![A-Za-z0-9_])%s(?![A-Za-z0-9_])" % re.escape(n), shown) for n in parsers if n != f.name))
            if p[0] == "call" and q == "parse::call_variant":
                # the name span ends where the name ends (not where the statement ends)
                b = p[2][1]
                ok = ok and "terminal" in A.show(b) and "expr" not in A.show(b)
            why = f"{ctor}.{field} <= {A.show(p)[:110]}"
        res.check(ok, rule, f"{rule}:{q}:{field}", why, f.loc())
    # ---- check.rs / regex.rs / parse.rs: Error constructors
    def arg_provs(q, variant):
        f = repo.fn(q)
        if f is None:
            return None, None
        envs = A.collect_envs(f)
        out = []
        for s in P.ctor_sites(f.body, "Error::" + variant):
            if s["k"] == "Call":
                out.append([A.resolve(a, envs.get(id(s))) for a in s["args"]])
        if not out:
            # extracted into a helper of the same module
            for g in repo.fns_in(f.module):
                ge = None
                for s in P.ctor_sites(g.body, "Error::" + variant):
                    if s["k"] == "Call":
                        ge = ge or A.collect_envs(g)
                        out.append([A.resolve(a, ge.get(id(s))) for a in s["args"]])
                if out:
                    return g, out
        return f, out

    f, sites = arg_provs("parse::Shell::from_str", "UnknownShell")
    ok = bool(sites) and all(a[0][0] == "param" and isinstance(a[0][1], int) and "HumanSpan" in (f.params[a[0][1]].get("ty") or "") for a in sites)
    res.check(ok, rule, f"{rule}:UnknownShell", "UnknownShell(span parameter)", f.loc() if f else "")
    f = repo.fn("parse::Grammar::get_specializations")
    if f is not None:
        envs = A.collect_envs(f)
        for c in P.find_calls(f.body, names={"from_str"}):
            a = [A.resolve(x, envs.get(id(c))) for x in c["args"]]
            ok = len(a) == 2 and a[0][0] == "proj" and a[0][2] == 0 and a[1][0] == "proj" and a[1][2] == 1 and a[0][1] == a[1][1] and "shell" in A.show(a[0])
            res.check(ok, rule, f"{rule}:UnknownShell:caller", f"from_str(name, span) takes both from the definition's own (name, span) pair: {A.show(a[1])[:80]}", f.loc())
    f, sites = arg_provs("parse::Grammar::get_specializations", "NonCommandSpecialization")
    ok = bool(sites) and all(a[0][0] == "mcall" and a[0][1] == "get_span" and "rhs_expr_id" in A.show(a[0]) for a in sites)
    res.check(ok, rule, f"{rule}:NonCommandSpecialization", f"{len(sites or [])} site(s): span of the right-hand side expression", f.loc() if f else "")
    f, sites = arg_provs("check::ValidGrammar::from_grammar", "InvalidCommandName")
    ok = bool(sites) and all(a[0][0] in ("proj", "index") or "commands" in A.show(a[0]) or "iter_call_variants" in A.show(a[0]) for a in sites)
    res.check(ok, rule, f"{rule}:InvalidCommandName", f"span of the command name: {A.show(sites[0][0])[:100] if sites else None}", f.loc() if f else "")
    f = repo.fn("parse::Grammar::iter_call_variants")
    if f is not None:
        # some 3-tuple whose components are the bindings of CallVariant's fields name, name_span, expr (in that order), whatever the bindings are called
        e5 = A.collect_envs(f)
        ok5 = False
        for t in A.walk(f.body):
            if t["k"] == "Tuple" and len(t["elems"]) == 3:
                ps = [A.resolve(x, e5.get(id(t))) for x in t["elems"]]
                ps = [q[1] if q[0] in ("deref", "ref") else q for q in ps]
                if all(q[0] == "bind" and P.last(q[1]) == "CallVariant" for q in ps) and [q[2] for q in ps] == ["name", "name_span", "expr"]:
                    ok5 = True
        res.check(ok5, rule, f"{rule}:iter_call_variants", "yields (name, name_span, expr) of each call variant", f.loc())
    f, sites = arg_provs("check::do_check_subword_spaces", "SubwordSpaces")
    ok = bool(sites) and len(sites[0]) == 3
    if ok:
        a = sites[0]
        ok = a[0][0] == "bind" and P.last(a[0][1]) == "Terminal" and a[0][2] == "span" and "expr_get_tail" in A.show(a[0]) and a[1][0] == "bind" and "expr_get_head" in A.show(a[1]) and a[2][0] == "mcall"
    if not ok:
        ok = bool(RPL.subword_spaces_core(repo).get("order")) and bool(sites) and len(sites[0]) == 3
    res.check(ok, rule, f"{rule}:SubwordSpaces", "(span of the left literal = tail of left child, span of the right literal = head of right child, trace of references)", f.loc() if f else "")
    f = repo.fn("check::do_check_subword_spaces")
    if f is not None:
        envs = A.collect_envs(f)
        pushes = list(P.find_calls(f.body, methods={"push"}))
        ok = len(pushes) == 1
        if ok:
            p = A.resolve(pushes[0]["args"][0], envs.get(id(pushes[0])))
            ok = p[0] == "bind" and P.last(p[1]) == "NontermRef" and p[2] == "span"
        res.check(ok, rule, f"{rule}:SubwordSpaces:trace", "the trace records the span of each reference followed", f.loc())
    f, sites = arg_provs("regex::Regex::do_check_ambiguous_inputs_tail_only_subword", "UnboundedMatchable")
    ok = bool(sites) and all(len(a) == 2 and a[0][0] == "mcall" and a[0][1] == "get_span" and a[1][0] == "mcall" and a[1][1] == "get_span" and a[0] != a[1] for a in sites)
    res.check(ok, rule, f"{rule}:UnboundedMatchable", "(span of the earlier unbounded item, span of the item that follows)", f.loc() if f else "")
    f = repo.fn("regex::RegexInput::get_span")
    if f is not None:
        m = [n for n in A.walk(f.body) if n["k"] == "Match"]
        ok = bool(m) and all(A.resolve(a["body"], A.bind_pattern(A.fn_env(f), a["pat"], m[0]["scrut"], A.fn_env(f), "bind", a))[2] == "span" for a in m[0]["arms"])
        res.check(ok, rule, f"{rule}:RegexInput::get_span", "every arm returns its own span field", f.loc())
    f = repo.fn("parse::Expr::get_span")
    if f is not None:
        m = [n for n in A.walk(f.body) if n["k"] == "Match"]
        ok = bool(m) and all(A.resolve(a["body"], A.bind_pattern(A.fn_env(f), a["pat"], m[0]["scrut"], A.fn_env(f), "bind", a))[2] == "span" for a in m[0]["arms"])
        res.check(ok, rule, f"{rule}:Expr::get_span", "every arm returns its own span field", f.loc())
    f, sites = arg_provs("parse::Grammar::parse", "ParseError")
    ok = bool(sites) and len(sites) == 2 and all(a[0][0] == "call" and a[0][1].endswith("from_machine") for a in sites)
    res.check(ok, rule, f"{rule}:ParseError", "ParseError(from_machine(position where parsing stopped)) at both failure exits", f.loc() if f else "")
    # warnings: undefined <= the reference's span ; unused <= lhs_span ; unused specialisation <= UserSpec.span
    f = repo.fn("check::do_get_nonterm_refs")
    if f is not None:
        envs = A.collect_envs(f)
        ins = list(P.find_calls(f.body, methods={"insert"}))
        ok = len(ins) == 1
        if ok:
            a = [A.resolve(x, envs.get(id(ins[0]))) for x in ins[0]["args"]]
            ok = a[0][0] == "bind" and a[0][2] == "nonterm" and a[1][0] == "bind" and a[1][2] == "span" and a[0][3] == a[1][3]
        res.check(ok, rule, f"{rule}:undefined-warning-span", "refs.insert(nonterm, span) of the same NontermRef node", f.loc())
    # handle_error: DuplicateNonterminalDefinition(first, second): second is 'Duplicate', first is 'Previous'
    f = repo.fn("main::handle_error")
    if f is not None:
        envs = A.collect_envs(f)
        for m in [n for n in A.walk(f.body) if n["k"] == "Match"][:1]:
            for a in m["arms"]:
                vs = [P.last(v[0]) for v in A.pat_variants(a["pat"])]
                if vs == ["DuplicateNonterminalDefinition"]:
                    calls = [c for c in P.find_calls(a["body"], methods={"error"})]
                    labels = []
                    for c in calls:
                        lab = [x["v"] for x in A.walk(c["recv"]) if x["k"] == "Lit"]
                        if not lab:
                            # the label may reach ErrMsg::new through a local (a helper closure's parameter)
                            for nw in P.find_calls(c["recv"], names={"new"}):
                                q = A.resolve(nw["args"][0], envs.get(id(nw))) if nw["args"] else ("none",)
                                if q[0] == "lit":
                                    lab = [q[1]]
                        sp = A.resolve(c["args"][0], envs.get(id(c)))
                        labels.append((lab[0] if lab else "", sp[2] if sp[0] == "bind" else "?"))
                    ok = ("Duplicate nonterminal definition", "1") in labels and ("Previous definition", "0") in labels
                    res.check(ok, rule, f"{rule}:handle_error:duplicate-labels", f"labels x tuple positions: {labels}", f.loc())
                # every arm passes the same span to .error() and .into_string()
                errs = [c for c in P.find_calls(a["body"], methods={"error", "warning"})]
                strs = [c for c in P.find_calls(a["body"], methods={"into_string"})]
                if errs and strs and len(errs) == len(strs):
                    same = all(A.resolve(e["args"][0], envs.get(id(e))) == A.resolve(s["args"][1], envs.get(id(s))) for e, s in zip(errs, strs))
                    res.check(same, rule, f"{rule}:handle_error:{'|'.join(vs)}:same-span", "snippet and path:line:col prefix use the same span", f"{f.file}:{a['l']}")


def _shell_span(fn, envs):
    calls = [c for c in P.find_calls(fn.body, names={"from_range"})]
    for c in calls:
        st_txt = c
    # shell_span = from_range(before_shell, input) with before_shell taken right after '@' and input right after the shell name
    # the shell's span is the last component of the parser's value `Ok((rest, (name, name_span, shell, shell_span)))`, whatever the locals are called
    v = P.peel(A.resolve(fn.body, A.fn_env(fn)))
    alts = v[1] if v[0] == "alt" else (v,)
    p = None
    for a in alts:
        a = P.peel(a)
        if a[0] == "call" and P.last(a[1]) == "Ok" and a[2] and a[2][0][0] == "tuple" and len(a[2][0][1]) == 2 and a[2][0][1][1][0] == "tuple" and len(a[2][0][1][1][1]) == 4:
            p = P.peel(a[2][0][1][1][1][3])
    if p is None:
        return False, "the parser's value is not Ok((rest, (name, span, shell, shell span)))"
    if not (p[0] == "call" and p[1].endswith("from_range")):
        return False, A.show(p)
    a, b = p[2]
    sa, sb = A.show(a), A.show(b)
    ok = "char('@')" in sa.replace('"', "'") and "is_not" in sb and A.contains(b, lambda x: x == a)
    return ok, f"shell_span = from_range(after '@', after the shell name): {ok}"


def units_rule(repo, res, rule="UNITS"):
    for q, meth in (("main::ErrMsg::error", "error"), ("main::WarnMsg::warning", "warning")):
        fn = repo.fn(q)
        if fn is None:
            res.undecided(rule, f"{rule}:{q}", "function not found")
            continue
        envs = A.collect_envs(fn)
        cs = [c for c in P.find_calls(fn.body, methods={meth}) if len(c["args"]) == 5]
        if len(cs) != 1:
            res.undecided(rule, f"{rule}:{q}", f"{len(cs)} chic::{meth} calls", fn.loc())
            continue
        a = [A.resolve(x, envs.get(id(cs[0]))) for x in cs[0]["args"]]
        res.check(a[0][0] == "field" and a[0][2] == "line", rule, f"{rule}:{q}:line", f"displayed line number <= {A.show(a[0])} (1-based)", fn.loc())
        res.check(a[1][0] == "mcall" and a[1][1] == "column_start_machine", rule, f"{rule}:{q}:start", f"annotation start <= {A.show(a[1])} (0-based)", fn.loc())
        res.check(a[2][0] == "mcall" and a[2][1] == "column_end_machine", rule, f"{rule}:{q}:end", f"annotation end <= {A.show(a[2])} (0-based)", fn.loc())
        s = A.show(a[3])
        res.check(".lines()" in s and ".nth(" in s and "line_machine()" in s, rule, f"{rule}:{q}:snippet-line", f"snippet line <= {s[:90]} (0-based index)", fn.loc())
        res.check(a[0][1][0] == "param" and a[0][1] == a[1][2] == a[2][2], rule, f"{rule}:{q}:same-span", "all three positions come from the same span parameter", fn.loc())
    for q in ("main::ErrMsg::into_string", "main::WarnMsg::into_string"):
        fn = repo.fn(q)
        if fn is None:
            res.undecided(rule, f"{rule}:{q}", "function not found")
            continue
        envs = A.collect_envs(fn)
        from vlib import templates as TM
        ms = [s for s in TM.fmt_sites(fn, envs) if s.macro == "format"]
        ok = len(ms) == 1
        if ok:
            s = ms[0]
            # template `<h0>:<h1>:<h2>...` with holes path, span.line, span.column_start (positional or captured by name)
            shape = [(p[0], p[1] if p[0] == "lit" else None) for p in s.pieces[:5]]
            ok = len(s.holes) >= 3 and [k for k, _ in shape] == ["hole", "lit", "hole", "lit", "hole"] and shape[1][1] == ":" and shape[3][1] == ":"
            if ok:
                a = [A.resolve(h[2], envs.get(id(h[2])) or s.env or A.fn_env(fn)) for h in s.holes[:3]]
                ok = a[0][0] == "param" and a[1][0] == "field" and a[1][2] == "line" and a[2][0] == "field" and a[2][2] == "column_start"
        res.check(ok, rule, f"{rule}:{q}", "prefix is path:line:column_start (1-based)", fn.loc())
    # accessors
    for name, fld in (("line_machine", "line"), ("column_start_machine", "column_start"), ("column_end_machine", "column_end")):
        fn = repo.fn(f"parse::HumanSpan::{name}")
        ok = False
        if fn is not None:
            v = A.resolve(fn.body, A.fn_env(fn))
            ok = v[0] == "bin" and v[1] == "-" and v[2][0] == "field" and v[2][2] == fld and v[3] == ("lit", "1")
        res.check(ok, rule, f"{rule}:HumanSpan::{name}", f"{name}() = self.{fld} - 1", fn.loc() if fn else "")
    for name in ("from_range", "from_machine"):
        fn = repo.fn(f"parse::HumanSpan::{name}")
        if fn is None:
            res.undecided(rule, f"{rule}:HumanSpan::{name}", "function not found")
            continue
        envs = A.collect_envs(fn)
        ss = [s for s in list(P.ctor_sites(fn.body, "Self")) + list(P.ctor_sites(fn.body, "HumanSpan")) if s["k"] == "Struct"]
        ok = len(ss) == 1
        if ok:
            ln = A.resolve(P.ctor_field(ss[0], "line"), envs.get(id(ss[0])))
            cs = A.resolve(P.ctor_field(ss[0], "column_start"), envs.get(id(ss[0])))
            first = fn.params[0]["name"]
            ok = "location_line" in A.show(ln) and f"({first})" in A.show(ln) and "get_column" in A.show(cs) and f"({first})" in A.show(cs)
        res.check(ok, rule, f"{rule}:HumanSpan::{name}:start", "line and start column come from the first (earlier) position", fn.loc())
        if len(ss) == 1:
            # the end column is a COLUMN: every value it can take is a position's column, or a column plus a length -- a bare length
            # (`line.len() + 1`) counts from the start of the construct, not of the line, and can lie before the start column
            ce = A.resolve(P.ctor_field(ss[0], "column_end"), envs.get(id(ss[0])))
            alts = ce[1] if ce[0] == "alt" else (ce,)

            def has_col(t):
                if isinstance(t, tuple):
                    if t and t[0] == "mcall" and t[1] in ("get_column", "get_utf8_column", "naive_get_utf8_column"):
                        return True
                    if t and t[0] == "field" and t[2] in ("column_start", "column_end"):
                        return True
                    return any(has_col(x) for x in t)
                return False
            bad_alts = [A.show(t)[:70] for t in alts if not has_col(t)]
            res.check(not bad_alts, rule, f"{rule}:HumanSpan::{name}:end-is-a-column", f"column_end takes {len(alts)} form(s), each built on a column" if not bad_alts else f"column_end can be {bad_alts}: no column in it -- a length taken for a column (the end may lie before the start)", fn.loc())


def ends_rule(repo, res, rule="ENDS"):
    """`Adjacent literals` points at the END of the left item and the START of the right item: expr_get_tail descends into the
    LAST child of a sequence, expr_get_head into the FIRST; do_check_subword_spaces hands the left neighbour to the former and the
    right neighbour to the latter."""
    want = {"check::expr_get_head": "first", "check::expr_get_tail": "last"}
    for q, m in want.items():
        fn = repo.fn(q)
        if fn is None:
            res.undecided(rule, f"{rule}:{q}", "function not found")
            continue
        found = None
        known = {}
        d = A.delegate(repo, fn)
        if d is not None and not any(a["k"] == "Arm" for a in A.walk(fn.body)):
            # head / tail as two wrappers of one function with a direction flag: read that function under the flag's value
            fn, known = d
        for a in A.walk(fn.body):
            if a["k"] == "Arm" and any(v[0].endswith("::Sequence") for v in A.pat_variants(a["pat"])):
                live = list(A.live_walk(a["body"], known))
                ms = [x["method"] for x in live if x["k"] == "MethodCall" and x["method"] in ("first", "last", "next", "next_back", "get", "nth")]
                idx = [x for x in live if x["k"] == "Index"]
                found = (ms, len(idx))
        ok = found is not None and found[0] == [m] and found[1] == 0
        res.check(ok, rule, f"{rule}:{q}:Sequence", f"the Sequence arm takes children.{found[0] if found else '?'}()" + ("" if ok else f": must be children.{m}() -- the reported span would be the other end of the item"), fn.loc())
    fn = repo.fn("check::do_check_subword_spaces")
    if fn is None:
        res.undecided(rule, f"{rule}:check::do_check_subword_spaces", "function not found")
        return
    envs = A.collect_envs(fn)
    sites = list(P.ctor_sites(fn.body, "Error::SubwordSpaces"))
    core = None
    if not sites:
        core = RPL.subword_spaces_core(repo)
        res.check(bool(core.get("order")), rule, f"{rule}:check::do_check_subword_spaces:sites", core.get("why", "no SubwordSpaces construction found in check.rs"), fn.loc())
        return
    res.check(len(sites) >= 1, rule, f"{rule}:check::do_check_subword_spaces:sites", f"{len(sites)} SubwordSpaces construction sites", fn.loc())
    for i, s in enumerate(sites):
        a0 = A.show(A.resolve(P.ctor_field(s, "0"), envs.get(id(s))))
        a1 = A.show(A.resolve(P.ctor_field(s, "1"), envs.get(id(s))))
        ok = "expr_get_tail" in a0 and "expr_get_head" not in a0 and "expr_get_head" in a1 and "expr_get_tail" not in a1
        if not ok:
            core = core or RPL.subword_spaces_core(repo)
            ok = bool(core.get("order"))
        res.check(ok, rule, f"{rule}:check::do_check_subword_spaces:SubwordSpaces#{i + 1}", f"first <= {a0[:80]} ; second <= {a1[:80]}" + ("" if ok else ": first must be the tail of the left neighbour, second the head of the right one"), f"{fn.file}:{s['l']}")


def srctext_rule(repo, res, rule="SRCTEXT"):
    """Positions are counted in the text that was parsed and shown against the text that is quoted: both must be the bytes of the usage
    file.  In main.rs the value handed to Grammar::parse is the buffer filled by read_to_string with no string transformation applied
    on the way (replace / trim / lines / to_lowercase / expand ...), and the `source` given to the diagnostics is that same value."""
    fn = repo.fn("main::aot")
    if fn is None:
        res.undecided(rule, f"{rule}:main::aot", "function not found")
        return
    envs = A.collect_envs(fn)
    ps = [c for c in P.find_calls(fn.body, names={"parse"}) if c["func"]["k"] == "Path" and "Grammar" in c["func"]["path"]]
    if len(ps) != 1:
        # the read may live in a helper (`read_file_or_stdin`): fall back on any call named parse
        ps = [c for c in P.find_calls(fn.body, names={"parse"}) if c["args"]]
    if len(ps) != 1:
        res.undecided(rule, f"{rule}:main::aot:parse", f"{len(ps)} Grammar::parse call sites", fn.loc())
        return
    c = ps[0]
    ALLOWED = {"read_to_string", "context", "with_context", "to_owned", "clone", "default", "new", "as_str", "as_ref", "as_deref", "borrow", "to_string", "into", "unwrap", "expect", "map_err", "ok_or", "ok_or_else", "with_capacity", "from_utf8", "read_to_end", "lock", "unwrap_or", "unwrap_or_else", "map"}
    calls = A.reach_calls(c["args"][0], envs.get(id(c)), fn=fn, envs=envs)
    # a helper that reads the file counts through its own body
    for h in repo.fns_in("main"):
        if h.name in calls and h is not fn:
            calls |= {x["method"] for x in A.walk(h.body) if x["k"] == "MethodCall"}
    helpers = {h.name for h in repo.fns_in("main")}
    extra = sorted(m for m in calls if m not in ALLOWED and m not in helpers and m not in ("stdin", "open", "Box", "Ok", "Some"))
    res.check("read_to_string" in calls and not extra, rule, f"{rule}:main::aot:parsed-text-is-file-text", "Grammar::parse receives the buffer read from the usage file, untransformed" if not extra else f"the text is transformed before it is parsed ({extra}): positions are then counted in a text that is not the file", f"{fn.file}:{c['l']}")
    src = A.resolve(c["args"][0], envs.get(id(c)))
    same = True
    n = 0
    # which parameter of handle_error is the source text: the one it hands to `.error(span, source, ..)`
    he = repo.fn("main::handle_error")
    sidx = 2
    if he is not None:
        henvs = A.collect_envs(he)
        for w in P.find_calls(he.body, methods={"error", "warning"}):
            if len(w["args"]) == 3:
                q = P.peel(A.resolve(w["args"][1], henvs.get(id(w))))
                if q[0] == "param" and isinstance(q[1], int):
                    sidx = q[1]
    for h in P.find_calls(fn.body, names={"handle_error"}) :
        if len(h["args"]) > sidx:
            n += 1
            same = same and P.peel(A.resolve(h["args"][sidx], envs.get(id(h)))) == P.peel(src)
    for w in P.find_calls(fn.body, methods={"warning", "error"}):
        if len(w["args"]) == 3:
            n += 1
            same = same and P.peel(A.resolve(w["args"][1], envs.get(id(w)))) == P.peel(src)
    res.check(same and n >= 2, rule, f"{rule}:main::aot:quoted-text-is-parsed-text", f"{n} diagnostic sites quote lines of the very text that was parsed", fn.loc())


def duporder_rule(repo, res, rule="DUPORDER"):
    """`Duplicate nonterminal definition` is reported at the later definition and `Previous definition` at the earlier one: the
    error carries (previous, duplicate) -- main.rs prints them in that order.  At every place the error is built, the first span must
    come from what was FOUND (the entry looked up in the map of definitions seen so far), the second from the definition in hand
    (the loop's element)."""
    n = 0
    for q, f in sorted(repo.fns.items()):
        sites = list(P.ctor_sites(f.body, "Error::DuplicateNonterminalDefinition"))
        if not sites:
            continue
        envs = A.collect_envs(f)
        for i, s_ in enumerate(sites):
            args = s_.get("args") or []
            if len(args) != 2:
                continue
            n += 1
            t0, t1 = A.resolve(args[0], envs.get(id(s_))), A.resolve(args[1], envs.get(id(s_)))

            def has(t, pred):
                if isinstance(t, tuple):
                    if t and isinstance(t[0], str) and pred(t):
                        return True
                    return any(has(x, pred) for x in t)
                return False
            looked_up = lambda t: t[0] == "mcall" and t[1] in ("get", "get_mut", "get_key_value", "get_full", "insert", "entry", "find")
            found0, found1 = has(t0, looked_up), has(t1, looked_up)
            ok = found0 and not found1
            res.check(ok, rule, f"{rule}:{q}#{i + 1}", f"(previous = {A.show(t0)[:70]}, duplicate = {A.show(t1)[:50]})" + ("" if ok else
                      ": the spans are not (found entry, definition in hand) -- `Duplicate ..` and `Previous definition` would be reported at each other's place"), f"{f.file}:{s_['l']}")
    res.floor(rule, n, 2)


def run(repo, res, tier):
    srctext_rule(repo, res)
    duporder_rule(repo, res)
    from . import c15
    c15.book_rules(repo, res)  # which span is stored for `Unused` / `Unused specialization` / `Undefined` (the warning's place)
    from . import c11
    c11.dom_get_specializations(repo, res)  # FF: every shell's arm records UserSpec.span <= the definition's lhs_span (`Unused specialization` / `Previous definition` point there)
    from . import c06
    c06.column_units(repo, res, rule="UNITS")
    from vlib import rules_pairing as RPAIR
    # the reference trace of `Adjacent literals` and the cycle path list exactly the references on the current path
    n_pair = RPAIR.pairing_rule(repo, res)
    res.floor("PAIRING", n_pair, 3)
    ends_rule(repo, res)
    mir = M.get_mir(tier)
    res.engines["M"] = {"functions": len(mir.fns)}
    spansrc(repo, mir, res)
    n = range_rule(repo, res)
    ff_rule(repo, res)
    units_rule(repo, res)
    res.floor("SPANSRC", res.count("SPANSRC"), 2)
    res.floor("RANGE", n, 7)
    res.floor("FF", res.count("FF"), 20)
    res.floor("UNITS", res.count("UNITS"), 9)
