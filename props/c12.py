"""C12 -- inside a word, overlapping alternatives are told apart correctly."""
import re

from vlib import ast as A, prov as P, templates as TM
from . import sk_bash

LEVEL = "other"
EXPLANATION = (
    "Decided on /repo's current source: SORTLEN (dfa::DFA::get_top_level_literals_decreasing_length orders the literal set by decreasing length and nothing reorders it afterwards -- accepted idioms: ascending (len, text) sort followed by "
    "reverse(), a descending comparator, sort_by_key(Reverse(len)); get_all_literals numbers the literals by their position in that order), "
    "SK-SUB (bash, on the parsed within-word matcher of every flag assignment examined: ids are visited in increasing order = decreasing length; per literal the exact match is tested before the exit `typed remainder is a proper prefix of this literal`; "
    "that exit is never taken for a complete earlier word (matches mode) -- otherwise, values being visited longest first, `abc` leaves at `abcd` before its own equality is reached --; exit, exact match and consume step each require a transition on that "
    "literal from the current state; the consume step advances by the literal's length and takes the cell's state; matches mode succeeds iff the whole word was consumed), "
    "SK-MATCHFN (bash: the prefix filter appends exactly the candidates matching `${prefix}*`, with no further condition), "
    "SIBLINGS (zsh, fish, pwsh: the same exit in their within-word matchers carries the same two guards -- recognised by per-shell patterns on the template text, an agreement check between sibling implementations, not a parse). "
    "NOT decided: the resulting COMPREPLY for concrete value sets; command-output candidates inside a word (bash's candidate loop has the same early exit without a mode guard: advisory); the non-bash matchers beyond the guard agreement."
    " ISOCOV (shared with C01/C04/C09): two within-word value sets share printed tables only if every printed table agrees."
)
ASSUMPTIONS = [
    "bash semantics of [[ ]], continue N / break N as parsed by vlib/bashparse.py",
    "decreasing length order is what makes 'longest first' true: Ustr::len is the byte length, the same unit bash's ${#literal} uses for ASCII (non-ASCII literals: not decided)",
]

ORDER_OPS = {"sort", "sort_by", "sort_by_key", "sort_by_cached_key", "sort_unstable", "sort_unstable_by", "sort_unstable_by_key", "sort_keys", "sort_unstable_keys", "reverse", "rotate_left", "rotate_right", "swap", "swap_indices", "move_index", "shuffle", "sorted_by", "par_sort", "par_sort_by"}


def comparator_direction(clo):
    """'asc-len' | 'desc-len' | None for a two-parameter comparator closure whose key starts with the length"""
    if clo["k"] != "Closure" or len(clo["params"]) != 2:
        return None
    names = []
    for p in clo["params"]:
        b = [n for n, _ in A.pat_bindings(p)]
        names.append(b[0] if b else None)
    body = clo["body"]
    while body["k"] == "Block" and len(body["stmts"]) == 1 and body["stmts"][0]["k"] == "ExprStmt":
        body = body["stmts"][0]["expr"]
    # `a.len().cmp(&b.len()).then_with(|| ..)` / `.then(..)`: the primary key is the first comparison (the rest only breaks ties)
    while body["k"] == "MethodCall" and body["method"] in ("then_with", "then") and len(body["args"]) == 1:
        body = body["recv"]
    if body["k"] != "MethodCall" or body["method"] != "cmp" or len(body["args"]) != 1:
        return None

    def first_key(e):
        while e["k"] in ("Ref", "Unary", "Paren"):
            e = e["expr"]
        if e["k"] == "Tuple" and e["elems"]:
            e = e["elems"][0]
        if e["k"] == "MethodCall" and e["method"] == "len":
            r = e["recv"]
            while r["k"] in ("Ref", "Unary", "Field"):
                r = r["expr"] if r["k"] != "Field" else r["base"]
            if r["k"] == "Path":
                return r["path"]
        return None

    l, r = first_key(body["recv"]), first_key(body["args"][0])
    if l == names[0] and r == names[1]:
        return "asc-len"
    if l == names[1] and r == names[0]:
        return "desc-len"
    return None


def sortlen(repo, res, rule="SORTLEN"):
    fq = "dfa::DFA::get_top_level_literals_decreasing_length"
    fn = repo.fn(fq)
    if fn is None:
        res.undecided(rule, f"{rule}:{fq}", "function not found")
        return
    # the value returned
    last = None
    for st in fn.body["stmts"]:
        last = st["expr"] if st["k"] == "ExprStmt" and not st["semi"] else None
    if last is None or last["k"] != "Path":
        res.undecided(rule, f"{rule}:{fq}", "the function does not end in a local holding the ordered set")
        return
    var = last["path"]
    ops = []
    for n in A.walk(fn.body):
        if n["k"] == "MethodCall" and n["method"] in ORDER_OPS:
            r = n["recv"]
            while r["k"] in ("Ref", "Unary"):
                r = r["expr"]
            if r["k"] == "Path" and r["path"] == var:
                ops.append(n)
    ops.sort(key=A.pos)
    desc = []
    for n in ops:
        d = n["method"]
        if n["args"] and n["args"][0]["k"] == "Closure" and not n["method"].endswith("by_key"):
            cd = comparator_direction(n["args"][0])
            d += f"({cd})"
        elif n["method"].endswith("by_key") and n["args"]:
            txt = "".join(repo.text(fn.file, n["args"][0]).split())
            d += "(Reverse-len)" if re.search(r"Reverse\(\w*\.?(0\.)?len\(\)", txt) else "(?)"
        desc.append(d)
    accepted = (
        desc in (["sort_unstable_by(asc-len)", "reverse"], ["sort_by(asc-len)", "reverse"], ["sort_unstable_by(desc-len)"], ["sort_by(desc-len)"], ["sort_by_key(Reverse-len)"], ["sort_unstable_by_key(Reverse-len)"], ["sort_by_cached_key(Reverse-len)"])
    )
    res.check(accepted, rule, f"{rule}:{fq}:order", f"ordering operations on the returned set, in order: {desc}" + ("" if accepted else " -- not one of the accepted decreasing-length idioms; any later reordering breaks 'longest literal first', on which the within-word matchers rely"), fn.loc())
    # the literal set is built from every Literal symbol (no filter on description etc.)
    # ids = enumerate() positions in that order
    g = repo.fn("dfa::DFA::get_all_literals")
    if g is None:
        res.undecided(rule, f"{rule}:dfa::DFA::get_all_literals", "function not found")
        return
    envs = A.collect_envs(g)
    chain_ok = False
    why = "no enumerate() over get_top_level_literals_decreasing_length()"
    for n in A.walk(g.body):
        if n["k"] == "MethodCall" and n["method"] == "enumerate":
            ms = []
            cur = n["recv"]
            while cur["k"] == "MethodCall":
                ms.append(cur["method"])
                cur = cur["recv"]
            ms.reverse()
            if ms and ms[0] == "get_top_level_literals_decreasing_length":
                extra = [m for m in ms[1:] if m not in ("into_iter", "iter", "copied", "cloned")]
                chain_ok = not extra
                why = f"ids are enumerate() positions over get_top_level_literals_decreasing_length()" + (f" after {extra}: the numbering no longer follows decreasing length" if extra else "")
    res.check(chain_ok, rule, f"{rule}:dfa::DFA::get_all_literals:ids-follow-order", why, g.loc())


GUARDS = {
    "zsh": dict(fn="zsh::write_subword_fn", exit=r"\[\[[^\n]*\$literal == \$subword\*[^\n]*\]\]", mode=r"\$mode != matches", trans=r'-v "state_transitions\[\$literal_id\]"'),
    "fish": dict(fn="fish::write_subword_fn", exit=r'if [^\n]*string match --quiet -- "\$subword\*" \$literal', mode=r"test \$mode != matches", trans=r'contains -- "\$literal_id" \$inputs'),
    "pwsh": dict(fn="pwsh::write_subword_fn", exit=r"if \([^\n]*\$literal\.StartsWith\(\$subword[^\n]*\{", mode=r"\$mode -ne 'matches'", trans=r"\$state_transitions\.ContainsKey\(\$literal_id\)"),
}


def siblings(repo, res, rule="SIBLINGS"):
    for sh, g in GUARDS.items():
        fn = repo.fn(g["fn"])
        if fn is None:
            res.undecided(rule, f"{rule}:{sh}", f"{g['fn']} not found")
            continue
        envs = A.collect_envs(fn)
        text = ""
        for s in TM.fmt_sites(fn, envs):
            if s.macro in ("write", "writeln"):
                text += "".join(p[1] if p[0] == "lit" else "\x00" for p in s.pieces) + "\n"
        ms = re.findall(g["exit"], text)
        if len(ms) != 1:
            res.undecided(rule, f"{rule}:{sh}:prefix-exit", f"{len(ms)} lines recognised as the `typed remainder is a prefix of the literal` exit in {g['fn']} (cannot compare with the bash sibling)", fn.loc())
            continue
        line = ms[0]
        has_mode = bool(re.search(g["mode"], line))
        has_tr = bool(re.search(g["trans"], line))
        conj_only = "||" not in line and " -or " not in line.lower() and "; or " not in line
        res.check(has_mode and conj_only, rule, f"{rule}:{sh}:prefix-exit-not-in-matches-mode", f"`{line.strip()[:110]}`" + ("" if has_mode and conj_only else ": the exit is also taken for a complete earlier word; the longer literal visited first hides the equality with the shorter one (bash sibling carries the mode guard)"), fn.loc())
        res.check(has_tr and conj_only, rule, f"{rule}:{sh}:prefix-exit-needs-transition", "the exit requires a transition on that literal from the current state" if has_tr else "the exit fires for literals the current state does not expect (bash sibling requires the transition)", fn.loc())


def _bash_printer_skips(repo, res):
    from vlib import rules_declguard as DG
    DG.declguard_rule(repo, res, modules=("bash",))


LOOPS = {
    # shell: (function, regex with groups start / comparison operator, what the bound is compared with)
    "zsh": ("zsh::write_subword_fn", r"for \(\(literal_id = (\d+); literal_id (<=|<|-le|-lt) \$#subword_literals; literal_id\+\+\)\)"),
    "fish": ("fish::write_subword_fn", r"set literal_id (\d+)\n\s*while test \$literal_id (-le|-lt|<=|<) \(count \$subword_literals\)"),
    "pwsh": ("pwsh::write_subword_fn", r"for \(\$literal_id = (\d+); \$literal_id (-lt|-le|<|<=) \$literals\.Count; \$literal_id\+\+\)"),
}


def sibling_loop_bounds(repo, res, rule="SIBLINGS"):
    """the literal scan of each sibling matcher visits EVERY literal id, first to last: it starts at the module's ARRAY_START and its
    bound includes the last element (`<=`/-le count when arrays start at 1, `<`/-lt count when they start at 0).  An exclusive
    bound on a 1-based array never tries the last literal -- the shortest value of a prefix chain."""
    from vlib import rules_emit as RE_

    for sh, (fq, pat) in LOOPS.items():
        fn = repo.fn(fq)
        base = RE_.module_base(repo, sh)
        if fn is None or base is None:
            res.undecided(rule, f"{rule}:{sh}:literal-loop-bounds", f"{fq} or {sh}::ARRAY_START not found")
            continue
        envs = A.collect_envs(fn)
        text = ""
        for s in TM.fmt_sites(fn, envs):
            if s.macro in ("write", "writeln"):
                text += "".join(p[1] if p[0] == "lit" else "\x00" for p in s.pieces) + "\n"
        ms = re.findall(pat, text)
        if len(ms) != 1:
            res.undecided(rule, f"{rule}:{sh}:literal-loop-bounds", f"{len(ms)} loops recognised as the literal scan of {fq}")
            continue
        start, op = int(ms[0][0]), ms[0][1]
        inclusive = op in ("<=", "-le")
        ok = start == base and inclusive == (base == 1)
        res.check(ok, rule, f"{rule}:{sh}:literal-loop-bounds", f"ids visited from {start} while id {op} count; arrays of {sh} start at {base}" + ("" if ok else ": the scan does not cover exactly the ids first..last"), fn.loc())


def run(repo, res, tier):
    from . import c04 as _c04
    _c04.allstates(repo, res)  # a fully typed value is recognised only if the state it is typed at has its row of within-word transitions
    _c04.isocov(repo, res)  # two within-word value sets share one printed table set only if every printed table agrees (ISOCOV, shared with C01 / C04 / C09)
    sibling_loop_bounds(repo, res)
    _bash_printer_skips(repo, res)
    sortlen(repo, res)
    sk_bash.sub_rule(repo, res, tier)
    sk_bash.matchfn_rule(repo, res, tier)
    sk_bash.candord_rule(repo, res, tier)  # command output inside a word: the same longest-first discipline as for literals
    siblings(repo, res)
    # values that are prefixes of one another are all offered only if nothing between the matcher and COMPREPLY drops look-alikes (SK-FB F4 reply clause, shared with C01)
    sk_bash.fb_rule(repo, res, tier, only="F4:reply-offers-every-match")
    res.floor("SORTLEN", res.count("SORTLEN"), 1)
    res.floor("SK-SUB", res.count("SK-SUB"), 6)
    res.floor("SK-MATCHFN", res.count("SK-MATCHFN"), 6)
    res.floor("SIBLINGS", res.count("SIBLINGS"), 4)
    res.advisory("bash: the command-candidate loop inside the within-word matcher (`break 3` when a candidate extends the typed remainder) has no mode guard; overlapping outputs of an external command inside a word are outside C12's wording (values of the grammar)")
