"""C06 -- the compiler never crashes or hangs: script + exit 0, or diagnostic + exit 1."""
import collections
import re

from vlib import ast as A, prov as P, mir as M, tables
from vlib import rules_panic as RPN
from vlib import rules_pipeline as RPL
from . import c15

LEVEL = "other"
EXPLANATION = (
    "Decides on /repo's current source (MIR of the lib and bin crates as cargo builds them, overflow checks on; plus the syntax tree): "
    "PANIC (every panic-capable site reachable from main -- Assert terminators, unwrap/expect, Index, explicit panics, contract-carrying library calls, "
    "process::exit -- must equal, group by group and count by count, the inventory in tables/panic_sites.toml, each row carrying a discharge; ARENA / INTERN / "
    "EXIT / PHASE discharges are re-checked mechanically on every run), ARITH (additions on u32/usize -- inline overflow asserts and calls of the primitive Add impls such as "
    "`&u32 + u32` -- are discharged as a class by the magnitude argument instead of by counted rows, and its visible premises are checked over everything reachable from main: "
    "no u32/usize constant >= 2^16, no Not/Neg, no cast from a signed/float/u64 source, no unchecked Sub/Mul/Shl, no wrapping/parsing/pow-like call; an addition on a narrower type "
    "or with a large constant, and every Sub/Mul/Div/Shl including those through the operator traits, still needs a row), REC (every recursive SCC of the call graph reachable from main must be tabled with its "
    "descent argument; input-proportional depth is reported as a finding), EXIT (all exit sites pass the constant 1, main returns Result, no abort), "
    "ORD (no path from the creation of the script destination to handle_error / exit / an Err return other than the emitter's own I/O error; all validation "
    "dominates it), WARN (warning blocks have no exit edge). A newly added unwrap/index/unreachable that happens to be safe is reported until it gets a row: that is the price "
    "of a may-panic inventory. NOT decided: 'terminates promptly'; panics inside dependencies beyond the contract table; I/O faults."
    " PANIC re-checks, for tabled `X.next().unwrap()` sites whose argument is a test in front of them, that the test is still there, reads the same variable, and the variable is not reassigned in between."
)
ASSUMPTIONS = [
    "MIR as produced by rustc nightly with -Zmir-opt-level=0 for `cargo check` of the shipped targets (lib + bin, no tests)",
    "call graph: calls resolved by Instance::try_resolve; unresolved callees are checked to be non-local trait methods of generic parameters",
    "tables/panic_sites.toml classes GUARD/KEYOF/CONST/ARGUED are arguments confirmed by reading, not re-proved",
    "ARITH: 'a u32/usize counter, id or offset cannot reach 2^31 before memory is exhausted' is an argument about magnitudes, not a value-range proof; only its listed premises are checked",
    "panics inside dependencies are covered only for the callee contracts listed in vlib/rules_panic.py",
]


def group_key(i):
    return (i["owner"], i["kind"], i["what"], i["producer"], i["mac"])


def key_str(k):
    return "PANIC:" + "|".join(k)


def _len_bound(repo, fn, cond, base_txt, negate=False):
    """smallest length of `base` that the condition (or its negation) guarantees, or None"""
    c = cond
    while c["k"] == "Paren":
        c = c["expr"]
    if c["k"] == "Unary" and c.get("op") == "!":
        return _len_bound(repo, fn, c["expr"], base_txt, not negate)
    txt = lambda e: "".join(repo.text(fn.file, e).split()).lstrip("&*")
    if c["k"] == "MethodCall" and c["method"] == "is_empty" and txt(c["recv"]) == base_txt:
        return 1 if negate else None
    if c["k"] == "Binary" and c["op"] in ("==", "!=", ">", ">=", "<", "<="):
        l, r, op = c["left"], c["right"], c["op"]
        if r["k"] == "MethodCall":
            l, r = r, l
            op = {">": "<", "<": ">", ">=": "<=", "<=": ">="}.get(op, op)
        if l["k"] == "MethodCall" and l["method"] == "len" and txt(l["recv"]) == base_txt and r["k"] == "Lit" and str(r.get("v", "")).isdigit():
            k = int(r["v"])
            if negate:
                op = {"==": "!=", "!=": "==", ">": "<=", ">=": "<", "<": ">=", "<=": ">"}[op]
            return {"==": k, ">": k + 1, ">=": k}.get(op)
    if c["k"] == "Binary" and c["op"] == "&&" and not negate:
        a, b = _len_bound(repo, fn, c["left"], base_txt), _len_bound(repo, fn, c["right"], base_txt)
        return max([x for x in (a, b) if x is not None], default=None)
    return None


def guard_held(repo, owner, line):
    """`X...next().unwrap()` at `line`: some test that dominates it mentions the root variable of X (starts_with / is_empty / len / a
    pattern on it), and X's root is not assigned between that test and the site"""
    fn = repo.fn(owner)
    if fn is None:
        return False, f"{owner} not found"
    pm = A.parent_map(fn.body)
    sites = [n for n in A.walk(fn.body) if n["k"] == "MethodCall" and n["method"] in ("unwrap", "expect") and n["l"] <= line <= n["el"] and n["recv"].get("k") == "MethodCall" and n["recv"]["method"] == "next"]
    if not sites:
        return False, "no `.next().unwrap()` found at the recorded line"
    site = sites[0]
    root = site["recv"]["recv"]
    while root.get("k") in ("MethodCall", "Field", "Ref", "Paren", "Unary", "Index", "Try"):
        root = root.get("recv") or root.get("base") or root.get("expr")
    if root is None or root.get("k") != "Path":
        return False, "the iterated value is not a plain variable"
    v = root["path"]
    word = re.compile(r"(?<![A-Za-z0-9_])%s(?![A-Za-z0-9_])" % re.escape(v))
    conds = []
    for g, role in A.guards_of(site, pm):
        if g["k"] in ("If", "While"):
            conds.append(g["cond"])
        elif g["k"] == "Arm" and g.get("guard") is not None:
            conds.append(g["guard"])
    for kind, c, st in A.preceding_guards(site, pm):
        conds.append(c if kind == "if" else c.get("init") or c)
    tests = [c for c in conds if c is not None and word.search(" ".join(repo.text(fn.file, c).split()))]
    if not tests:
        return False, f"`{v}...next().unwrap()` with no test of `{v}` in front of it: an empty `{v}` panics"
    assigns = [a for a in A.walk(fn.body) if a["k"] == "Assign" and a["left"].get("k") == "Path" and a["left"]["path"] == v]
    for t in sorted(tests, key=A.pos, reverse=True):
        between = [a for a in assigns if A.before(t, a) and A.before(a, site)]
        if not between:
            return True, f"`{v}` is tested by `{' '.join(repo.text(fn.file, t).split())[:50]}` and not reassigned before `.next().unwrap()`"
    return False, f"`{v}` is reassigned between the test of it and `.next().unwrap()`: the test no longer speaks about the value that is unwrapped (an empty `{v}` panics)"


def guarded_literal_index(repo, site):
    """`v[k]` with a literal k, standing where a test of `v.len()` / `v.is_empty()` on the same (immutable since) receiver
    guarantees len > k: an enclosing `if`, or an earlier `if .. { return / continue / break }` in an enclosing block"""
    fn = repo.fn(site["owner"]) or repo.fn(site["fn"])
    if fn is None:
        return None
    pm = A.parent_map(fn.body)
    envs = None
    for n in A.walk(fn.body):
        if n["k"] == "Index" and n["l"] == site["line"] and n["index"]["k"] == "Range" and n["index"].get("end") is None and n["index"].get("start") is not None:
            # `v[i + 1..]` (or `v[i..]`) with i the enumerate() index over the same v: i < len, so i + 1 <= len -- the suffix may be empty, never out of range
            envs = envs or A.collect_envs(fn)
            st = n["index"]["start"]
            plus = 0
            if st["k"] == "Binary" and st["op"] == "+" and st["right"]["k"] == "Lit" and str(st["right"].get("v")) == "1":
                st, plus = st["left"], 1
            p = A.resolve(st, envs.get(id(n)))
            b = A.resolve(n["base"], envs.get(id(n)))
            while b[0] in ("ref", "deref"):
                b = b[1]
            if p[0] == "proj" and p[2] == 0 and p[1][0] == "elem" and p[1][1][0] == "mcall" and p[1][1][1] == "enumerate":
                src = p[1][1][2]
                while src[0] == "mcall" and src[1] in ("iter", "into_iter") or src[0] in ("ref", "deref"):
                    src = src[2] if src[0] == "mcall" else src[1]
                if src == b:
                    return f"`{''.join(repo.text(fn.file, n).split())}`: the start is the enumerate() index over the same sequence{' plus one' if plus else ''}, at most its length"
            continue
        if n["k"] != "Index" or n["l"] != site["line"] or n["index"]["k"] != "Lit" or not str(n["index"].get("v", "")).isdigit():
            continue
        k = int(n["index"]["v"])
        # an element of `.windows(N)` / `.chunks_exact(N)` has exactly N items
        envs = envs or A.collect_envs(fn)
        b = A.resolve(n["base"], envs.get(id(n)))
        while b[0] in ("ref", "deref"):
            b = b[1]
        if b[0] == "elem" and b[1][0] == "mcall" and b[1][1] in ("windows", "chunks_exact", "array_windows") and b[1][3] and b[1][3][0][0] == "lit" and str(b[1][3][0][1]).isdigit() and k < int(b[1][3][0][1]):
            return f"index {k} into an element of .{b[1][1]}({b[1][3][0][1]}): always {b[1][3][0][1]} items long"
        base_txt = "".join(repo.text(fn.file, n["base"]).split()).lstrip("&*")
        best = None
        for g, role in A.guards_of(n, pm):
            if g["k"] == "If" and role in ("then", "else"):
                b = _len_bound(repo, fn, g["cond"], base_txt, negate=(role == "else"))
                if b is not None:
                    best = max(best or 0, b)
        for kind, cnd, st in A.preceding_guards(n, pm):
            if kind == "if":
                b = _len_bound(repo, fn, cnd, base_txt, negate=True)
                if b is not None:
                    best = max(best or 0, b)
        if best is not None and best > k:
            return f"`{base_txt}[{k}]` under a test that guarantees {base_txt}.len() >= {best}"
    return None


def panic_rule(repo, mir, reach, res, rule="PANIC"):
    inv = RPN.inventory(mir, reach)
    # an index by a literal below a length the surrounding tests guarantee needs no row
    keep = []
    discharged = collections.Counter()
    for i in inv:
        why = guarded_literal_index(repo, i) if i["kind"] in ("index", "assert:bounds") and not i.get("mech") else None
        if why:
            discharged[group_key(i)] += 1
            res.ok(rule, f"{rule}:{i['owner']}|index|guarded-literal", why, f"{i['file']}:{i['line']}")
        else:
            keep.append(i)
    inv = keep
    # `v.len() - 1` right after `v.push(..)`: the length is at least 1
    keep = []
    for i in inv:
        why = None
        if i["kind"] == "assert:overflow:Sub":
            f = repo.fn(i["owner"]) or repo.fn(i["fn"])
            if f is not None:
                pm = A.parent_map(f.body)
                for b in A.walk(f.body):
                    if b["k"] == "Binary" and b["op"] == "-" and b["l"] == i["line"] and b["right"].get("k") == "Lit" and str(b["right"].get("v")) == "1" and b["left"].get("k") == "MethodCall" and b["left"]["method"] == "len":
                        recv = "".join(repo.text(f.file, b["left"]["recv"]).split())
                        st = A.stmt_of(b, pm)
                        blk = pm.get(id(st), (None,))[0] if st is not None else None
                        if blk is not None and blk.get("k") == "Block":
                            idx = next((j for j, s_ in enumerate(blk["stmts"]) if s_ is st), None)
                            prev = blk["stmts"][idx - 1] if idx else None
                            if prev is not None and prev.get("k") == "ExprStmt" and prev["expr"].get("k") == "MethodCall" and prev["expr"]["method"] == "push" and "".join(repo.text(f.file, prev["expr"]["recv"]).split()) == recv:
                                why = f"`{recv}.len() - 1` directly after `{recv}.push(..)`: the length is at least 1"
        if why:
            res.ok(rule, f"{rule}:{i['owner']}|sub|after-push", why, f"{i['file']}:{i['line']}")
        else:
            keep.append(i)
    inv = keep
    # `let Some(x) = m.get(k) else { unreachable!() }`: the lookup-that-must-succeed written with let-else -- the same access as
    # `m.get(k).unwrap()` / `m[k]` (the panic in the else block is reclassified as an unwrap of that lookup)
    for i in inv:
        if i["kind"] == "panic" and not i.get("mech"):
            f = repo.fn(i["owner"]) or repo.fn(i["fn"])
            if f is None:
                continue
            for n in A.walk(f.body):
                if n["k"] == "Local" and n.get("else") is not None and n.get("init") is not None and n["else"]["l"] <= i["line"] <= n["else"]["el"]:
                    ini = n["init"]
                    while ini["k"] in ("Try", "Ref", "Paren"):
                        ini = ini["expr"]
                    only = [x for x in A.walk(n["else"]) if x["k"] in ("Macro", "Call", "MethodCall", "Return", "Break", "Continue")]
                    if ini["k"] == "MethodCall" and ini["method"] in ("get", "get_mut", "first", "last", "first_mut", "last_mut", "get_index", "get_index_of", "get_full") \
                            and len(only) == 1 and only[0]["k"] == "Macro" and only[0].get("name") in ("unreachable", "panic"):
                        i["kind"], i["producer"] = "unwrap", "letelse::" + ini["method"]
    # additions on u32/usize are discharged as a class (ARITH rule below), everything else row by row
    tabled = [i for i in inv if not i.get("mech")]
    groups = collections.Counter(group_key(i) for i in tabled)
    where = {}
    for i in tabled:
        where.setdefault(group_key(i), []).append(f"{i['file']}:{i['line']}")
    t = tables.load("panic_sites")
    rows = {}
    for r in t["site"]:
        rows[(r["fn"], r["kind"], r["what"], r["producer"], r["mac"])] = r
    classes = collections.Counter()
    # code motion: a site (or some of the sites of a row) that left function f and shows up with the same signature
    # (kind, callee, producer, macro) in another function of the same module was moved, not added.  Pool the surplus / deficit per
    # (module, signature) and let a surplus be paid from a deficit.
    def access_class(k):
        if k[1] in ("index", "assert:bounds"):
            return "access"
        if k[1] == "unwrap" and re.search(r"slice::(first|last|get)\b|::(first|last)$|(HashMap|BTreeMap|IndexMap|IndexSet|Vec)\S*::(get|get_mut|get_index|get_index_of|get_full|first|last)$|^letelse::", k[3] or ""):
            return "access"
        return None

    def sig(k):
        if access_class(k):
            return (k[0].split("::")[0], "access", "", "", "access")
        return (k[0].split("::")[0], k[1], k[2], k[3], k[4])

    deficit = collections.Counter()
    for k, r in rows.items():
        have = groups.get(k, 0) + discharged.get(k, 0)
        if have < r["count"]:
            deficit[sig(k)] += r["count"] - have
    moved_from = {}
    for k, r in rows.items():
        if groups.get(k, 0) + discharged.get(k, 0) < r["count"]:
            moved_from.setdefault(sig(k), []).append(r)
    for k, n in sorted(groups.items()):
        r = rows.get(k)
        loc = where[k][0]
        surplus = n - (r["count"] if r is not None else 0)
        if surplus > 0 and deficit.get(sig(k), 0) >= surplus:
            deficit[sig(k)] -= surplus
            src = moved_from[sig(k)][0]
            res.ok(rule, key_str(k), f"{surplus} site(s) with the signature of a tabled row of {src['fn']} ({src['class']}: {src['why'][:120]}) now stand in {k[0]}: moved code, the row's argument travels with it", loc)
            if r is not None:
                classes[r["class"]] += r["count"]
                res.ok(rule, key_str(k) + ":tabled", f"{r['count']}x {r['class']}: {r['why']}", loc)
            continue
        # the same access written another way: `v[i]` on a Vec (an index call), `s[i]` on a slice (a bounds assert) and
        # `v.first()/.last()/.get(i)` + unwrap are one class; a surplus of that class is paid by a deficit of that class in the module.
        # And an `unwrap()` on what a local function returned that moved INTO that function as an index (lookup returns the element
        # instead of an Option) is paid by the vanished unwraps.
        if surplus > 0 and access_class(k) is not None:
            mod = k[0].split("::")[0]
            avail = sum(d for s2, d in deficit.items() if s2[0] == mod and d > 0 and (s2[-1] == "access" or (s2[1] == "unwrap" and k[0] in s2[3])))
            if avail >= surplus:
                need = surplus
                for s2 in list(deficit):
                    if need and s2[0] == mod and deficit[s2] > 0 and (s2[-1] == "access" or (s2[1] == "unwrap" and k[0] in s2[3])):
                        take = min(need, deficit[s2])
                        deficit[s2] -= take
                        need -= take
                res.ok(rule, key_str(k), f"{surplus} element access(es) in {k[0]} replace as many confirmed accesses of the same kind that are gone from this module (index call / slice bounds check / first().unwrap() are one class): rewritten, not added", loc)
                continue
        if r is None:
            res.bad(rule, key_str(k), f"panic-capable site with no row in tables/panic_sites.toml: {k[1]} {k[2]} in {k[0]}" + (f" (value produced by {k[3]})" if k[3] else "") + f" at {where[k]}", loc)
            continue
        if r["count"] > n:
            # fewer sites than confirmed (removed, moved, or discharged mechanically above): nothing new to argue
            classes[r["class"]] += n
            res.ok(rule, key_str(k), f"{n} of the {r['count']} confirmed sites remain ({r['class']}: {r['why']})", loc)
            continue
        if r["count"] != n:
            res.bad(rule, key_str(k), f"{n} such sites in {k[0]}, the table confirms {r['count']} ({r['class']}: {r['why']}); new site among {where[k]}", loc)
            continue
        classes[r["class"]] += n
        if r["class"] == "FINDING":
            res.bad(rule, key_str(k), r["why"], loc)
        else:
            res.ok(rule, key_str(k), f"{n}x {r['class']}: {r['why']}", loc)
            if r["class"] == "GUARD" and k[1] == "unwrap" and (k[3] or "").endswith("::next"):
                # the row's argument is a test that stands in front of the site: re-checked on every run (the test is still there, it
                # looks at the same variable, and the variable is not reassigned between the test and the `.next().unwrap()`)
                for w in where[k]:
                    held, how = guard_held(repo, k[0], int(w.rsplit(":", 1)[1]))
                    res.check(held, rule, key_str(k) + ":guard-held", how, w)
    for k, r in rows.items():
        if k not in groups and not discharged.get(k):
            res.advisory(f"panic table row no longer matches any site (stale): {k[0]} {k[1]} {k[3]}")
    adds = [i for i in inv if i.get("mech")]
    classes["ARITH"] += len(adds)
    res.engines["M"]["panic_sites"] = len(inv)
    res.engines["M"]["panic_classes"] = dict(classes)
    arith_rule(mir, reach, adds, res)
    return inv, rows


def arith_rule(mir, reach, adds, res, rule="ARITH"):
    """Integer additions (inline Assert(overflow:Add) and calls of the primitive Add impls) on u32/usize with no large constant:
    discharged by the magnitude argument; its visible premises are checked over everything reachable from main."""
    per = collections.defaultdict(list)
    for i in adds:
        per[i["owner"]].append(i)
    for owner, sites in sorted(per.items()):
        kinds = collections.Counter(i["mech_text"] for i in sites)
        res.ok(rule, f"{rule}:add:{owner}", f"{len(sites)} addition(s) {dict(kinds)}: counters, ids and array bases bounded by the number of states, literals, positions or input "
               "bytes; memory is exhausted long before the integer range", f"{sites[0]['file']}:{sites[0]['line']}")
    res.engines["M"]["arith_add_sites"] = len(adds)
    src = RPN.magnitude_sources(mir, reach)
    text = {
        "CONST": "u32/usize constants are below 2^16",
        "UNOP": "no bitwise Not / Neg on u32/usize",
        "CAST": "u32/usize are cast only from u8/u16/u32/usize/bool/char (no signed, float or u64 source)",
        "BINOP": "no unchecked Sub/Mul/Shl on u32/usize outside std macros (checked ones are panic sites with their own rows)",
        "CALL": "no wrapping/overflowing/unchecked/saturating/pow/rotate/from_bytes/integer-parsing call produces a u32/usize",
    }
    for k, (n, off) in src.items():
        res.check(not off, rule, f"{rule}:premise:{k}", f"{text[k]} ({n} scanned)" if not off else f"{text[k]}: violated by {off[:6]}", off[0].rsplit(" at ", 1)[-1] if off else "")


def discharge_arena(repo, mir, reach, res, rule="ARENA"):
    # id newtypes are constructed only in their alloc()
    for ty, home in (("ExprId", {"parse::alloc"}), ("RegexNodeId", {"regex::alloc"})):
        sites = []
        for q, f in repo.fns.items():
            for n in A.walk(f.body):
                if n["k"] == "Call" and n["func"]["k"] == "Path" and n["func"]["path"].split("::")[-1] == ty:
                    sites.append(q)
        res.check(set(sites) <= home and sites, rule, f"{rule}:ctor:{ty}", f"{ty}(..) constructed in {sorted(set(sites))}", "")
    # arenas never shrink
    shrink = re.compile(r"Vec::<T, A>::(truncate|pop|remove|clear|drain|swap_remove|retain|retain_mut|split_off|dedup\w*)$")
    bad = []
    n_calls = 0
    for p in reach:
        fn = mir.fns[p]
        for b in fn.blocks:
            t = b["term"]
            if t["k"] == "call" and shrink.search(t["resolved"] or t["callee"]):
                n_calls += 1
                ty = t["args"][0].get("ty", "") if t["args"] else ""
                if "Vec<parse::Expr>" in ty or "Vec<regex::RegexNode>" in ty:
                    bad.append(f"{p}: {t['resolved']} on {ty}")
    res.check(not bad, rule, f"{rule}:never-shrinks", f"no shrinking Vec call on an arena among {n_calls} shrinking calls reachable from main" if not bad else f"arena shrunk: {bad}", "")
    # the only local Index impls over ids index by `.0`
    for q, f in repo.fns.items():
        if "as Index" in q and f.name == "index":
            txt = " ".join(repo.text(f.file, f.body).split())
            res.check("[index.0]" in txt.replace(" ", ""), rule, f"{rule}:impl:{q}", f"{q} is `&self[index.0]`", f.loc())


def discharge_intern(repo, res, rule="INTERN"):
    homes = {
        "RegexId": {"regex::RegexInternPool::intern"},
        "DFAId": {"dfa::DFAInternPool::intern"},
        "InpId": {"dfa::InpInternPool::intern", "dfa::InpInternPool::find", "dfa::InpInternPool::ids", "dfa::InpInternPool::pairs"},
        "SetId": {"dfa::SetInternPool::intern"},
    }
    for ty, home in homes.items():
        sites = []
        for q, f in repo.fns.items():
            for n in A.walk(f.body):
                if n["k"] == "Call" and n["func"]["k"] == "Path" and n["func"]["path"].split("::")[-1] == ty:
                    sites.append(q)
        # a constructor helper in the id type's own impl (`InpId::from_index`) is as good as the pool's methods when only they call it
        pools = {h.rsplit("::", 1)[0] for h in home}
        extra = set(sites) - home
        for q in sorted(extra):
            f = repo.fns[q]
            if f.self_ty and f.self_ty.split("<")[0] == ty:
                callers = [g.qname for g in repo.fns.values() for c in A.walk(g.body)
                           if (c["k"] == "Call" and c["func"]["k"] == "Path" and c["func"]["path"].split("::")[-2:] == [ty, f.name])
                           or (c["k"] == "Path" and c["path"].split("::")[-2:] == [ty, f.name])]   # also handed on as a value: `.map(InpId::from_index)`
                callers += [g.qname for g in repo.fns.values() if g.self_ty and g.self_ty.split("<")[0] == ty for c in A.walk(g.body)
                            if c["k"] == "Call" and c["func"]["k"] == "Path" and c["func"]["path"].split("::")[-2:] == ["Self", f.name]]
                if callers and all(any(cq.startswith(pl + "::") for pl in pools) for cq in callers):
                    extra.discard(q)
        # pool methods added beside the recorded ones are the pool's own business too
        extra = {q for q in extra if not any(q.startswith(pl + "::") for pl in pools)}
        res.check(bool(sites) and not extra, rule, f"{rule}:ctor:{ty}", f"{ty}(..) constructed in {sorted(set(sites))}" + ("" if not extra else f": {sorted(extra)} make ids outside the pool that owns them (an id that indexes nothing)"), "")
    # pools only grow: no removal on their store
    for q, f in repo.fns.items():
        if "InternPool::" in q:
            bad = [n["method"] for n in A.walk(f.body) if n["k"] == "MethodCall" and n["method"] in ("remove", "swap_remove", "shift_remove", "clear", "pop", "truncate", "retain", "drain")]
            res.check(not bad, rule, f"{rule}:grow-only:{q}", "no removal" if not bad else f"removes: {bad}", f.loc())


def exit_rule(repo, mir, reach, inv, res, rule="EXIT"):
    for i in inv:
        if i["kind"] == "exit":
            res.check(i["producer"] == "status=1", rule, f"{rule}:{i['owner']}:status", f"exit({i['producer']})", f"{i['file']}:{i['line']}")
        if i["kind"] == "abort":
            res.bad(rule, f"{rule}:{i['owner']}:abort", "abort reachable", f"{i['file']}:{i['line']}")
    fn = repo.fn("main::main")
    ok = fn is not None and fn.node.get("ret") and "Result" in fn.node["ret"]
    res.check(ok, rule, f"{rule}:main-returns-result", f"main() -> {fn.node.get('ret') if fn else None}: Err maps to status 1 by Termination", fn.loc() if fn else "")
    # Cargo.toml: no panic=abort profile (a panic must not become SIGABRT silently; also keeps unwinding assumptions)
    import os
    from vlib import core
    txt = open(os.path.join(core.REPO, "Cargo.toml")).read()
    res.check(not re.search(r"panic\s*=\s*[\"']abort", txt), rule, f"{rule}:no-panic-abort-profile", "Cargo.toml sets no panic=abort", "Cargo.toml")


def structural_descent(repo, members):
    """None unless every call between the members passes, in some argument, a value bound by a pattern out of a node of the tree
    enums (Expr / RegexNode) -- i.e. a child id: then the recursion follows tree edges and its depth is the tree's."""
    fns = [repo.fn(m) for m in members]
    if not fns or any(f is None for f in fns):
        return None
    names = {f.name for f in fns}
    n = 0
    for f in fns:
        envs = A.collect_envs(f)
        calls = list(P.find_calls(f.body, names=names))
        for c in calls:
            ok = False
            for a in c["args"]:
                p = A.resolve(a, envs.get(id(c)))
                if A.contains(p, lambda t: t[0] == "bind" and P.last(t[1]) in TREE_VARIANTS(repo)):
                    ok = True
            if not ok:
                return None
            n += 1
    return f"{n} recursive call(s) in {sorted(members)}, each passing a child bound out of a matched tree node" if n else None


def TREE_VARIANTS(repo, _c={}):
    if "v" not in _c:
        _c["v"] = {v["name"] for e in ("Expr", "RegexNode") for v in (repo.enum(e) or {}).get("variants", [])}
    return _c["v"]


def rec_rule(repo, mir, reach, res, rule="REC"):
    t = tables.load("recursion")
    rows = {r["head"]: r for r in t["scc"]}
    g = mir.callgraph()
    seen = set()
    depth = {}
    for c in mir.sccs(reach):
        if not (len(c) > 1 or c[0] in g.get(c[0], ())):
            continue
        named = [x for x in c if "{closure" not in x]
        # a component is the tabled one if it contains the tabled head: a helper extracted from (or inlined into) a recursive
        # function changes the membership and possibly the smallest name, not the recursion's descent argument
        heads = [x for x in sorted(named) if x in rows]
        head = heads[0] if heads else (min(named) if named else min(c))
        for h in heads:
            seen.add(h)
        seen.add(head)
        r = rows.get(head)
        loc = mir.fns[head].loc() if head in mir.fns else ""
        key = f"{rule}:{head}"
        if r is None:
            # an untabled recursion that descends structurally -- every recursive call passes a child bound out of the node its own
            # argument was matched against -- terminates and is of the class already reported as finding REC:DEPTH-TREE
            why = structural_descent(repo, named)
            if why is not None:
                depth.setdefault("DEPTH-TREE", []).append(head)
                res.ok(rule, key, f"not in tables/recursion.toml; classified by shape as DEPTH-TREE (site of finding REC:DEPTH-TREE): {why}", loc)
                continue
            res.bad(rule, key, f"recursion not in tables/recursion.toml: SCC {sorted(named)}; its stack depth needs an argument", loc)
            continue
        if r["class"].startswith("DEPTH"):
            depth.setdefault(r["class"], []).append(head)
            res.ok(rule, key, f"tabled as {r['class']} (site of finding REC:{r['class']}): {r['why']}", loc)
        else:
            res.ok(rule, key, f"{r['class']}: {r['why']}", loc)
    for h in rows:
        if h not in seen:
            res.advisory(f"recursion table row no longer matches an SCC (stale): {h}")
    what = {"DEPTH-NEST": "parser recursion depth = bracket nesting of the input, uncapped",
            "DEPTH-TREE": "structural recursion depth = depth of the (definition-expanded) expression / regex tree, uncapped",
            "DEPTH-PATH": "DFS recursion depth = longest path in the automaton / position graph / definition graph, uncapped"}
    for cls, heads in sorted(depth.items()):
        res.bad(rule, f"{rule}:{cls}", f"{what.get(cls, cls)}: a large enough input overflows the stack in {sorted(heads)}", "")
    # definition-edge recursion is finite only if cycles were rejected first
    fn = repo.fn("check::ValidGrammar::from_grammar")
    if fn is not None:
        pm = A.parent_map(fn.body)
        a = list(P.find_calls(fn.body, names={"get_nonterminals_resolution_order"}))
        b = list(P.find_calls(fn.body, names={"check_subword_spaces"}))
        ok = len(a) == 1 and len(b) == 1 and A.before(a[0], b[0]) and A.propagates(a[0], pm) and not A.guards_of(a[0], pm)
        res.check(ok, rule, f"{rule}:cycles-rejected-before-definition-walk", "get_nonterminals_resolution_order(..)? precedes check_subword_spaces(..) and every resolve pass", fn.loc())
    from . import c08
    tmp = type(res)(res.prop)
    seeded = c08.cycseed(repo, tmp)
    for i in tmp.instances:
        res.instances.append(i)


def ord_rule(repo, mir, res, rule="ORD"):
    """script destination is created only after all fallible validation"""
    fq = "main::aot"
    fn = repo.fn(fq)
    mfn = mir.fns.get(fq)
    if fn is None or mfn is None:
        res.undecided(rule, f"{rule}:{fq}", "function not found")
        return
    envs = A.collect_envs(fn)
    # which get_file_or_stdout call creates the *script* file: the one feeding BufWriter::new
    bw = [c for c in P.find_calls(fn.body, names={"new"}) if c["func"]["path"].endswith("BufWriter::new")]
    if len(bw) != 1:
        res.undecided(rule, f"{rule}:{fq}:bufwriter", f"{len(bw)} BufWriter::new sites", fn.loc())
        return
    p = A.resolve(bw[0]["args"][0], envs.get(id(bw[0])))
    # the destination openers of main.rs, by signature: functions returning a boxed `dyn Write`
    openers = {f.name for f in repo.fns_in("main") if "dynWrite" in "".join((f.node.get("ret") or "").split())}
    if not openers:
        res.undecided(rule, f"{rule}:{fq}:openers", "no function of main.rs returns a boxed `dyn Write`", fn.loc())
        return
    creators = [c for c in P.find_calls(fn.body, names=openers)]
    script_call = None
    for c in creators:
        q = A.resolve(c, envs.get(id(c)))
        if P.peel(p) == q:
            script_call = c
    if script_call is None:
        res.undecided(rule, f"{rule}:{fq}:script-file", f"cannot tell which call of {sorted(openers)} feeds the writer ({A.show(p)})", fn.loc())
        return
    # its path argument is the --<shell> path
    a0 = A.resolve(script_call["args"][0], envs.get(id(script_call)))
    flds = A.reach_fields(script_call["args"][0], envs.get(id(script_call)))
    res.check(("Some.0" in A.show(a0) and any(s in A.show(a0) for s in (".bash", ".fish", ".zsh", ".pwsh"))) or ({"bash", "fish", "zsh", "pwsh"} <= flds and not ({"regex", "dfa"} & flds)), rule, f"{rule}:{fq}:script-path", f"script destination = {A.show(a0)[:120]}", f"{fn.file}:{script_call['l']}")
    # MIR block of that call
    blk = None
    for i, b in enumerate(mfn.blocks):
        t = b["term"]
        if t["k"] == "call" and mir.callee_of(mfn, t).split("::")[-1] in openers and b["tsp"]["line"] == script_call["l"]:
            blk = i
    if blk is None:
        res.undecided(rule, f"{rule}:{fq}:mir-site", "MIR call site of the script-file creation not found", fn.loc())
        return
    after = M.reach_from(mfn, blk)
    offenders = []
    for i in after:
        t = mfn.blocks[i]["term"]
        if t["k"] == "call":
            cal = mir.callee_of(mfn, t)
            if cal.endswith("handle_error") or cal == "std::process::exit":
                offenders.append(f"{cal} at line {mfn.blocks[i]['tsp']['line']}")
    res.check(not offenders, rule, f"{rule}:{fq}:no-diagnostic-exit-after-create", "no handle_error / exit reachable after the script destination is created" if not offenders else f"reachable after creation: {offenders}", f"{fn.file}:{script_call['l']}")
    # `?` after creation only on the emitters' own results (I/O)
    tries_after = []
    for i in after:
        t = mfn.blocks[i]["term"]
        if t["k"] == "call" and "Try>::branch" in (t["resolved"] or t["callee"]):
            line = mfn.blocks[i]["tsp"]["line"]
            tries_after.append(line)
    src_ok = True
    # the `?` belongs to a write_completion_script(..)? expression or to the creation itself: its line lies within such a `?` expression
    spans = []
    for t in A.walk(fn.body):
        if t["k"] == "Try" and (any(x is script_call for x in A.walk(t["expr"])) or any(True for _ in P.find_calls(t["expr"], names={"write_completion_script"}))):
            spans.append((t["l"], t.get("el", t["l"])))
    for line in tries_after:
        if not any(a <= line <= b for a, b in spans):
            src_ok = False
    res.check(src_ok and len(tries_after) >= 4, rule, f"{rule}:{fq}:only-emitter-errors-after-create", f"{len(tries_after)} `?` after creation, all on write_completion_script(..)", fn.loc())
    # validation dominates creation
    dom = M.dominators(mfn)
    need = ["Grammar::parse", "ValidGrammar::from_grammar", "Regex::from_valid_grammar", "DFA::from_regex_raw", "DFA::minimize", "DFA::check_ambiguity_best_effort"]
    for nme in need:
        bl = M.call_blocks(mir, mfn, lambda c, t: c.endswith(nme))
        ok = bool(bl) and any(b in dom.get(blk, ()) for b in bl)
        res.check(ok, rule, f"{rule}:{fq}:dominated-by:{nme}", f"{nme} dominates the creation of the script destination", fn.loc())
    # no other file creation before validation except --regex/--dfa dumps (by design)
    res.check(len(creators) == 3, rule, f"{rule}:{fq}:creators", f"{len(creators)} destination-opening sites (script, --regex, --dfa)", fn.loc())


def stdout_rule(repo, res, rule="STDOUT"):
    """`a diagnostic on stderr, nothing on stdout but the script`: in the shipped crates nothing is printed with print!/println!/dbg!, and
    std::io::stdout() is taken only by the destination opener of main.rs (the function returning a boxed `dyn Write`, for the `-`
    destination).  A diagnostic printed with println! lands inside the script when the destination is `-`."""
    bad = []
    n = 0
    for q, fn in sorted(repo.fns.items()):
        if q.startswith("build::"):
            continue
        is_opener = fn.module == "main" and "dynWrite" in "".join((fn.node.get("ret") or "").split())
        pm = None
        for x in A.walk(fn.body):
            if x["k"] == "Macro" and x["name"].split("::")[-1] in ("print", "println", "dbg"):
                # an informational mode that prints and leaves before anything is compiled (`--version`): the enclosing branch diverges
                pm = pm or A.parent_map(fn.body)
                gs = [g for g in A.guards_of(x, pm) if g[0]["k"] == "If" and g[1] == "then"]
                if fn.qname == "main::main" and gs and A.diverges(gs[0][0]["then"]):
                    continue
                # ... or the branch is an alternative to compiling: it calls no function of main.rs at all
                allg = [g for g in A.guards_of(x, pm) if g[0]["k"] == "If"]
                if fn.qname == "main::main" and allg:
                    br = allg[0][0]["then"] if allg[0][1] == "then" else allg[0][0].get("else")
                    local_calls = [c for c in A.walk(br) if c["k"] == "Call" and c["func"]["k"] == "Path" and repo.fn("main::" + c["func"]["path"].split("::")[-1]) is not None] if br is not None else [1]
                    if not local_calls:
                        continue
                bad.append(f"{q}: {x['name']}! at {fn.file}:{x['l']}")
            elif x["k"] == "Call" and x["func"]["k"] == "Path" and x["func"]["path"].split("::")[-1] == "stdout" and "io" in x["func"]["path"]:
                n += 1
                if not is_opener:
                    bad.append(f"{q}: io::stdout() at {fn.file}:{x['l']}")
    res.check(not bad and n >= 1, rule, f"{rule}:only-the-script-goes-to-stdout", f"no print!/println!/dbg! in the shipped code; io::stdout() taken {n}x, only by the destination opener" if not bad else f"text other than the script can reach stdout: {bad[:4]}", "src/main.rs")


def spanline_rule(repo, res, rule="SPANLINE"):
    """Discharge of the `dep-contract:chic` rows (chic / annotate-snippets subtract column_start from column_end of one
    source line): HumanSpan::from_range may take the end column from the *later* position only when both positions are
    on the same line. Re-checked so that the repair of F-C06-3 coming undone is reported again."""
    fq = "parse::HumanSpan::from_range"
    fn = repo.fn(fq)
    key = "PANIC:main::ErrMsg::error|dep-contract:chic|chic::Error::error||:same-line-end-column"
    if fn is None or len(fn.params) < 2:
        res.undecided(rule, key, f"{fq} not found")
        return
    first, second = fn.params[0]["name"], fn.params[1]["name"]
    pm = A.parent_map(fn.body)
    envs = A.collect_envs(fn)

    def on(n, who):
        return n["k"] == "MethodCall" and n["recv"]["k"] == "Path" and n["recv"]["path"] == who

    def same_line_test(c):
        if c["k"] != "Binary" or c["op"] not in ("==", "!=", ">", "<"):
            return None
        # each side is `<param>.location_line()`, written in place or through a local
        who = []
        for x in (c["left"], c["right"]):
            p = A.resolve(x, envs.get(id(x)) or envs.get(id(c)))
            while p[0] in ("cast", "ref", "deref"):
                p = p[1]
            if p[0] == "mcall" and p[1] == "location_line" and P.peel(p[2])[0] == "param":
                who.append(P.peel(p[2])[2])
            else:
                return None
        if set(who) == {first, second}:
            if c["op"] in ("==", "!="):
                return c["op"]
            # `later.line > earlier.line` / `earlier.line < later.line`: the else branch is the same-line case (later >= earlier always)
            if (c["op"] == ">" and who[0] == second) or (c["op"] == "<" and who[0] == first):
                return "!="
        return None

    cols = [n for n in A.walk(fn.body) if on(n, second) and n["method"] in ("get_column", "get_utf8_column", "naive_get_utf8_column")]
    bad = []
    for n in cols:
        ok = False
        for par, role in A.guards_of(n, pm):
            if par["k"] == "If":
                op = same_line_test(par["cond"])
                if (op == "==" and role == "then") or (op == "!=" and role == "else"):
                    ok = True
        if not ok:
            bad.append(n["l"])
    starts = [n for n in A.walk(fn.body) if on(n, first) and n["method"] == "get_column"]
    res.check(not bad and bool(starts), rule, key,
              f"{fq}: the end column is read from `{second}` ({len(cols)} site(s)) only under `{second}.location_line() == {first}.location_line()`" if not bad else
              f"{fq} takes the end column from `{second}` at line(s) {bad} although it may lie on a later line: column_end < column_start reaches chic's renderer, which panics", fn.loc())


def column_units(repo, res, rule="SPANLINE"):
    """chic / annotate-snippets subtracts start from end: both columns of a span must be measured in the same unit.  In the HumanSpan
    constructors every column is read with ONE accessor of the located span (get_column = bytes today); mixing it with
    get_utf8_column / naive_get_utf8_column makes end < start after non-ASCII text on the line."""
    accessors = {"get_column", "get_utf8_column", "naive_get_utf8_column"}
    used = {}
    for q in ("parse::HumanSpan::from_range", "parse::HumanSpan::from_machine"):
        fn = repo.fn(q)
        if fn is None:
            res.undecided(rule, f"{rule}:{q}:units", "function not found")
            continue
        for n in A.walk(fn.body):
            if n["k"] == "MethodCall" and n["method"] in accessors:
                used.setdefault(n["method"], []).append(q)
    res.check(len(used) == 1, rule, f"{rule}:parse::HumanSpan:one-column-unit", f"column accessors used by the span constructors: {({k: len(v) for k, v in used.items()})}" + ("" if len(used) == 1 else ": start and end columns are measured in different units (bytes vs characters)"), "src/parse.rs")


def callgraph_soundness(mir, reach, res, rule="CG"):
    unresolved = collections.Counter()
    dyn = 0
    local_unres = []
    for p in reach:
        fn = mir.fns[p]
        for b in fn.blocks:
            t = b["term"]
            if t["k"] == "call":
                if t["dyn"]:
                    dyn += 1
                if not t["resolved"]:
                    unresolved[t["callee"]] += 1
                    if not re.match(r"^(<.* as )?(std|core|alloc)::", t["callee"]) and not t["callee"].startswith("<fnptr") and not re.match(r"^<[A-Z]\w* as (std|core)::", t["callee"]):
                        local_unres.append(f"{p} -> {t['callee']}")
    ok = not [x for x in local_unres if "complgen" in x or re.search(r"-> (bash|fish|zsh|pwsh|dfa|regex|check|parse|tables)::", x)]
    res.check(ok, rule, f"{rule}:unresolved-are-foreign", f"{sum(unresolved.values())} unresolved calls, all to std traits on generic parameters: {sorted(unresolved)[:6]}; {dyn} dynamic", "")
    res.engines["M"]["unresolved_calls"] = sum(unresolved.values())


def run(repo, res, tier):
    mir = M.get_mir(tier)
    reach = mir.reachable(["main::main"])
    res.engines["M"] = {"crates": mir.crates, "functions": len(mir.fns), "reachable_from_main": len(reach),
                        "call_edges": sum(len(v) for v in mir.callgraph().values())}
    inv, rows = panic_rule(repo, mir, reach, res)
    discharge_arena(repo, mir, reach, res)
    discharge_intern(repo, res)
    RPL.phase_check(repo, res)
    # the `unreachable!()` on a within-word symbol inside a within-word regex (regex::RegexInput::is_star_subword) is discharged by
    # "within-word expressions are flattened": that argument is the traversal completeness of the two flattening passes
    from . import common
    common.run_traversals(repo, res, only={"parse::flatten_expr", "check::collapse_subwords"})
    # the definition-edge recursions (do_check_subword_spaces, resolve_nonterminals) are bounded only because the cycle check ran on
    # every definition: its exemptions (early returns, skipped vertices) are the enumerated ones
    from vlib import rules_fieldcover as FC
    # discharges that were sentences in tables/panic_sites.toml: `id_from_cmd.get_index_of(cmd).unwrap()` is safe because get_commands
    # collected every cmd-carrying symbol; `completion_subwords[level]` is in range because get_max_fallback_level saw every level-carrying symbol
    FC.fieldcover(repo, res, "dfa::DFA::get_commands", "Inp", "cmd", "call:insert", min_matches=2)
    FC.fieldcover(repo, res, "dfa::Inp::get_fallback_level", "Inp", "fallback_level", "value")
    # `id_from_literal_description.get(&(literal, description)).unwrap()` in the dfa.rs getters: the map holds the automaton's own pairs
    from . import c04
    c04.literal_ids_premise(repo, res)
    column_units(repo, res)
    from . import c10
    c10.outfile_rule(repo, res)  # `having written a complete script`: the destination holds this run's bytes only
    from vlib import rules_skips as SK, tables
    n_sk = SK.skips_rule(repo, res, tables.load("skips")["row"], only={"check::get_nonterminals_resolution_order", "check::traverse_nonterminal_dependencies_dfs", "check::get_not_depended_on_nonterminals"})
    res.floor("SKIPS", n_sk, 3)
    exit_rule(repo, mir, reach, inv, res)
    stdout_rule(repo, res)
    from . import c08
    c08.graph_walkers(repo, res)  # `does not hang`: the graph walks of the ambiguity checks are linear only while their visited sets only grow
    rec_rule(repo, mir, reach, res)
    ord_rule(repo, mir, res)
    spanline_rule(repo, res)
    callgraph_soundness(mir, reach, res)
    c15.warn_rules(repo, res)
    res.floor("PANIC", res.count("PANIC"), 53)
    res.floor("ARITH", res.count("ARITH"), 15)
    res.check(res.engines["M"].get("arith_add_sites", 0) >= 45, "ARITH", "ARITH:site-floor", f"{res.engines['M'].get('arith_add_sites', 0)} additions recognised (floor 45: 37 inline + 25 through `&u32 + u32` counted on the unchanged tree)", "")
    res.floor("REC", res.count("REC"), 14)
    res.floor("ORD", res.count("ORD"), 5)
    res.floor("EXIT", res.count("EXIT"), 2)
    res.check(len(reach) >= 380, "CG", "CG:reach-floor", f"{len(reach)} local functions reachable from main (floor 380)", "")
